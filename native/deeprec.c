/* deeprec.c -- embedding harness of the C05 monitor (deep recursion ends cleanly).
   One chibi context through the C API.  Every line of the file named by argv[1] is one program text;
   each is evaluated with sexp_eval_string in the same context, with NO Scheme-level handler installed,
   so that whatever the VM hands back to its embedding caller is observed directly:

     R <line#> value <written value>
     R <line#> exception oos=<1 if it is the context's out-of-stack object> <message>
     T <line#> top=<published stack top after the call> len=<length of the stack object>

   The stack top before the first item is printed as `T 0 ...`.  Exit code 0 when all lines were
   processed (whatever their results); a crash shows as a signal. */
#include <stdio.h>
#include <string.h>
#include <stdlib.h>
#include <chibi/eval.h>

static void report (sexp ctx, int idx, sexp res) {
  sexp_gc_var2(str, msg);
  sexp_gc_preserve2(ctx, str, msg);
  if (res && sexp_exceptionp(res)) {
    msg = sexp_exception_message(res);
    printf("R %d exception oos=%d %s\n", idx,
           res == sexp_global(ctx, SEXP_G_OOS_ERROR) ? 1 : 0,
           sexp_stringp(msg) ? sexp_string_data(msg) : "?");
  } else {
    str = sexp_write_to_string(ctx, res);
    printf("R %d value %s\n", idx, sexp_stringp(str) ? sexp_string_data(str) : "?");
  }
  printf("T %d top=%ld len=%ld\n", idx, (long)sexp_context_top(ctx),
         (long)sexp_stack_length(sexp_context_stack(ctx)));
  fflush(stdout);
  sexp_gc_release2(ctx);
}

int main (int argc, char **argv) {
  sexp ctx;
  FILE *fh;
  char *line = NULL;
  size_t cap = 0;
  ssize_t len;
  int idx = 0;
  sexp_gc_var1(res);
  if (argc < 2) { fprintf(stderr, "usage: deeprec FILE\n"); return 2; }
  fh = fopen(argv[1], "r");
  if (!fh) { perror(argv[1]); return 2; }
  sexp_scheme_init();
  ctx = sexp_make_eval_context(NULL, NULL, NULL, 0, 0);
  sexp_gc_preserve1(ctx, res);
  res = sexp_load_standard_env(ctx, NULL, SEXP_SEVEN);
  if (sexp_exceptionp(res)) { report(ctx, -1, res); return 2; }
  res = sexp_load_standard_ports(ctx, NULL, stdin, stdout, stderr, 1);
  if (sexp_exceptionp(res)) { report(ctx, -1, res); return 2; }
  printf("T 0 top=%ld len=%ld max=%ld\n", (long)sexp_context_top(ctx),
         (long)sexp_stack_length(sexp_context_stack(ctx)), (long)SEXP_MAX_STACK_SIZE);
  while ((len = getline(&line, &cap, fh)) >= 0) {
    idx++;
    if (len == 0 || line[0] == '\n' || line[0] == ';') continue;
    res = sexp_eval_string(ctx, line, -1, NULL);
    report(ctx, idx, res);
  }
  printf("END\n");
  fflush(stdout);
  fclose(fh);
  sexp_gc_release1(ctx);
  /* the context is deliberately not destroyed: chibi closes fds 0/1/2 then, and nothing here is about
     tear-down */
  return 0;
}
