/* evalseq.c -- embedding harness (C01, C05): one context, a sequence of items evaluated through the C API
   with NO Scheme-level handler installed, so "ends in a value or an error object returned to the embedding
   caller" and "the same context keeps evaluating" are observed at the API boundary.

   usage: evalseq <items-file> [--skip N] [--heap INIT] [--max MAX] [--item-ms MS] [--probe-file F]
   items file:   "#ITEM <id> <mode>\n" <text lines> "#END\n"     mode = eval | evalscratch | read | load | setup
   output:       "#<id>\n" then one line:
                   "V <type-name>"                      a value came back
                   "E <kind> | <message>"               an exception object came back
                 and, after every E (and every 50th V), "P <digest>" = output of the probe program evaluated in
                 the SAME context ("P0 <digest>" once at the start is the fresh-context reference)          */
#define _GNU_SOURCE
#include <chibi/eval.h>
#include <signal.h>
#include <stdio.h>
#include <stdlib.h>
#include <string.h>
#include <sys/time.h>
#include <unistd.h>
#include <execinfo.h>

static sexp the_ctx;
static FILE *out;      /* private copy of stdout: items may close or redirect the standard ports */
static volatile int interrupted;

static long item_ms_g = 3000;
static int out_fd = 1;

/* first expiry: ask the VM to raise its interrupt error (works inside Scheme loops); second expiry: the item is */
/* stuck in C code that cannot be interrupted - say so and leave, the runner restarts after this item            */
/* a crash is the event this harness exists to report: say where it happened (frames + how far the C stack had grown) */
static char *stack_base_g;
static void on_crash (int sig, siginfo_t *si, void *uc) {
  void *fr[48]; int n; char buf[160];
  n = snprintf(buf, sizeof(buf), "\n#CRASH signal=%d addr=%p stack-depth-kb=%ld\n", sig, si ? si->si_addr : NULL,
               (long)((stack_base_g - (char*)(si ? si->si_addr : NULL)) / 1024));
  if (write(2, buf, n) < 0) {}
  n = backtrace(fr, 48);
  backtrace_symbols_fd(fr, n, 2);
  signal(sig, SIG_DFL);
  raise(sig);
}

static void on_alarm (int sig) {
  struct itimerval it;
  if (interrupted) {
    /* say where it is stuck: the whole C stack (it can be 10^4 frames of one recursive function), names only */
    static void *fr[20000]; int n;
    if (write(2, "\n#STUCK\n", 8) < 0) {}
    n = backtrace(fr, 20000);
    backtrace_symbols_fd(fr, n, 2);
    if (write(2, "#STUCK-END\n", 11) < 0) {}
    if (write(out_fd, "T hard-timeout\n", 15) < 0) {}
    _exit(77);
  }
  interrupted = 1;
  {
    /* the VM tests the flag of the context it is running, which for sexp_eval is a child of ours */
    sexp c; int n = 0;
    for (c = the_ctx; c && sexp_pointerp(c) && sexp_contextp(c) && n < 64; c = sexp_context_child(c), n++)
      sexp_context_interruptp(c) = 1;
  }
  memset(&it, 0, sizeof(it));
  it.it_value.tv_sec = item_ms_g / 1000;
  it.it_value.tv_usec = (item_ms_g % 1000) * 1000;
  setitimer(ITIMER_REAL, &it, NULL);
}

static void arm (long ms) {
  struct itimerval it;
  memset(&it, 0, sizeof(it));
  it.it_value.tv_sec = ms / 1000;
  it.it_value.tv_usec = (ms % 1000) * 1000;
  setitimer(ITIMER_REAL, &it, NULL);
}

static const char *type_name (sexp ctx, sexp x) {
  sexp t, n;
  if (sexp_fixnump(x)) return "fixnum";
  if (sexp_charp(x)) return "char";
  if (sexp_booleanp(x)) return "boolean";
  if (sexp_nullp(x)) return "null";
  if (x == SEXP_VOID) return "void";
  if (x == SEXP_EOF) return "eof";
  if (x == SEXP_UNDEF) return "undef";
  if (sexp_symbolp(x) && !sexp_pointerp(x)) return "symbol";
  if (!sexp_pointerp(x)) return "immediate";
  if (sexp_pointer_tag(x) >= sexp_context_num_types(ctx)) return "BAD-TAG";
  t = sexp_object_type(ctx, x);
  n = sexp_type_name(t);
  return (n && sexp_stringp(n)) ? sexp_string_data(n) : "object";
}

static void print_exn (sexp ctx, sexp e) {
  sexp k = sexp_exception_kind(e), m = sexp_exception_message(e);
  char kind[64] = "?";
  if (sexp_symbolp(k)) {
    sexp s = sexp_symbol_to_string(ctx, k);
    if (sexp_stringp(s)) snprintf(kind, sizeof(kind), "%s", sexp_string_data(s));
  }
  fprintf(out, "E %s | %.120s\n", kind, sexp_stringp(m) ? sexp_string_data(m) : "?");
}

static long slurp_len;
static char *slurp (const char *file) {
  FILE *f = fopen(file, "r");
  long n; char *buf;
  if (!f) { perror(file); exit(2); }
  fseek(f, 0, SEEK_END); n = ftell(f); fseek(f, 0, SEEK_SET);
  buf = malloc(n + 1);
  if (fread(buf, 1, n, f) != (size_t)n) { perror("read"); exit(2); }
  buf[n] = 0;
  slurp_len = n;
  fclose(f);
  return buf;
}

static const char *default_probe =
  "(let* ((mk (lambda (n) (lambda (x) (+ x n)))) (f (mk 5)) (s (string #\\a (integer->char 955) #\\b))"
  "       (big (* 12345678901234567890 98765432109876543210)) (log '()))"
  "  (dynamic-wind (lambda () (set! log (cons 'in log)))"
  "                (lambda () (call-with-current-continuation (lambda (k) (set! log (cons 'body log)) (k 1))))"
  "                (lambda () (set! log (cons 'out log))))"
  "  (let ((v (make-vector 3 'x)) (l (let lp ((i 0) (a '())) (if (< i 200) (lp (+ i 1) (cons (* i i) a)) a))))"
  "    (list (f 10) (string-length s) (char->integer (string-ref s 1)) big (reverse log) (vector-ref v 2)"
  "          (apply + l) (exact->inexact 1/4) (string->symbol \"probe\") (length (list-copy l)))))";

static void run_probe (sexp ctx, const char *probe, const char *tag) {
  sexp_gc_var2(res, str);
  sexp_gc_preserve2(ctx, res, str);
  arm(20000);
  res = sexp_eval_string(ctx, probe, -1, NULL);
  arm(0);
  sexp_context_interruptp(ctx) = 0;
  if (sexp_exceptionp(res)) {
    fprintf(out, "%s EXCEPTION ", tag); print_exn(ctx, res);
  } else {
    str = sexp_write_to_string(ctx, res);
    fprintf(out, "%s %s\n", tag, sexp_stringp(str) ? sexp_string_data(str) : "?");
  }
  sexp_gc_release2(ctx);
}

int main (int argc, char **argv) {
  char *text, *text_end, *p, *end;
  long skip = 0, item_ms = 3000, idx = 0, nvals = 0;
  sexp_uint_t heap = 4*1024*1024, maxheap = 256*1024*1024;
  const char *probe = default_probe;
  sexp ctx;
  int i;
  if (argc < 2) { fprintf(stderr, "usage: evalseq <items> [--skip N] [--heap B] [--max B] [--item-ms MS] [--probe-file F]\n"); return 2; }
  for (i = 2; i + 1 < argc; i += 2) {
    if (!strcmp(argv[i], "--skip")) skip = atol(argv[i+1]);
    else if (!strcmp(argv[i], "--heap")) heap = strtoul(argv[i+1], NULL, 10);
    else if (!strcmp(argv[i], "--max")) maxheap = strtoul(argv[i+1], NULL, 10);
    else if (!strcmp(argv[i], "--item-ms")) item_ms = atol(argv[i+1]);
    else if (!strcmp(argv[i], "--probe-file")) probe = slurp(argv[i+1]);
  }
  text = slurp(argv[1]);
  text_end = text + slurp_len;
  out_fd = dup(1);
  out = fdopen(out_fd, "w");
  item_ms_g = item_ms;
  signal(SIGALRM, on_alarm);
#if !defined(__SANITIZE_ADDRESS__)
  {
    static char alt[1 << 16]; stack_t ss; struct sigaction sa; char here;
    stack_base_g = &here;
    ss.ss_sp = alt; ss.ss_size = sizeof(alt); ss.ss_flags = 0;
    sigaltstack(&ss, NULL);
    memset(&sa, 0, sizeof(sa));
    sa.sa_sigaction = on_crash; sa.sa_flags = SA_SIGINFO | SA_ONSTACK | SA_RESETHAND;
    sigaction(SIGSEGV, &sa, NULL); sigaction(SIGBUS, &sa, NULL);
  }
#endif
  sexp_scheme_init();
  ctx = sexp_make_eval_context(NULL, NULL, NULL, heap, maxheap);
  sexp_load_standard_env(ctx, NULL, SEXP_SEVEN);
  sexp_load_standard_ports(ctx, NULL, stdin, stdout, stderr, 1);
  the_ctx = ctx;
  {
    sexp_gc_var4(res, str, port, env);
    sexp_gc_preserve4(ctx, res, str, port, env);
    setvbuf(out, NULL, _IOLBF, 0);
    run_probe(ctx, probe, "P0");
    /* item texts may contain NUL bytes: search with explicit lengths */
    for (p = text; (p = memmem(p, text_end - p, "#ITEM ", 6)) != NULL; ) {
      char id[64] = "", mode[16] = "eval";
      char *body, saved;
      sscanf(p, "#ITEM %63s %15s", id, mode);
      body = memchr(p, '\n', text_end - p);
      if (!body) break;
      body++;
      end = memmem(body, text_end - body, "\n#END", 5);
      if (!end) break;
      p = end + 5;
      if (idx++ < skip) continue;
      saved = *end; *end = 0;
      fprintf(out, "#%s\n", id); fflush(out);
      interrupted = 0;
      item_ms_g = strcmp(mode, "setup") ? item_ms : 120000;    /* imports are slow on the sanitized build */
      arm(item_ms_g);
      if (!strcmp(mode, "read")) {
        str = sexp_c_string(ctx, body, end - body);
        port = sexp_open_input_string(ctx, str);
        do { res = sexp_read(ctx, port); } while (res != SEXP_EOF && !sexp_exceptionp(res) && !interrupted);
      } else if (!strcmp(mode, "load")) {
        char tmpl[] = "./evalseq-load-XXXXXX";   /* in the harness's scratch working directory */
        int fd = mkstemp(tmpl);
        if (fd >= 0) {
          if (write(fd, body, end - body) < 0) {}
          close(fd);
          str = sexp_c_string(ctx, tmpl, -1);
          /* like evalscratch: what a loaded file *successfully* defines must not leak into the probe */
          env = sexp_make_env(ctx);
          sexp_env_parent(env) = sexp_context_env(ctx);
          res = sexp_load(ctx, str, env);
          unlink(tmpl);
        } else res = SEXP_VOID;
      } else if (!strcmp(mode, "evalscratch")) {
        /* items that may define or rebind global names are evaluated in a throw-away child environment, */
        /* so that what a *successful* definition does is not mistaken for damage done by an error      */
        env = sexp_make_env(ctx);
        sexp_env_parent(env) = sexp_context_env(ctx);
        res = sexp_eval_string(ctx, body, end - body, env);
      } else {
        res = sexp_eval_string(ctx, body, end - body, NULL);
      }
      arm(0);
      sexp_context_interruptp(ctx) = 0;
      *end = saved;
      if (sexp_exceptionp(res)) {
        print_exn(ctx, res);
        if (strcmp(mode, "setup")) run_probe(ctx, probe, "P");
      } else {
        fprintf(out, "V %s\n", type_name(ctx, res));
        if (++nvals % 50 == 0 && strcmp(mode, "setup")) run_probe(ctx, probe, "P");
      }
      fflush(out);
    }
    sexp_gc_release4(ctx);
  }
  fprintf(out, "#DONE %ld\n", idx);
  fflush(out);
  sexp_destroy_context(ctx);
  return 0;
}
