/* envprobe -- embedding harness for C14 (and anything else that must evaluate forms that may raise
 * inside a nested VM loop without any Scheme-side handler, DESIGN 2.4).
 *
 *   envprobe [-I dir | -A dir]... <request-file>
 *
 * One context with the standard environment plus the `import' form of the REPL.  The request file
 * holds one request per line:  <id> TAB <scheme text>.  Every request is evaluated by a separate
 * C-level sexp_eval_string in the context's environment with no handler installed, so an exception
 * (even one raised inside `eval') simply comes back to C as an exception object.  For every request
 * the harness prints
 *      #<id>
 *      (ok <written value>)            or
 *      (exc <kind> <message> <irritants written to a string>)
 * through the Scheme current output port (so output of the evaluated code, e.g. library load
 * markers, stays in order), then `#END'.
 */
#include <stdio.h>
#include <stdlib.h>
#include <string.h>
#include <unistd.h>
#include "chibi/eval.h"

static void put(sexp ctx, const char *s) {
  sexp out = sexp_current_output_port(ctx);
  if (sexp_oportp(out)) {
    sexp_write_string(ctx, s, out);
  } else {
    fputs(s, stdout);
  }
}

static void flush_out(sexp ctx) {
  sexp out = sexp_current_output_port(ctx);
  if (sexp_oportp(out)) sexp_flush(ctx, out);
  fflush(stdout);
}

static void put_written(sexp ctx, sexp x) {
  sexp_gc_var1(s);
  sexp_gc_preserve1(ctx, s);
  s = sexp_write_to_string(ctx, x);
  if (sexp_stringp(s)) put(ctx, sexp_string_data(s));
  else put(ctx, "#<unwritable>");
  sexp_gc_release1(ctx);
}

/* the written form of x, as a Scheme string literal */
static void put_written_as_string(sexp ctx, sexp x) {
  sexp_gc_var1(s);
  sexp_gc_preserve1(ctx, s);
  s = sexp_write_to_string(ctx, x);
  if (sexp_stringp(s)) put_written(ctx, s);
  else put(ctx, "\"#<unwritable>\"");
  sexp_gc_release1(ctx);
}

int main (int argc, char **argv) {
  sexp ctx;
  FILE *req;
  char *line = NULL, *tab;
  size_t cap = 0;
  ssize_t n;
  int i;
  sexp_gc_var3(res, tmp, sym);

  ctx = sexp_make_eval_context(NULL, NULL, NULL, 0, 0);
  if (!ctx) { fprintf(stderr, "envprobe: no context\n"); return 3; }
  sexp_gc_preserve3(ctx, res, tmp, sym);
  for (i = 1; i < argc - 1; i++) {
    if ((!strcmp(argv[i], "-I") || !strcmp(argv[i], "-A")) && i + 1 < argc - 1) {
      tmp = sexp_c_string(ctx, argv[i + 1], -1);
      sexp_add_module_directory(ctx, tmp, argv[i][1] == 'A' ? SEXP_TRUE : SEXP_FALSE);
      i++;
    } else {
      fprintf(stderr, "envprobe: bad argument %s\n", argv[i]);
      return 3;
    }
  }
  if (argc < 2 || !(req = fopen(argv[argc - 1], "r"))) {
    fprintf(stderr, "envprobe: cannot open request file\n");
    return 3;
  }
  res = sexp_load_standard_env(ctx, NULL, SEXP_SEVEN);
  if (sexp_exceptionp(res)) {
    sexp_print_exception(ctx, res, sexp_current_error_port(ctx));
    return 3;
  }
  sexp_load_standard_ports(ctx, NULL, stdin, stdout, stderr, 1);
  /* the `import' binding of the REPL (as main.c does) */
  sym = sexp_intern(ctx, "repl-import", -1);
  tmp = sexp_env_ref(ctx, sexp_global(ctx, SEXP_G_META_ENV), sym, SEXP_VOID);
  sym = sexp_intern(ctx, "import", -1);
  sexp_env_define(ctx, sexp_context_env(ctx), sym, tmp);

  while ((n = getline(&line, &cap, req)) >= 0) {
    while (n > 0 && (line[n - 1] == '\n' || line[n - 1] == '\r')) line[--n] = 0;
    if (n == 0) continue;
    tab = strchr(line, '\t');
    if (!tab) continue;
    *tab = 0;
    put(ctx, "\n#");
    put(ctx, line);
    put(ctx, "\n");
    flush_out(ctx);
    res = sexp_eval_string(ctx, tab + 1, -1, NULL);
    /* raise-continuable wraps its payload: report the original exception */
    sym = sexp_intern(ctx, "continuable", -1);
    while (sexp_exceptionp(res) && sexp_exception_kind(res) == sym
           && sexp_exceptionp(sexp_exception_irritants(res)))
      res = sexp_exception_irritants(res);
    if (sexp_exceptionp(res)) {
      put(ctx, "\n(exc ");
      put_written(ctx, sexp_exception_kind(res));
      put(ctx, " ");
      if (sexp_stringp(sexp_exception_message(res)))
        put_written(ctx, sexp_exception_message(res));
      else
        put_written_as_string(ctx, sexp_exception_message(res));
      put(ctx, " ");
      put_written_as_string(ctx, sexp_exception_irritants(res));
      put(ctx, ")\n");
    } else {
      put(ctx, "\n(ok ");
      put_written(ctx, res);
      put(ctx, ")\n");
    }
    flush_out(ctx);
  }
  put(ctx, "\n#END\n");
  flush_out(ctx);
  sexp_gc_release3(ctx);
  _exit(0);
}
