/* vmark.c -- loadable chibi library used by the monitors (not part of chibi):
   (heap-counts)   => #(heap-bytes free-bytes heaps free-chunks max-free-chunk)
   (open-fd-count) => number of open file descriptors of this process
   (verif-mark s)  => writes "MARK <s>" into the hook log when the build has hooks */
#include <chibi/eval.h>
#include <dirent.h>
#include <stdio.h>

extern void sexp_verif_logf (const char *fmt, ...) __attribute__((weak));

static sexp heap_counts (sexp ctx, sexp self, sexp_sint_t n) {
  sexp_heap h; sexp_free_list r;
  sexp_uint_t total = 0, freeb = 0, nheaps = 0, nfree = 0, maxfree = 0;
  sexp_gc_var1(res);
  for (h = sexp_context_heap(ctx); h; h = h->next) {
    nheaps++; total += h->size;
    for (r = h->free_list->next; r; r = r->next) {
      freeb += r->size; nfree++;
      if (r->size > maxfree) maxfree = r->size;
    }
  }
  sexp_gc_preserve1(ctx, res);
  res = sexp_make_vector(ctx, sexp_make_fixnum(5), SEXP_ZERO);
  sexp_vector_set(res, SEXP_ZERO, sexp_make_fixnum(total));
  sexp_vector_set(res, SEXP_ONE, sexp_make_fixnum(freeb));
  sexp_vector_set(res, SEXP_TWO, sexp_make_fixnum(nheaps));
  sexp_vector_set(res, SEXP_THREE, sexp_make_fixnum(nfree));
  sexp_vector_set(res, SEXP_FOUR, sexp_make_fixnum(maxfree));
  sexp_gc_release1(ctx);
  return res;
}

static sexp open_fd_count (sexp ctx, sexp self, sexp_sint_t n) {
  DIR *d = opendir("/proc/self/fd");
  struct dirent *e; long k = 0;
  if (!d) return SEXP_FALSE;
  while ((e = readdir(d))) if (e->d_name[0] != '.') k++;
  closedir(d);
  return sexp_make_fixnum(k - 1);   /* minus the directory stream itself */
}

static sexp verif_mark (sexp ctx, sexp self, sexp_sint_t n, sexp s) {
  if (!sexp_stringp(s)) return sexp_type_exception(ctx, self, SEXP_STRING, s);
  if (sexp_verif_logf) sexp_verif_logf("MARK %s\n", sexp_string_data(s));
  return sexp_verif_logf ? SEXP_TRUE : SEXP_FALSE;
}

sexp sexp_init_library (sexp ctx, sexp self, sexp_sint_t n, sexp env, const char* version, const sexp_abi_identifier_t abi) {
  sexp_define_foreign(ctx, env, "heap-counts", 0, heap_counts);
  sexp_define_foreign(ctx, env, "open-fd-count", 0, open_fd_count);
  sexp_define_foreign(ctx, env, "verif-mark", 1, verif_mark);
  return SEXP_VOID;
}
