/* mtctx.c -- multi-context harness (C13).
   mtctx threads <n> <workload-file> <seed>   : n OS threads, each with its own root context, runs workload (i mod k)
   mtctx iso <script-file>                    : one OS thread, several contexts interleaved; script lines
                                                "<ctx-letter>\t<expr>"  evaluate in that context (created on first use)
                                                "!<ctx-letter>"         destroy that context
   Output: one line per thread / script line:  "<id>\t<written result or ERROR: message>"                     */
#include <chibi/eval.h>
#include <pthread.h>
#include <stdio.h>
#include <stdlib.h>
#include <string.h>
#include <unistd.h>

#define MAXW 64
static char *workloads[MAXW];
static int nworkloads;
static unsigned long seed0;

static char *eval_all (sexp ctx, const char *text) {
  char *out;
  sexp_gc_var4(res, str, port, x);
  sexp_gc_preserve4(ctx, res, str, port, x);
  res = SEXP_VOID;
  str = sexp_c_string(ctx, text, -1);
  port = sexp_open_input_string(ctx, str);
  for (;;) {
    x = sexp_read(ctx, port);
    if (x == SEXP_EOF) break;
    if (sexp_exceptionp(x)) { res = x; break; }
    res = sexp_eval(ctx, x, NULL);
    if (sexp_exceptionp(res)) break;
  }
  if (sexp_exceptionp(res)) {
    sexp msg = sexp_exception_message(res);
    size_t n = 64 + (sexp_stringp(msg) ? sexp_string_size(msg) : 0);
    out = malloc(n);
    snprintf(out, n, "ERROR: %s", sexp_stringp(msg) ? sexp_string_data(msg) : "?");
  } else {
    str = sexp_write_to_string(ctx, res);
    out = strdup(sexp_stringp(str) ? sexp_string_data(str) : "?");
  }
  sexp_gc_release4(ctx);
  return out;
}

static sexp new_context (void) {
  sexp ctx = sexp_make_eval_context(NULL, NULL, NULL, 0, 0);
  sexp_load_standard_env(ctx, NULL, SEXP_SEVEN);
  sexp_load_standard_ports(ctx, NULL, stdin, stdout, stderr, 1);
  return ctx;
}

static void *worker (void *arg) {
  long id = (long)arg;
  unsigned long s = seed0 * 2654435761UL + id * 40503UL + 1;
  char *out;
  sexp ctx;
  s ^= s << 13; s ^= s >> 7; s ^= s << 17;
  usleep(s % 2000);                       /* delays only between API calls, at harness level */
  ctx = new_context();
  s ^= s << 13; s ^= s >> 7; s ^= s << 17;
  usleep(s % 500);
  out = eval_all(ctx, workloads[id % nworkloads]);
  s ^= s << 13; s ^= s >> 7; s ^= s << 17;
  usleep(s % 500);
  sexp_destroy_context(ctx);
  return out;
}

static int read_lines (const char *file, char **lines, int max) {
  FILE *f = fopen(file, "r");
  char *line = NULL; size_t cap = 0; ssize_t n; int k = 0;
  if (!f) { perror(file); exit(2); }
  while ((n = getline(&line, &cap, f)) > 0 && k < max) {
    if (line[n-1] == '\n') line[n-1] = 0;
    if (!line[0]) continue;
    lines[k++] = strdup(line);
  }
  fclose(f);
  return k;
}

int main (int argc, char **argv) {
  if (argc >= 5 && !strcmp(argv[1], "threads")) {
    int n = atoi(argv[2]), i;
    pthread_t th[64];
    if (n > 64) n = 64;
    nworkloads = read_lines(argv[3], workloads, MAXW);
    seed0 = strtoul(argv[4], NULL, 10);
    sexp_scheme_init();
    for (i = 0; i < n; i++) pthread_create(&th[i], NULL, worker, (void*)(long)i);
    for (i = 0; i < n; i++) { void *r; pthread_join(th[i], &r); printf("%d\t%s\n", i, (char*)r); free(r); }
    return 0;
  } else if (argc >= 3 && !strcmp(argv[1], "iso")) {
    static char *lines[4096];
    sexp ctxs[26] = {0};
    int n = read_lines(argv[2], lines, 4096), i;
    sexp_scheme_init();
    for (i = 0; i < n; i++) {
      char *l = lines[i];
      if (l[0] == '!') {
        int c = l[1] - 'A';
        if (c >= 0 && c < 26 && ctxs[c]) { sexp_destroy_context(ctxs[c]); ctxs[c] = NULL; }
        printf("%d\tdestroyed\n", i);
      } else {
        int c = l[0] - 'A';
        char *out;
        if (c < 0 || c >= 26 || l[1] != '\t') { printf("%d\tBAD-LINE\n", i); continue; }
        if (!ctxs[c]) ctxs[c] = new_context();
        out = eval_all(ctxs[c], l + 2);
        printf("%d\t%s\n", i, out);
        free(out);
      }
      fflush(stdout);
    }
    for (i = 0; i < 26; i++) if (ctxs[i]) sexp_destroy_context(ctxs[i]);
    return 0;
  }
  fprintf(stderr, "usage: mtctx threads <n> <workloads> <seed> | mtctx iso <script>\n");
  return 2;
}
