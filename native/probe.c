/* probe.c -- loadable chibi library used by the C05 monitor (DESIGN 2.2 "Monitor code that does not
   need to live in the repo").  (stack-top) returns the evaluation-stack depth the VM published
   before this foreign call; (stack-size) the current length of the stack object;
   (stack-max) the configured SEXP_MAX_STACK_SIZE of the build.
   Load with (load "/abs/path/verif-probe.so") after (import (scheme load)). */
#include <chibi/eval.h>

static sexp probe_stack_top (sexp ctx, sexp self, sexp_sint_t n) {
  return sexp_make_fixnum(sexp_context_top(ctx));
}

static sexp probe_stack_size (sexp ctx, sexp self, sexp_sint_t n) {
  return sexp_make_fixnum(sexp_stack_length(sexp_context_stack(ctx)));
}

static sexp probe_stack_max (sexp ctx, sexp self, sexp_sint_t n) {
  return sexp_make_fixnum(SEXP_MAX_STACK_SIZE);
}

sexp sexp_init_library (sexp ctx, sexp self, sexp_sint_t n, sexp env,
                        const char* version, const sexp_abi_identifier_t abi) {
  if (!(sexp_version_compatible(ctx, version, sexp_version)
        && sexp_abi_compatible(ctx, abi, SEXP_ABI_IDENTIFIER)))
    return SEXP_ABI_ERROR;
  sexp_define_foreign(ctx, env, "stack-top", 0, probe_stack_top);
  sexp_define_foreign(ctx, env, "stack-size", 0, probe_stack_size);
  sexp_define_foreign(ctx, env, "stack-max", 0, probe_stack_max);
  return SEXP_VOID;
}
