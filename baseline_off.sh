#!/bin/sh
# Rebuild /repo/_build with the guard OFF (default flags) and run the pinned ctest baseline.
set -e
cd /repo
cmake -G Ninja -B /repo/_build -DCMAKE_BUILD_TYPE=RelWithDebInfo -DCMAKE_C_FLAGS=-Wno-error >/dev/null
cmake --build /repo/_build >/dev/null
exec ctest --test-dir /repo/_build -j8 --timeout 900
