"""setup_cmd: nothing to install (stdlib Python + the system toolchain); verify the tools exist."""
import shutil
import sys

need = ["gcc", "cmake", "ninja", "rsync", "python3"]
missing = [t for t in need if not shutil.which(t)]
if missing:
    sys.stderr.write("missing tools: %s\n" % missing)
    sys.exit(1)
print("vf setup ok")
