"""The existing test corpus (the ctest entries of CMakeLists.txt) as runnable commands."""
import glob
import os


def tests(build):
    """[(name, args)] for the script- and library tests of the ctest suite (foreign tests excluded)."""
    src = build.src
    res = []
    for t in ("r7rs-tests", "division-tests", "syntax-tests", "unicode-tests"):
        res.append((t, ["tests/%s.scm" % t]))
    res.append(("r5rs-test", ["-xchibi", "tests/r5rs-tests.scm"]))
    libs = []
    for p in glob.glob(os.path.join(src, "lib/srfi/**/test.sld"), recursive=True):
        libs.append(os.path.relpath(p, os.path.join(src, "lib"))[:-4])
    for p in glob.glob(os.path.join(src, "lib/chibi/**/*-test.sld"), recursive=True):
        libs.append(os.path.relpath(p, os.path.join(src, "lib"))[:-4])
    for l in sorted(set(libs)):
        form = " ".join(l.split("/"))
        res.append(("lib_" + l.replace("/", "_"), ["-e", "(import (%s))" % form, "-e", "(run-tests)"]))
    return res
