"""Verdict bookkeeping: violations, known-finding matching, replay files, evidence (DESIGN 2.3-2.6)."""
import json
import os
import sys
import time

VERIF = os.path.dirname(os.path.dirname(os.path.abspath(__file__)))
FINDINGS_DIR = os.path.join(VERIF, "known_findings")


def load_findings(prop=None):
    """Known findings live in known_findings/<property>.json (one file per property, committed,
    never written at run time): {"findings": [{property,id,match,what,witness}], "fixed": [...]}"""
    findings, fixed = [], []
    for name in sorted(os.listdir(FINDINGS_DIR)):
        if not name.endswith(".json") or (prop and name != prop + ".json"):
            continue
        with open(os.path.join(FINDINGS_DIR, name)) as fh:
            data = json.load(fh)
        findings += data.get("findings", [])
        fixed += data.get("fixed", [])
    return findings, fixed


def _match(entry_match, sig):
    for k, v in entry_match.items():
        sv = sig.get(k)
        if isinstance(v, list):
            if sv not in v:
                return False
        elif sv != v:
            return False
    return True


class Report:
    def __init__(self, prop, tier, seed):
        self.prop = prop
        self.tier = tier
        self.seed = seed
        self.t0 = time.time()
        self.evaluations = 0
        self.signatures = set()      # distinct non-trivial case signatures
        self.samples = []
        self.violations = []         # (sig dict, witness dict)
        self.inconclusive = []       # (reason, detail)
        self.extra = {}              # further coverage keys
        self.rule = ""
        self.assumptions = []
        self.min_nontrivial = 2
        self.builds = set()

    # -- recording ---------------------------------------------------------
    def case(self, signature=None, n=1):
        self.evaluations += n
        if signature is not None:
            self.signatures.add(signature)

    def sample(self, s, limit=12):
        if len(self.samples) < limit:
            self.samples.append(s)

    def violation(self, sig, witness):
        """sig: dict of stable fields (matched against known_findings.json);
        witness: anything JSON-serialisable that lets a reader reproduce the case."""
        self.violations.append((dict(sig), witness))

    def inconc(self, reason, detail=None):
        self.inconclusive.append((reason, detail))

    def count(self, key, n=1):
        self.extra[key] = self.extra.get(key, 0) + n

    def maxi(self, key, v):
        self.extra[key] = max(self.extra.get(key, v), v)

    # -- finishing ---------------------------------------------------------
    def finish(self):
        findings, _fixed = load_findings(self.prop)
        mine = [f for f in findings if f["property"] == self.prop]
        known_hits = {}
        unknown = []
        for sig, wit in self.violations:
            hit = None
            for f in mine:
                if _match(f["match"], sig):
                    hit = f
                    break
            if hit is not None:
                known_hits.setdefault(hit["id"], [hit, 0, wit])
                known_hits[hit["id"]][1] += 1
            else:
                unknown.append((sig, wit))
        for fid, (f, n, wit) in sorted(known_hits.items()):
            print("KNOWN-FINDING: property=%s %s [%s; %d occurrence(s) this run]" % (self.prop, f["what"], fid, n))
        # replay files for unknown violations, grouped by signature
        rdir = os.path.join(VERIF, "replay", self.prop)
        seen = {}
        for sig, wit in unknown:
            key = json.dumps(sig, sort_keys=True)
            seen.setdefault(key, []).append(wit)
        paths = []
        if seen:
            os.makedirs(rdir, exist_ok=True)
        MAXFILES = 40       # a badly broken tree yields hundreds of signatures: keep the first 40 as files
        for i, (key, wits) in enumerate(sorted(seen.items())):
            if i >= MAXFILES:
                print("VIOLATION property=%s replay=%s (and %d more distinct signatures, not written out)"
                      % (self.prop, paths[-1], len(seen) - MAXFILES))
                break
            path = os.path.join(rdir, "%s-%s-seed%d-%d.json" % (self.prop, self.tier, self.seed, i))
            with open(path, "w") as fh:
                json.dump({"property": self.prop, "tier": self.tier, "seed": self.seed,
                           "signature": json.loads(key), "occurrences": len(wits),
                           "witnesses": wits[:5]}, fh, indent=1, default=str)
            paths.append(path)
            print("VIOLATION property=%s replay=%s" % (self.prop, path))
            sys.stderr.write("  signature: %s\n  first witness: %s\n" % (key, json.dumps(wits[0], default=str)[:700]))
        nontrivial = len(self.signatures)
        harness_fail = None
        if self.evaluations < 1 or nontrivial < self.min_nontrivial:
            harness_fail = "too little observed: evaluations=%d distinct_nontrivial=%d" % (self.evaluations, nontrivial)
        cov = {
            "evaluations": self.evaluations,
            "distinct_nontrivial": nontrivial,
            "rule": self.rule,
            "samples": self.samples if self.samples else ["(none recorded)"],
            "inconclusive": len(self.inconclusive),
            "inconclusive_reasons": _hist([r for r, _ in self.inconclusive]),
            "known_findings_matched": {fid: n for fid, (f, n, w) in known_hits.items()},
            "builds": sorted(self.builds),
        }
        cov.update(self.extra)
        ev = {
            "property_id": self.prop,
            "tier": self.tier,
            "seed": self.seed,
            "level": "exploration",
            "coverage": cov,
            "assumptions": self.assumptions,
            "wall_s": round(time.time() - self.t0, 2),
            "violations": len(unknown),
        }
        # evidence/ describes /repo itself; a run against another tree (selftests, trial fixes) writes elsewhere
        other = os.environ.get("VERIF_REPO") and os.path.realpath(os.environ["VERIF_REPO"]) != "/repo"
        edir = os.path.join(VERIF, "evidence-other-trees" if other else "evidence")
        os.makedirs(edir, exist_ok=True)
        with open(os.path.join(edir, self.prop + ".json"), "w") as fh:
            json.dump(ev, fh, indent=1, default=str)
        print("%s %s seed=%d: evaluations=%d distinct_nontrivial=%d violations=%d known=%d inconclusive=%d wall=%.1fs"
              % (self.prop, self.tier, self.seed, self.evaluations, nontrivial, len(unknown),
                 sum(n for _, n, _ in known_hits.values()), len(self.inconclusive), time.time() - self.t0))
        if unknown:
            return 1
        if harness_fail:
            sys.stderr.write("HARNESS: " + harness_fail + "\n")
            return 2
        return 0


def _hist(xs):
    d = {}
    for x in xs:
        d[x] = d.get(x, 0) + 1
    return d
