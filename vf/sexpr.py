"""Small S-expression reader/printer for observation lines (DESIGN 2.4).

Parsed representation: int / Fraction / float -> Python numbers; "str" -> Str (subclass of str);
symbols -> Sym; lists -> Python lists; (a . b) -> Dotted; #(...) -> Vec; #t/#f -> bool; #\\x -> Char.
"""
from fractions import Fraction
import re


class Sym(str):
    def __repr__(self):
        return "Sym(%s)" % str.__repr__(self)


class Str(str):
    def __repr__(self):
        return "Str(%s)" % str.__repr__(self)


class Char(int):
    def __repr__(self):
        return "Char(%d)" % int(self)


class Vec(list):
    def __repr__(self):
        return "Vec(%s)" % list.__repr__(self)


class Dotted:
    def __init__(self, items, tail):
        self.items = items
        self.tail = tail

    def __eq__(self, o):
        return isinstance(o, Dotted) and self.items == o.items and self.tail == o.tail

    def __repr__(self):
        return "Dotted(%r, %r)" % (self.items, self.tail)


class ParseError(Exception):
    pass


_DELIM = set(" \t\n\r()\";")
_INT = re.compile(r"^[+-]?\d+$")
_RAT = re.compile(r"^[+-]?\d+/\d+$")
_FLT = re.compile(r"^[+-]?(\d+\.?\d*|\.\d+)([eE][+-]?\d+)?$")
_NAMED = {"space": 32, "newline": 10, "tab": 9, "null": 0, "nul": 0, "alarm": 7, "backspace": 8, "delete": 127,
          "escape": 27, "return": 13, "altmode": 27, "rubout": 127, "linefeed": 10}


def parse_all(text):
    pos = 0
    out = []
    n = len(text)
    while True:
        pos = _skip(text, pos)
        if pos >= n:
            return out
        v, pos = _parse(text, pos)
        out.append(v)


def parse(text):
    vs = parse_all(text)
    if len(vs) != 1:
        raise ParseError("expected one datum, got %d in %r" % (len(vs), text[:80]))
    return vs[0]


def _skip(s, i):
    n = len(s)
    while i < n:
        c = s[i]
        if c in " \t\n\r":
            i += 1
        elif c == ";":
            while i < n and s[i] != "\n":
                i += 1
        else:
            break
    return i


def _parse(s, i):
    n = len(s)
    c = s[i]
    if c == "(":
        items = []
        i += 1
        while True:
            i = _skip(s, i)
            if i >= n:
                raise ParseError("unterminated list")
            if s[i] == ")":
                return items, i + 1
            if s[i] == "." and i + 1 < n and s[i + 1] in _DELIM:
                tail, i = _parse(s, _skip(s, i + 1))
                i = _skip(s, i)
                if i >= n or s[i] != ")":
                    raise ParseError("bad dotted list")
                return Dotted(items, tail), i + 1
            v, i = _parse(s, i)
            items.append(v)
    if c == ")":
        raise ParseError("unexpected )")
    if c == '"':
        i += 1
        buf = []
        while True:
            if i >= n:
                raise ParseError("unterminated string")
            c = s[i]
            if c == '"':
                return Str("".join(buf)), i + 1
            if c == "\\":
                i += 1
                c = s[i]
                if c == "n":
                    buf.append("\n")
                elif c == "t":
                    buf.append("\t")
                elif c == "r":
                    buf.append("\r")
                elif c == "a":
                    buf.append("\a")
                elif c == "b":
                    buf.append("\b")
                elif c == "x":
                    j = s.index(";", i)
                    buf.append(chr(int(s[i + 1:j], 16)))
                    i = j
                elif c == "\n":
                    i += 1
                    while i < n and s[i] in " \t":
                        i += 1
                    continue
                else:
                    buf.append(c)
                i += 1
            else:
                buf.append(c)
                i += 1
    if c == "'":
        v, i = _parse(s, _skip(s, i + 1))
        return [Sym("quote"), v], i
    if c == "#":
        if s.startswith("#(", i):
            v, i = _parse(s, i + 1)
            return Vec(v), i
        if s.startswith("#u8(", i):
            v, i = _parse(s, i + 3)
            return [Sym("#u8")] + v, i
        if s.startswith("#\\", i):
            j = i + 3
            while j < n and s[j] not in _DELIM:
                j += 1
            name = s[i + 2:j]
            if len(name) == 1:
                return Char(ord(name)), j
            if name in _NAMED:
                return Char(_NAMED[name]), j
            if name[0] == "x" and len(name) > 1:
                try:
                    return Char(int(name[1:], 16)), j
                except ValueError:
                    pass
            # a single non-delimiter char followed directly by delimiters
            return Char(ord(name[0])), i + 3
    j = i
    if c == "|":
        j = s.index("|", i + 1) + 1
        return Sym(s[i + 1:j - 1]), j
    while j < n and s[j] not in _DELIM:
        j += 1
    tok = s[i:j]
    if tok == "#t" or tok == "#true":
        return True, j
    if tok == "#f" or tok == "#false":
        return False, j
    if _INT.match(tok):
        return int(tok), j
    if _RAT.match(tok):
        a, b = tok.split("/")
        return Fraction(int(a), int(b)), j
    if _FLT.match(tok):
        return float(tok), j
    if tok in ("+inf.0", "-inf.0", "+nan.0", "-nan.0"):
        return float(tok.replace(".0", "")), j
    return Sym(tok), j


def scm_str(s):
    """Scheme string literal for a Python str (ASCII-safe, every non-printable escaped)."""
    out = ['"']
    for ch in s:
        o = ord(ch)
        if ch == '"' or ch == "\\":
            out.append("\\" + ch)
        elif 32 <= o < 127:
            out.append(ch)
        else:
            out.append("\\x%x;" % o)
    out.append('"')
    return "".join(out)


def to_scm(v):
    """Python value -> Scheme source text (quote it yourself)."""
    if v is True:
        return "#t"
    if v is False:
        return "#f"
    if isinstance(v, Char):
        return "#\\x%x" % int(v)
    if isinstance(v, Sym):
        return str(v)
    if isinstance(v, str):
        return scm_str(v)
    if isinstance(v, int):
        return str(v)
    if isinstance(v, Fraction):
        return "%d/%d" % (v.numerator, v.denominator) if v.denominator != 1 else str(v.numerator)
    if isinstance(v, float):
        if v != v:
            return "+nan.0"
        if v in (float("inf"), float("-inf")):
            return "+inf.0" if v > 0 else "-inf.0"
        return repr(v)
    if isinstance(v, Vec):
        return "#(" + " ".join(to_scm(x) for x in v) + ")"
    if isinstance(v, Dotted):
        return "(" + " ".join(to_scm(x) for x in v.items) + " . " + to_scm(v.tail) + ")"
    if isinstance(v, (list, tuple)):
        return "(" + " ".join(to_scm(x) for x in v) + ")"
    raise TypeError("cannot print %r" % (v,))
