"""Regenerates /verif/MANIFEST.json from the table below (python3 -m vf.manifest)."""
import json
import os

VERIF = os.path.dirname(os.path.dirname(os.path.abspath(__file__)))

# property id -> (technique, level text, level note, design ref)
CHECKS = {
}

PENDING_REASON = "check not built yet in this revision of /verif (see DESIGN.md section 3 for the planned monitor)"


def main():
    props = [json.loads(l) for l in open(os.path.join(VERIF, "properties.jsonl"))]
    hooks = json.load(open(os.path.join(VERIF, "hooks.json")))
    checks = []
    na = []
    for p in props:
        pid = p["id"]
        if pid in CHECKS:
            tech, text, note, ref = CHECKS[pid]
            checks.append({
                "property_id": pid,
                "quick_cmd": "./check %s quick" % pid,
                "thorough_cmd": "./check %s thorough" % pid,
                "evidence_file": "evidence/%s.json" % pid,
                "replay_cmd_template": "./check %s --replay {path}" % pid,
                "engine": "vf",
                "level_claimed": {"category": "exploration", "text": text, "design_ref": ref},
                "level_note": note,
                "technique": tech,
            })
        else:
            na.append({"property_id": pid, "reason": PENDING_REASON})
    m = {
        "version": 1,
        "setup_cmd": "python3 -m vf.setup",
        "hooks": hooks,
        "engines": [{"name": "vf", "path": "vf/", "serves_properties": sorted(CHECKS),
                     "kind_free_text": "runtime monitoring: sanitizer builds of the working tree, guarded hooks in the "
                                       "collector/VM (forced GC, heap checker, slice injection), reference-model "
                                       "monitors in Python"}],
        "checks": checks,
        "not_applicable": na,
        "notes": "All checks rebuild the interpreter from /repo's working tree (variant builds cached by tree hash "
                 "under /tmp/chibi-verif-cache, disposable). Exit 0 held / 1 VIOLATION / 2 harness failure. "
                 "Known findings: known_findings.json. Design: DESIGN.md.",
    }
    with open(os.path.join(VERIF, "MANIFEST.json"), "w") as fh:
        json.dump(m, fh, indent=1)
    print("MANIFEST.json: %d checks, %d not_applicable" % (len(checks), len(na)))


if __name__ == "__main__":
    main()
