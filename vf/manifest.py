"""Regenerates /verif/MANIFEST.json from the table below (python3 -m vf.manifest)."""
import json
import os

VERIF = os.path.dirname(os.path.dirname(os.path.abspath(__file__)))

# property id -> (technique, level text, level note, design ref)
CHECKS = {
    "C01": ("AddressSanitizer with red zones inside the Scheme heap (allocator hook) + UBSan subset; C-API item evaluator with a same-context probe",
            "Runtime monitoring on the sanitized build: every name exported by the R7RS-small libraries and every VM primitive is "
            "applied to 0..7 arguments from a pool of 62 hostile values, plus boundary index tuples for ~60 indexed operations, "
            "reader inputs (valid, grammar-aware mutations, raw bytes; read/load/eval) and malformed core/derived forms. Each item "
            "is evaluated through the embedding API with no Scheme handler: it must end in a value or an error object; any "
            "sanitizer report, signal or heap-checker report is a violation; after every error a fixed probe program must print "
            "in the same context what it prints in a fresh one. Further families: interrupts delivered to threads under "
            "randomised time slices; every place where C code calls back into Scheme x six ways of leaving the callback (raise, "
            "error, call/cc escape, dynamic-wind, uncaught, re-entry after the C function returned) on the plain and the ASan "
            "build; deep data built by loops; an item that ignores the interpreter's interrupt flag for 30 s when run alone is a "
            "hang (signature carries the C functions it was stuck in).",
            "Red zones see overruns of up to 32 bytes past an object and uses of swept memory, not intra-object overflow or jumps "
            "over the pad. Inputs are sampled (all single arguments, sampled tuples). Heap limit 256 MB: out-of-memory errors are "
            "accepted outcomes; watchdog expiry is inconclusive. After primitives that replace interpreter state by design the probe "
            "is not judged. The ASan harness runs with a 512 MB C stack (ASan frames are larger), so C-stack exhaustion by deep "
            "nesting is judged on the unsanitized build only.",
            "DESIGN.md section 3 C01"),
    "C03": ("differential execution against an independent definitional interpreter (Python, written from R7RS 4/5.3/7.3), both operand orders",
            "Runtime monitoring by model comparison: every generated closed, terminating program is compiled and run by chibi inside "
            "one top-level form and its log trace, final value or error class is compared with the interpreter's. Quick: all 864 "
            "capture-pattern combinations to closure depth 3 (x3 bystander layouts), 1651 call-protocol/derived-form programs (0..8 "
            "fixed+rest x argument counts x call routes, apply with 0..300 arguments, case/do/quasiquote/values edges, every use "
            "position of a rest parameter), 8000 typed random programs; thorough: depth 4 and 200 000 random programs.",
            "Trusted: the interpreter c03_ref.py for the generated subset, the sexpr reader. Programs whose outcome R7RS does not "
            "prescribe (unspecified values used, order-sensitive, uninitialised letrec variables) are dropped and counted: each "
            "program is interpreted under both operand orders and dropped unless the outcome is order-independent.",
            "DESIGN.md section 3 C03"),
    "C08": ("constructor-built data written by both writers; W decided by an independent Python reader / float(), R on a reader-independent dump, X both readers on the same texts",
            "Runtime monitoring: flonums built from bits (all 2^16 half-precision patterns widened, 2^e +- 1 ulp, subnormals, "
            "formatting switch points, random bits), bignums from limbs, strings/symbols/chars from code points, trees to depth 6 and "
            "labelled graphs are written by the native and the (scheme write) writers; (W) the text denotes the datum, decided in "
            "Python; (R) reading the writer's own text gives the datum back (bit patterns, canonical graph labelling); (X) the native "
            "reader and (scheme read) agree on ~230 named spellings and malformed probes in 5 contexts; every scalar value swept inside chibi.",
            "(X) claims agreement of the readers on the first datum of a text, not correctness on foreign texts. Random doubles, trees "
            "and graphs are sampled. Known finding: the native reader is not correctly rounded (writer-faithful texts read back 1 ulp off).",
            "DESIGN.md section 3 C08"),
    "C09": ("cross-build differential: identical program files on default vs SEXP_USE_SIMPLIFY=0 and default vs SEXP_USE_CUSTOM_LONG_LONGS=1",
            "Runtime monitoring by build-vs-build comparison: a violation is a textual difference in trace/value/error between two builds "
            "of the same tree. ~10.9 k programs aimed at each simplify.c transformation (constant folds over an operand lattice incl. "
            "overflowing / dividing by zero / ill-typed in 13 contexts, let-constant and constant-test templates, statement sequences, "
            "C03's capture patterns and protocols with constants) on plain and nosimp; 20 000 C04 + 20 000 C17 arithmetic cases on "
            "plain and cll. The C03 interpreter / Python integers only label which side is wrong.",
            "Only R7RS-defined programs are compared; differences confined to unspecified values are ignored. Known C04/C17 model "
            "failures common to both builds are not C09 matters.",
            "DESIGN.md section 3 C09"),
    "C12": ("model-based differential testing of string-operation histories against a code-point-array model, observation after every step; scalar-value sweep; ASan replay",
            "Runtime monitoring: seeded histories (<= 40 steps, three strings mixing 1/2/3/4-byte characters, ~150 operation variants "
            "incl. string-set! with every width change, copy! with overlap, ports across buffer boundaries, cursors, SRFI 130) are "
            "executed one per top-level form; after every step contents (code points), length and UTF-8 bytes of all three strings "
            "are compared with the model; every scalar value goes through char->string->utf8->string->char with a UTF-8 byte hash "
            "checked against Python's codec; a slice of the histories is replayed on the ASan red-zone build.",
            "'All histories' is sampled. Error behaviour (out-of-range indexes, mutation of literals) is left to C01. Only the first "
            "divergent step of a history is judged.",
            "DESIGN.md section 3 C12"),
    "C04": ("reference-model differential: Python int/Fraction oracle, operand-preservation and canonical-form observation",
            "Runtime monitoring by model-based differential testing: 59 exact operations over a boundary lattice (fixnum limits, "
            "2^k+-1 to k=400, all-ones/zero words), random operands to 4000 bits, crafted quotient-estimate / split / fixnum-border "
            "operands and ratios with parts at +-2^62, each operand built by a random computation route; every case prints result, "
            "canonical-form checks (fixnum?, ratio parts, eqv? to the literal) and the operands after the operation. Heap checker on.",
            "Trusted: Python int/Fraction/isqrt, the observation reader, chibi's write of exact numbers. Nothing is claimed for "
            "operand patterns outside the recorded (op, class, tag) signatures.",
            "DESIGN.md section 3 C04"),
    "C05": ("evaluation-stack depth probe (loadable C library) sampled inside generated tail-context loops; out-of-stack observed at process exit, C API and thread-join!",
            "Runtime monitoring: loop programs composed from the R7RS 3.5 tail contexts (26 contexts x 11 call variants, all ordered "
            "pairs in quick, triples in thorough) record the VM's published stack top at iterations 10, 10^3, 10^5 (10^7 for a "
            "sample); all samples of a loop must be equal. Non-tail controls prove the probe sees growth. Non-tail recursion returns "
            "the right value up to 90% of the measured capacity; beyond the maximum the process ends with the out-of-stack message "
            "(no signal), the embedding caller receives the out-of-stack object and the same context keeps working, also in a green thread.",
            "'Any number of iterations' is restated as equal depth at 10/10^3/10^5/10^7. parameterize/dynamic-wind/guard bodies are "
            "not tail contexts in chibi and are not claimed. Trusted: native/probe.c reads sexp_context_top.",
            "DESIGN.md section 3 C05"),
    "C06": ("reference-model differential: definitional CPS interpreter with the R7RS wind/handler/parameter model computes the expected event trace",
            "Runtime monitoring by model-based differential testing: each control script (one top-level form logging before/after "
            "thunks, handler entries, parameter values, converter calls, returned values) is run by chibi and by the reference "
            "interpreter; any difference in trace or value is a violation. Exhaustive for script trees up to 6 steps (wind depth <= 2, "
            "2 continuations) and small exception trees; above that seeded sampling biased so that >= 40% of random scripts re-enter "
            "an exited extent or jump between cousin extents (measured), coroutine ping-pong, and a separately judged eval family.",
            "Trusted: vf/props/c06_ref.py (the oracle) and the sexpr reader. Not claimed: continuations entering or leaving a "
            "before/after thunk (unspecified by R7RS 6.10), multiple values through continuations.",
            "DESIGN.md section 3 C06"),
    "C07": ("metamorphic renaming test (consistent renaming of user binders must not change the result) plus hand-derived values",
            "Runtime monitoring, metamorphic: 76 macro shapes x {syntax-rules, er, sc, rsc} x {top level, body} written in an abstract "
            "syntax with binder identities; every admissible consistent renaming (targets: fresh names, template temporaries and free "
            "references, literals, core keywords, standard procedures, other binders, temporaries of 22 standard-library macros) must "
            "print the same value as the unrenamed program and the hand-derived value.",
            "Hand-written shape library, not a program grammar; admissibility of a renaming is decided by a lexical-scope check of "
            "the user-written text; top-level binders are renamed only to fresh or template-local names.",
            "DESIGN.md section 3 C07"),
    "C13": ("ThreadSanitizer on a pthread multi-context harness + cross-context isolation script on the ASan build",
            "Runtime monitoring: native/mtctx.c starts 2-16 OS threads, each creating its own root context, loading the standard "
            "environment and one of nine library mixes (C-backed libraries included, so dlopen + library init of the same .so run "
            "concurrently), running a workload with collections and destroying the context, under ThreadSanitizer, repeated with "
            "different start delays; every thread's result must equal the single-thread result and no race report may have a stack "
            "in interpreter/library code. A 33-line script interleaves four contexts in one OS thread on the ASan build: globals, "
            "record types, parameters, symbols, hash tables of one context are not observable in another; destroying one leaves the others intact.",
            "ThreadSanitizer sees only the interleavings the OS produced while it watched (reports are de-duplicated by stack pair). "
            "sexp_scheme_init() is called once on the main thread as the manual requires.",
            "DESIGN.md section 3 C13"),
    "C14": ("model-based differential: Python set-algebra model of import sets over generated library graphs, probed name by name through a C-API harness",
            "Runtime monitoring by model-based differential testing: generated library graphs (<= 6 libraries, renaming and alias "
            "exports, DAG imports with modifiers, re-exports, macros reaching private procedures/macros/state, a shared counter "
            "library); for each valid only/except/rename/prefix/drop-prefix composition (depth <= 4) native/envprobe.c builds the "
            "environment and probes every name in play by C-level eval with no Scheme handler; the model decides bound/unbound, whose "
            "binding, macro reachability of private helpers, once-only load markers and shared state; re-checked through program files and -e.",
            "Only import sets valid under R7RS are generated; mutation of imports, cyclic imports and export-all are not exercised.",
            "DESIGN.md section 3 C14"),
    "C15": ("Python reference model (three-valued structural/numeric equality, bisimulation for cyclic data, dict keyed by canonical form) against value groups and hash-table histories",
            "Runtime monitoring by model-based differential testing: groups of 4-8 members holding the same abstract value by "
            "different computation routes (plus near misses, wrapped 0-3 levels deep) print the full matrices of equal? (core and "
            "(scheme base)) and eqv?, and hash / SRFI 128 default-hash / string-hash / string-ci-hash; reflexivity, symmetry, "
            "transitivity and hash coherence are checked on the observed matrices; cyclic and very deep data check termination; "
            "60-500-operation histories on SRFI 69 and SRFI 125 tables (eq?/eqv?/equal?/string=?/string-ci=?/custom) are compared "
            "step by step with a dict model, key pools force resizes and collisions, copies must be independent.",
            "eqv? on NaN/constants/empty aggregates and equal? on distinct records are unspecified by R7RS and only checked for the "
            "equivalence laws; termination is a 60 s watchdog plus a solo re-run; custom hash/equality procedures never raise.",
            "DESIGN.md section 3 C15"),
    "C18": ("Python models (stable sorted; list/set/Counter/dict/deque) against generated sort inputs and per-library operation histories with a checksum of every live object after each step",
            "Runtime monitoring by model-based differential testing: SRFI 95 and SRFI 132 sorts and merges on every length 0-40 and "
            "selected lengths to 2000 x six shapes, tagged elements exposing stability, Scheme and primitive orderings; operation "
            "histories (<= 200 ops over 4 live objects) on SRFI 1, 133, 113, 146, (chibi iset), 101, 117, 134 with the result of every "
            "step and a checksum of every live object compared with the model (persistence of older versions).",
            "Orderings and predicates are consistent and never raise; result orders the SRFI leaves open are compared as sorted "
            "lists; operations known to corrupt state are limited to a third of the histories so the rest stays observed.",
            "DESIGN.md section 3 C18"),
    "C17": ("reference-model differential against Python's infinite two's-complement integers, expected values derived twice",
            "Runtime monitoring by model-based differential testing of every procedure of (srfi 151) and its (srfi 142)/(srfi 33) "
            "aliases on word-pattern operands of 0-6 words in both signs (lengths differing by 0-3 words, shifts and field positions "
            "across multiples of 64); the second derivation (through the bitwise.scm compositions over the seven C primitives) also "
            "attributes each disagreement to a root-cause class.",
            "(srfi 142) bitwise-if and (srfi 33) bitwise-merge are not judged (argument order not decidable from the tree). Known "
            "findings are keyed by root-cause class.",
            "DESIGN.md section 3 C17"),
    "C19": ("differential testing against independent reference codecs (Python stdlib) in three directions + decoder totality on the sanitized build",
            "Runtime monitoring: base64, quoted-printable, URI, JSON, CSV, UTF-8/16/32 and the numeric bytevector/uniform-vector "
            "accessors are compared with Python base64/quopri/urllib/json/csv/struct (chibi-encode judged by the reference decoder "
            "and the grammar, chibi round trip, chibi-decode of reference-encoded data) over class-stratified generators; mutated, "
            "random and crafted inputs are fed to 19 decoders on the hooks build and on the ASan/red-zone build (only crashes, "
            "sanitizer reports and watchdog expiry count there).",
            "Sampled, not exhaustive (lengths to 4096, JSON depth <= 8); for hostile input any value or Scheme error is accepted.",
            "DESIGN.md section 3 C19"),
    "C20": ("differential testing against an independent position-set matcher (no automaton, no preference order)",
            "Runtime monitoring by model-based differential testing: generated SREs (depth <= 5, 6 themes, full SRFI 115 alias set) x "
            "120 subjects each (exhaustive to length 3, sampled to 12, all 1093 strings to length 6 for a subset): regexp-matches / "
            "regexp-matches? / regexp-search existence, and every reported match and submatch span validated as a genuine match of "
            "its sub-expression.",
            "Which of several valid matches is reported is not checked; look-around, backreferences, word/grapheme and the "
            "fold/replace utilities are outside the generated subset; shapes that compile for > 90 s are run as a few fixed cases.",
            "DESIGN.md section 3 C20"),
    "C02": ("forced-collection injection (hook in the allocator) + differential output + heap-reference checker",
            "Runtime monitoring: every existing test program and generated allocation-heavy case files are run under forced "
            "collection schedules (per allocation call path, every-n-th, seeded random, small heaps); the oracle is crash / "
            "sanitizer / heap-checker report / output different from the un-injected run. Held = on the schedules and "
            "programs explored, which the evidence counts (allocation paths seen and forced, collections, references checked).",
            "Trusted: the hook that forces collections and the heap walker (opt/verif-gc.c); frame-pointer call-path hashing; "
            "test programs' pass/fail summaries are deterministic. Schedules are sampled per allocation path, not exhaustive.",
            "DESIGN.md section 3 C02"),
    "C10": ("heap-walk invariant checker after every sweep + conservation of non-free bytes at quiescent points",
            "Runtime monitoring: a guarded checker walks every heap after every sweep (exact tiling, sorted non-overlapping free "
            "list, every traced/weak/saved-local reference is the start of a live object) over generated allocation/drop "
            "histories and the test corpus; recycling is decided on non-free bytes at quiescent points (return to baseline, "
            "bounded by the generator's reachable-bytes bound, no runaway heap growth).",
            "Trusted: the checker and native/vmark.c read the heap structures correctly. 'Arbitrarily many allocations' is "
            "restated as bounded runs; heap size is policy, so recycling is decided on bytes not on growth.",
            "DESIGN.md section 3 C10"),
    "C11": ("time-slice schedule injection at the scheduler entry + deadlock detector + program invariants",
            "Runtime monitoring: correctly synchronised SRFI 18 programs (mutex counter, bounded buffers with unique ids, "
            "ping-pong, join tree, timed waits, thread-local parameters, exceptions through join) run under hundreds of injected "
            "slice sequences (1..Q instructions, plus enumerated first pre-emption offsets); oracle = in-program invariants, one "
            "reference final state, the hook's deadlock detector, crash watch. Threads that call back into the VM from C "
            "(sort comparators) - finishing, escaping, being terminated or interrupted there - run under all quanta with a "
            "step budget (quanta handed out) deciding 'never finishes' in logical steps.",
            "Trusted: the slice hook only shortens quanta the scheduler could produce anyway. Interleavings are sampled (the "
            "evidence reports distinct interleaving hashes); wall-clock never decides, watchdog expiry is inconclusive.",
            "DESIGN.md section 3 C11"),
    "C16": ("reachability model for ephemerons under forced collections + strace-based descriptor lifecycle monitor",
            "Runtime monitoring: ephemeron histories (held / dropped / chained keys, values containing their key) are compared "
            "with a reachability model after 3 scrub+collect rounds, with and without forced-collection injection and the heap "
            "checker; a descriptor-dropping loop under RLIMIT_NOFILE=64 is traced with strace (no EBADF close, no EMFILE "
            "reaching the program, kept ports stay readable, descriptor count returns to base).",
            "'Broken after the next full collection' is restated as 'within 3 scrub+collect rounds'. Trusted: strace output, "
            "/proc/self/fd counting, the key-creation helper leaves no stale strong reference.",
            "DESIGN.md section 3 C16"),
}

PENDING_REASON = "check not built yet in this revision of /verif (see DESIGN.md section 3 for the planned monitor)"


def main():
    props = [json.loads(l) for l in open(os.path.join(VERIF, "properties.jsonl"))]
    hooks = json.load(open(os.path.join(VERIF, "hooks.json")))
    checks = []
    na = []
    for p in props:
        pid = p["id"]
        if pid in CHECKS:
            tech, text, note, ref = CHECKS[pid]
            checks.append({
                "property_id": pid,
                "quick_cmd": "./check %s quick" % pid,
                "thorough_cmd": "./check %s thorough" % pid,
                "evidence_file": "evidence/%s.json" % pid,
                "replay_cmd_template": "./check %s --replay {path}" % pid,
                "engine": "vf",
                "level_claimed": {"category": "exploration", "text": text, "design_ref": ref},
                "level_note": note,
                "technique": tech,
            })
        else:
            na.append({"property_id": pid, "reason": PENDING_REASON})
    m = {
        "version": 1,
        "setup_cmd": "python3 -m vf.setup",
        "hooks": hooks,
        "engines": [{"name": "vf", "path": "vf/", "serves_properties": sorted(k for k in CHECKS if len(k) == 3),
                     "kind_free_text": "runtime monitoring: sanitizer builds of the working tree, guarded hooks in the "
                                       "collector/VM (forced GC, heap checker, slice injection), reference-model "
                                       "monitors in Python"}],
        "checks": checks,
        "not_applicable": na,
        "notes": "All checks rebuild the interpreter from /repo's working tree (variant builds cached by tree hash "
                 "under /tmp/chibi-verif-cache, disposable). Exit 0 held / 1 VIOLATION / 2 harness failure. "
                 "Known findings: known_findings.json. Design: DESIGN.md.",
    }
    with open(os.path.join(VERIF, "MANIFEST.json"), "w") as fh:
        json.dump(m, fh, indent=1)
    print("MANIFEST.json: %d checks, %d not_applicable" % (len(checks), len(na)))


if __name__ == "__main__":
    main()
