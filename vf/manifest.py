"""Regenerates /verif/MANIFEST.json from the table below (python3 -m vf.manifest)."""
import json
import os

VERIF = os.path.dirname(os.path.dirname(os.path.abspath(__file__)))

# property id -> (technique, level text, level note, design ref)
CHECKS = {
    "C02": ("forced-collection injection (hook in the allocator) + differential output + heap-reference checker",
            "Runtime monitoring: every existing test program and generated allocation-heavy case files are run under forced "
            "collection schedules (per allocation call path, every-n-th, seeded random, small heaps); the oracle is crash / "
            "sanitizer / heap-checker report / output different from the un-injected run. Held = on the schedules and "
            "programs explored, which the evidence counts (allocation paths seen and forced, collections, references checked).",
            "Trusted: the hook that forces collections and the heap walker (opt/verif-gc.c); frame-pointer call-path hashing; "
            "test programs' pass/fail summaries are deterministic. Schedules are sampled per allocation path, not exhaustive.",
            "DESIGN.md section 3 C02"),
    "C10": ("heap-walk invariant checker after every sweep + conservation of non-free bytes at quiescent points",
            "Runtime monitoring: a guarded checker walks every heap after every sweep (exact tiling, sorted non-overlapping free "
            "list, every traced/weak/saved-local reference is the start of a live object) over generated allocation/drop "
            "histories and the test corpus; recycling is decided on non-free bytes at quiescent points (return to baseline, "
            "bounded by the generator's reachable-bytes bound, no runaway heap growth).",
            "Trusted: the checker and native/vmark.c read the heap structures correctly. 'Arbitrarily many allocations' is "
            "restated as bounded runs; heap size is policy, so recycling is decided on bytes not on growth.",
            "DESIGN.md section 3 C10"),
    "C11": ("time-slice schedule injection at the scheduler entry + deadlock detector + program invariants",
            "Runtime monitoring: correctly synchronised SRFI 18 programs (mutex counter, bounded buffers with unique ids, "
            "ping-pong, join tree, timed waits, thread-local parameters, exceptions through join) run under hundreds of injected "
            "slice sequences (1..Q instructions, plus enumerated first pre-emption offsets); oracle = in-program invariants, one "
            "reference final state, the hook's deadlock detector, crash watch.",
            "Trusted: the slice hook only shortens quanta the scheduler could produce anyway. Interleavings are sampled (the "
            "evidence reports distinct interleaving hashes); wall-clock never decides, watchdog expiry is inconclusive.",
            "DESIGN.md section 3 C11"),
    "C16": ("reachability model for ephemerons under forced collections + strace-based descriptor lifecycle monitor",
            "Runtime monitoring: ephemeron histories (held / dropped / chained keys, values containing their key) are compared "
            "with a reachability model after 3 scrub+collect rounds, with and without forced-collection injection and the heap "
            "checker; a descriptor-dropping loop under RLIMIT_NOFILE=64 is traced with strace (no EBADF close, no EMFILE "
            "reaching the program, kept ports stay readable, descriptor count returns to base).",
            "'Broken after the next full collection' is restated as 'within 3 scrub+collect rounds'. Trusted: strace output, "
            "/proc/self/fd counting, the key-creation helper leaves no stale strong reference.",
            "DESIGN.md section 3 C16"),
}

PENDING_REASON = "check not built yet in this revision of /verif (see DESIGN.md section 3 for the planned monitor)"


def main():
    props = [json.loads(l) for l in open(os.path.join(VERIF, "properties.jsonl"))]
    hooks = json.load(open(os.path.join(VERIF, "hooks.json")))
    checks = []
    na = []
    for p in props:
        pid = p["id"]
        if pid in CHECKS:
            tech, text, note, ref = CHECKS[pid]
            checks.append({
                "property_id": pid,
                "quick_cmd": "./check %s quick" % pid,
                "thorough_cmd": "./check %s thorough" % pid,
                "evidence_file": "evidence/%s.json" % pid,
                "replay_cmd_template": "./check %s --replay {path}" % pid,
                "engine": "vf",
                "level_claimed": {"category": "exploration", "text": text, "design_ref": ref},
                "level_note": note,
                "technique": tech,
            })
        else:
            na.append({"property_id": pid, "reason": PENDING_REASON})
    m = {
        "version": 1,
        "setup_cmd": "python3 -m vf.setup",
        "hooks": hooks,
        "engines": [{"name": "vf", "path": "vf/", "serves_properties": sorted(CHECKS),
                     "kind_free_text": "runtime monitoring: sanitizer builds of the working tree, guarded hooks in the "
                                       "collector/VM (forced GC, heap checker, slice injection), reference-model "
                                       "monitors in Python"}],
        "checks": checks,
        "not_applicable": na,
        "notes": "All checks rebuild the interpreter from /repo's working tree (variant builds cached by tree hash "
                 "under /tmp/chibi-verif-cache, disposable). Exit 0 held / 1 VIOLATION / 2 harness failure. "
                 "Known findings: known_findings.json. Design: DESIGN.md.",
    }
    with open(os.path.join(VERIF, "MANIFEST.json"), "w") as fh:
        json.dump(m, fh, indent=1)
    print("MANIFEST.json: %d checks, %d not_applicable" % (len(checks), len(na)))


if __name__ == "__main__":
    main()
