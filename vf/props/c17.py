"""C17 -- SRFI 151 bitwise operations are two's-complement exact on all exact integers (DESIGN.md section 3, C17).

Oracle: Python integers are infinite two's complement (& | ^ ~ << >>, int.bit_length, bin().count).
Every case binds its operands a, b, c (literal, or computed by a route that leaves spare leading words / goes
through the parser), applies one operation of (srfi 151) -- or its (srfi 142) / (srfi 33) alias -- and prints
    (result  (eqv? result <expected literal>)  a  b  c)
so that a wrong value, a non-canonical result and a mutated operand are all observable.

Violation signature: {op, a, b, c, mode, operands, tag}
  op        SRFI 151 name; aliases are "142:<name>" / "33:<name>"; n-ary forms carry the argument count ("bitwise-eqv/3")
  a/b/c     class of the *integer* operands (c04.klass: zero, +-fix, +-fixedge, fixmin, fixmax+1, +-big1, +-big2, +-bigN),
            "-" when the position holds an index/count/boolean or is unused
  mode      crash | error | unparsable-output | wrong-result | operand-mutated | not-eqv-to-literal
  operands  intact | a-negated | a-changed ... (state of the operands after the operation)
  tag       operation specific refinement computed by the model from the arguments (shift direction and whether
            the bits shifted out are all zero, index below/beyond the stored words, word-length relation ...)
  cause     id of the first primitive call of the operation's definition that falls into a class where that primitive
            is known to be wrong (S1 S2 C1 L1 B1 A1 I1 X1 X2 E1 R33, see the Trace class), "-" if there is none
"""
import random

from .. import build as B
from .. import cases as C
from ..sexpr import Sym
from . import c04

W = 64
ONES = (1 << W) - 1
FIXMAX, FIXMIN = c04.FIXMAX, c04.FIXMIN
IMPORTS = ("(import (scheme base) (scheme write) (scheme process-context) (srfi 151) "
           "(prefix (srfi 142) s142:) (prefix (srfi 33) s33:))")
PRELUDE = c04.PRELUDE
klass = c04.klass

POS = [0, 1, 2, 7, 30, 31, 32, 33, 61, 62, 63, 64, 65, 66, 95, 96, 126, 127, 128, 129, 130, 190, 191, 192, 193, 255, 256, 257]


def nwords(v):
    """Number of 64-bit words of the magnitude (what chibi stores); 0 for fixnums."""
    if FIXMIN <= v <= FIXMAX:
        return 0
    return (abs(v).bit_length() + W - 1) // W


def rnd_mag(rng, w):
    """Magnitude with exactly w words (w >= 1) from word patterns."""
    r = rng.random()
    if r < 0.2:
        k = rng.randrange(W * (w - 1), W * w)
        v = (1 << k) + rng.choice([-1, 0, 1])
        if v.bit_length() > W * (w - 1) or w == 1:
            return max(v, 1)
    if r < 0.35:
        v = (1 << (W * w)) - 1
        if rng.random() < 0.5:
            v ^= ONES << (W * rng.randrange(0, w))
        if rng.random() < 0.3:
            v ^= 1 << rng.randrange(0, W * w)
        if v >> (W * (w - 1)):
            return v
    if r < 0.5:
        v = 0
        for i in range(w):
            v |= c04.rnd_word(rng, top=(i == w - 1)) << (W * i)
        if v >> (W * (w - 1)):
            return v
    if r < 0.6:
        # low words zero (borrow propagation in the two's-complement conversion, right shifts losing only zeros)
        hi = rng.getrandbits(W) or 1
        return hi << (W * (w - 1))
    v = rng.getrandbits(W * w) | (1 << (W * (w - 1) + rng.randrange(0, W)))
    return v & ((1 << (W * w)) - 1)


def rnd_int(rng, w=None):
    """Random integer; w = number of words (0 = fixnum), default random 0..6."""
    if w is None:
        w = rng.choice([0, 0, 0, 1, 1, 2, 2, 3, 4, 5, 6])
    if w <= 0:
        r = rng.random()
        if r < 0.25:
            v = rng.choice([0, 1, 2, 3, FIXMAX, FIXMAX - 1, 1 << 61, (1 << 61) - 1, 255, 256, (1 << 32) - 1, 1 << 32])
        elif r < 0.5:
            k = rng.randrange(0, 62)
            v = (1 << k) + rng.choice([-1, 0, 1])
        else:
            v = rng.getrandbits(rng.choice([3, 8, 16, 31, 32, 33, 48, 61, 62]))
        v = -v if rng.random() < 0.5 else v
        if rng.random() < 0.04:
            v = rng.choice([FIXMIN, FIXMIN + 1, -1, -2])
        return max(FIXMIN, min(FIXMAX, v))
    v = rnd_mag(rng, w)
    if w == 1 and v <= FIXMAX:
        v |= 1 << 62 if rng.random() < 0.5 else 1 << 63
    if rng.random() < 0.1:
        return rng.choice([v, -v, FIXMAX + 1, -(FIXMAX + 1) - 1])
    return -v if rng.random() < 0.55 else v


def rnd_pair(rng):
    """Two integers whose word lengths differ by 0..3 (either way), all four sign combinations."""
    wa = rng.choice([0, 1, 1, 2, 2, 3, 4, 5])
    wb = max(0, wa + rng.choice([-3, -2, -1, -1, 0, 0, 0, 1, 1, 2, 3]))
    a, b = rnd_int(rng, wa), rnd_int(rng, wb)
    r = rng.random()
    if r < 0.05:
        b = a
    elif r < 0.1:
        b = ~a
    elif r < 0.15:
        b = -a
    elif r < 0.2 and rng.random() < 0.5:
        a, b = rng.choice(c04.LAT), rng.choice(c04.LAT)
    return a, b


def rnd_pos(rng, v):
    """Bit index: word-boundary positions, or relative to the length of v."""
    r = rng.random()
    L = abs(v).bit_length()
    if r < 0.45:
        return rng.choice(POS)
    if r < 0.75:
        return max(0, L + rng.choice([-65, -64, -63, -2, -1, 0, 1, 2, 63, 64, 65, 130]))
    return rng.randrange(0, L + 70)


def popcount(v):
    return bin(v if v >= 0 else ~v).count("1")


def ilen(v):
    return v.bit_length() if v >= 0 else (~v).bit_length()


def mask(n):
    return (1 << n) - 1


def sb(x):
    return True if x else False


def shift(v, s):
    return v << s if s >= 0 else v >> (-s)


def field_tag(v, s, e):
    L = nwords(v) * W if nwords(v) else 63
    t = "field<=stored-words" if e <= L else ("field-starts-beyond-stored-words" if s >= L else "field-crosses-stored-words")
    return t


def index_tag(v, k):
    """bit index relative to the words chibi stores for v (fixnums: one machine word)."""
    nw = nwords(v)
    if nw == 0:
        return "index<64" if k < 64 else "index>=64"
    return "index<stored-words" if k < nw * W else "index>=stored-words"


def shift_tag(v, s):
    if s == 0:
        return "shift0"
    if s > 0:
        return "left" + (",multiple-of-64" if s % 64 == 0 else "")
    n = -s
    low = abs(v) & mask(n)
    t = "right," + ("bits-out-all-zero" if low == 0 else "bits-out-nonzero")
    if n >= abs(v).bit_length():
        t += ",all-bits-out"
    return t


def len_tag(a, b):
    wa, wb = nwords(a), nwords(b)
    if wa == 0 or wb == 0:
        return "fixnum-operand" if (wa or wb) else "fixnums"
    return "len(a)=len(b)" if wa == wb else ("len(a)>len(b)" if wa > wb else "len(a)<len(b)")


def blist(bs):
    return "(list %s)" % " ".join("#t" if x else "#f" for x in bs)


# ---------------------------------------------------------------------------------------------------------
# Root-cause attribution.  Every procedure of (srfi 151) is a composition (lib/srfi/151/bitwise.scm) of seven C
# primitives (lib/srfi/151/bit.c): bit-and bit-ior bit-xor arithmetic-shift bit-count integer-length bit-set?.
# The Trace below mirrors those compositions on true values (this is also a second, independent derivation of the
# expected result: the generators assert that both agree) and notes the *first* primitive call whose arguments fall
# into a class in which that primitive is known to misbehave.  The id of that class is the `cause` field of a
# violation signature ("-" when no primitive call of the case is in a suspect class, so any disagreement there is
# new).  The classes are stated from the root causes read in bit.c:
#   S1  arithmetic-shift right of a negative bignum when every bit shifted out is zero
#       (the magnitude is shifted and 1 is added unconditionally)
#   S2  arithmetic-shift right of a negative fixnum by >= 64 bits (returns 0, not -1)
#   C1  bit-count of a negative bignum (counts the ones of the magnitude)
#   L1  integer-length of a negative bignum that is -(2^k) (length of the magnitude, one too many)
#   B1  bit-set? on a negative bignum above its lowest set bit (tests the bit of the magnitude)
#   A1  bit-and where the sign of the result is inferred from the top stored bit of the and-ed words instead of from
#       the operand signs: both negative and the two's complement of one has a clear top bit (magnitude above
#       2^(64n-1)), or one negative and the other a bignum whose magnitude has its top bit set
#   I1  bit-ior with a negative bignum operand whose two's complement has a clear top bit (same inference)
#   X1  bit-xor of two non-negative bignums (only the "x shorter than y" branch can bite: it complements y for x)
#   X2  bit-xor of two bignums, one of them negative (X1, plus no sign extension of a shorter negative operand)
#   O1  bit-and / bit-ior / bit-xor whose result is -(2^(64k)), k >= the word count of both operands (the carry out
#       of the top word is dropped when the result is converted back from two's complement)
#   E1  bitwise-eqv with other than two arguments (defined as the complement of the n-ary xor)
#   R33 (srfi 33) test-bit-field? / clear-bit-field are renames of procedures with (n start end) parameters
# ---------------------------------------------------------------------------------------------------------

def is_big(v):
    return not (FIXMIN <= v <= FIXMAX)


def top_set_pos(v):
    """non-negative bignum whose top stored word has its top bit set when no spare word is allocated"""
    return v >= 0 and is_big(v) and v.bit_length() % W == 0


def top_clear_neg(v):
    """negative bignum whose two's complement, taken over just the words of its magnitude, has a clear top bit
    (the magnitude is above 2^(64n-1)): the sign is then only visible through sexp_bignum_sign"""
    if v >= 0 or not is_big(v):
        return False
    m = -v
    n = (m.bit_length() + W - 1) // W
    return m > (1 << (W * n - 1))


def active_causes():
    """Cause ids that still have an entry in known_findings/C17.json.  Only those are noted: once a defect is repaired
    and its entry removed, a case that meets the repaired class first and a still-open class later is attributed to
    the open one (and a case that meets only repaired classes gets cause "-", so any disagreement there is new)."""
    from .. import report
    out = set()
    findings, _ = report.load_findings("C17")
    for f in findings:
        v = f.get("match", {}).get("cause")
        for c in (v if isinstance(v, list) else [v]):
            if c:
                out.add(c)
    return out


ACTIVE = active_causes()


class Trace:
    def __init__(self):
        self.cause = None
        self.calls = 0

    def note(self, c):
        if self.cause is None and c in ACTIVE:
            self.cause = c

    # -- the seven primitives ---------------------------------------------------------------------------
    def band(self, x, y):
        self.calls += 1
        if x < 0 and y < 0:
            if top_clear_neg(x) or top_clear_neg(y):
                self.note("A1")
        elif x < 0 or y < 0:
            p = y if x < 0 else x
            if top_set_pos(p):
                self.note("A1")
        self.carry_lost(x, y, x & y)
        return x & y

    def carry_lost(self, x, y, r):
        """O1: the result is -(2^(64k)) with k >= the word counts of both operands: converting the k result words
        (all zero) back from two's complement needs a carry into word k, which sexp_set_twos_complement drops."""
        if r < 0 and is_big(r) and (-r) & (-r - 1) == 0 and ((-r).bit_length() - 1) % W == 0:
            k = ((-r).bit_length() - 1) // W
            if k >= max(nwords(x), nwords(y), 1):
                self.note("O1")

    def bior(self, x, y):
        self.calls += 1
        if top_clear_neg(x) or top_clear_neg(y):
            self.note("I1")
        self.carry_lost(x, y, x | y)
        return x | y

    def bxor(self, x, y):
        self.calls += 1
        if is_big(x) and is_big(y):
            self.note("X2" if (x < 0 or y < 0) else "X1")
        self.carry_lost(x, y, x ^ y)
        return x ^ y

    def shift(self, x, c):
        self.calls += 1
        if c < 0 and x < 0:
            if is_big(x):
                if abs(x) & mask(-c) == 0:
                    self.note("S1")
            elif -c >= 64:
                self.note("S2")
        return shift(x, c)

    def count(self, x):
        self.calls += 1
        if x < 0 and is_big(x):
            self.note("C1")
        return popcount(x)

    def ilen(self, x):
        self.calls += 1
        if x < 0 and is_big(x) and (-x) & (-x - 1) == 0:
            self.note("L1")
        return ilen(x)

    def bitset(self, k, x):
        self.calls += 1
        if x < 0 and is_big(x) and k > ((-x) & x).bit_length() - 1:
            self.note("B1")
        return sb((x >> k) & 1)

    # -- bitwise.scm ------------------------------------------------------------------------------------
    @staticmethod
    def bnot(i):
        return -1 - i

    def nary(self, prim, default, args):
        if not args:
            return default
        v = args[0]
        for x in args[1:]:
            v = prim(v, x)
        return v

    def and_(self, *a):
        return self.nary(self.band, -1, a)

    def ior_(self, *a):
        return self.nary(self.bior, 0, a)

    def xor_(self, *a):
        return self.nary(self.bxor, 0, a)

    def eqv_(self, *a):
        # specified: the associative extension of the binary eqv, identity -1.  chibi's current definition (the
        # complement of the n-ary xor) agrees with it for two arguments only: E1
        if len(a) != 2:
            self.note("E1")
        return self.nary(lambda i, j: self.bnot(self.bxor(i, j)), -1, a)

    def nand(self, *a):
        return self.bnot(self.nary(self.band, 0, a))

    def nor(self, *a):
        return self.bnot(self.nary(self.bior, -1, a))

    def andc1(self, i, j):
        return self.band(self.bnot(i), j)

    def andc2(self, i, j):
        return self.band(i, self.bnot(j))

    def orc1(self, i, j):
        return self.bior(self.bnot(i), j)

    def orc2(self, i, j):
        return self.bior(i, self.bnot(j))

    def any_bit_set(self, t, i):
        return sb(self.and_(t, i) != 0)

    def every_bit_set(self, t, i):
        return sb(t == self.and_(t, i))

    def first_set_bit(self, i):
        if i == 0:
            return -1
        return self.ilen(i - self.band(i, i - 1)) - 1

    def mask(self, n):
        return self.shift(1, n) - 1

    def range(self, s, e):
        return self.shift(self.mask(e - s), s)

    def if_(self, m, a, b):
        # argument evaluation is right to left in chibi: (bit-and (bitwise-not mask) n) is evaluated first
        y = self.band(self.bnot(m), b)
        x = self.band(m, a)
        return self.bior(x, y)

    def field(self, n, s, e):
        m = self.mask(e - s)
        return self.band(self.shift(n, -s), m)

    def field_any(self, n, s, e):
        m = self.mask(e - s)
        return sb(self.band(self.shift(n, -s), m) != 0)

    def field_every(self, n, s, e):
        lo = self.mask(e - s)
        return sb(self.band(lo, self.shift(n, -s)) == lo)

    def replace_same(self, dst, src, s, e):
        return self.if_(self.range(s, e), src, dst)

    def replace(self, dst, src, s, e):
        return self.replace_same(dst, self.shift(src, s), s, e)

    def copy_bit(self, k, i, b):
        return self.replace(i, 1 if b else 0, k, k + 1)

    def bit_swap(self, k1, k2, i):
        b2 = self.bitset(k2, i)
        b1 = self.bitset(k1, i)
        return self.copy_bit(k2, self.copy_bit(k1, i, b2), b1)

    def field_clear(self, n, s, e):
        return self.replace(n, 0, s, e)

    def field_set(self, n, s, e):
        return self.bior(n, self.range(s, e))

    def rotate(self, n, count, s, e):
        width = e - s
        count = count % width
        m = self.bnot(self.shift(-1, width))
        nn = self.and_(m, self.shift(n, -s))
        lowpart = self.band(self.bnot(self.shift(m, s)), n)
        hi2 = self.shift(nn, count - width)
        hi1 = self.band(m, self.shift(nn, count))
        return self.bior(self.shift(self.bior(hi1, hi2), s), lowpart)

    def bit_reverse(self, n, ln):
        res = 0
        for _ in range(ln):
            res = self.bior(self.shift(res, 1), self.band(n, 1))
            n = self.shift(n, -1)
        return res

    def field_reverse(self, i, s, e):
        rev = self.shift(self.bit_reverse(self.field(i, s, e), e - s), s)
        return self.if_(self.range(s, e), rev, i)

    def bits_to_list(self, n, ln=None):
        if ln is None:
            ln = self.ilen(n)
        out = []
        for _ in range(ln):
            out.append(sb(n & 1))
            n = self.shift(n, -1)
        return out

    def fold_bits(self, i):
        out = []
        while i != 0:
            out.append(sb(i & 1))
            i = self.shift(i, -1)
        return out


# ---------------------------------------------------------------------------------------------------------
# case builders: each returns dict(op, expr, expect, ints=(a,b,c) integer operands or None, tag)
# ---------------------------------------------------------------------------------------------------------

BIN = {
    "bitwise-and": lambda a, b: a & b,
    "bitwise-ior": lambda a, b: a | b,
    "bitwise-xor": lambda a, b: a ^ b,
    "bitwise-eqv": lambda a, b: ~(a ^ b),
    "bitwise-nand": lambda a, b: ~(a & b),
    "bitwise-nor": lambda a, b: ~(a | b),
    "bitwise-andc1": lambda a, b: ~a & b,
    "bitwise-andc2": lambda a, b: a & ~b,
    "bitwise-orc1": lambda a, b: ~a | b,
    "bitwise-orc2": lambda a, b: a | ~b,
}
NARY = {"bitwise-and": (lambda x, y: x & y, -1), "bitwise-ior": (lambda x, y: x | y, 0),
        "bitwise-xor": (lambda x, y: x ^ y, 0), "bitwise-eqv": (lambda x, y: ~(x ^ y), -1)}


class ModelMismatch(Exception):
    pass


def mk(op, expr, expect, a=None, b=None, c=None, tag="-", tr=None, cause=None):
    """tr: function(Trace) -> value, the bitwise.scm composition of the operation on the same arguments."""
    if tr is not None:
        t = Trace()
        v = tr(t)
        if v != expect or type(v) != type(expect):
            raise ModelMismatch("%s: direct model %r, composition model %r" % (expr, expect, v))
        cause = cause or t.cause
    return {"op": op, "expr": expr, "expect": expect, "ints": (a, b, c), "tag": tag, "cause": cause or "-"}


def gen_binary(rng, lib=""):
    a, b = rnd_pair(rng)
    op = rng.choice(list(BIN))
    meth = {"bitwise-and": "and_", "bitwise-ior": "ior_", "bitwise-xor": "xor_", "bitwise-eqv": "eqv_", "bitwise-nand": "nand",
            "bitwise-nor": "nor", "bitwise-andc1": "andc1", "bitwise-andc2": "andc2", "bitwise-orc1": "orc1",
            "bitwise-orc2": "orc2"}[op]
    return mk(lib + op, "(%s%s a b)" % (pfx(lib), op), BIN[op](a, b), a, b, tag=len_tag(a, b),
              tr=lambda t: getattr(t, meth)(a, b))


def pfx(lib):
    return {"": "", "142:": "s142:", "33:": "s33:"}[lib]


def gen_nary(rng, lib=""):
    op = rng.choice(list(NARY))
    f, ident = NARY[op]
    n = rng.choice([0, 1, 3, 3, 3, 4])
    a, b = rnd_pair(rng)
    c = rnd_int(rng)
    args = [a, b, c, a][:n]
    v = ident
    for x in args:
        v = f(v, x)
    names = ["a", "b", "c", "a"][:n]
    meth = {"bitwise-and": "and_", "bitwise-ior": "ior_", "bitwise-xor": "xor_", "bitwise-eqv": "eqv_"}[op]
    return mk("%s%s/%d" % (lib, op, n), "(%s%s %s)" % (pfx(lib), op, " ".join(names)), v,
              a if n >= 1 else None, b if n >= 2 else None, c if n >= 3 else None,
              tr=lambda t: getattr(t, meth)(*args))


def gen_unary(rng, lib=""):
    a = rnd_int(rng)
    op = rng.choice(["bitwise-not", "bit-count", "integer-length", "first-set-bit"])
    if op == "bitwise-not":
        e = ~a
    elif op == "bit-count":
        e = popcount(a)
    elif op == "integer-length":
        e = ilen(a)
    else:
        e = (a & -a).bit_length() - 1 if a else -1
    tag = "-"
    if op == "integer-length" and a < 0:
        tag = "negative-power-of-two" if (-a) & (-a - 1) == 0 else "negative,other"
    if op == "bit-count" and a < 0:
        tag = "negative"
    tr = {"bitwise-not": lambda t: t.bnot(a), "bit-count": lambda t: t.count(a), "integer-length": lambda t: t.ilen(a),
          "first-set-bit": lambda t: t.first_set_bit(a)}[op]
    return mk(lib + op, "(%s%s a)" % (pfx(lib), op), e, a, tag=tag, tr=tr)


def gen_shift(rng, lib=""):
    a = rnd_int(rng)
    L = abs(a).bit_length()
    r = rng.random()
    if r < 0.5:
        s = rng.choice([1, 2, 31, 32, 33, 61, 62, 63, 64, 65, 127, 128, 129, 192, 200, 256])
    elif r < 0.8:
        s = max(1, L + rng.choice([-129, -128, -65, -64, -63, -1, 0, 1, 63, 64, 65, 200]))
    else:
        s = rng.randrange(1, 400)
    if rng.random() < 0.55:
        s = -s
        if rng.random() < 0.4 and a:
            # make the bits shifted out all zero
            a = (a >> (-s)) << (-s) or a
    if rng.random() < 0.03:
        s = 0
    return mk(lib + "arithmetic-shift", "(%sarithmetic-shift a %d)" % (pfx(lib), s), shift(a, s), a, tag=shift_tag(a, s),
              tr=lambda t: t.shift(a, s) if s else a)


def gen_bitset(rng, lib=""):
    a = rnd_int(rng)
    k = rnd_pos(rng, a)
    return mk(lib + "bit-set?", "(%sbit-set? %d a)" % (pfx(lib), k), sb((a >> k) & 1), a, tag=index_tag(a, k),
              tr=lambda t: t.bitset(k, a))


def gen_copybit(rng, lib=""):
    a = rnd_int(rng)
    k = rnd_pos(rng, a)
    bit = rng.random() < 0.5
    e = a | (1 << k) if bit else a & ~(1 << k)
    return mk(lib + "copy-bit", "(%scopy-bit %d a %s)" % (pfx(lib), k, "#t" if bit else "#f"), e, a, tag=index_tag(a, k),
              tr=lambda t: t.copy_bit(k, a, bit))


def gen_bitswap(rng, lib=""):
    a = rnd_int(rng)
    k1, k2 = rnd_pos(rng, a), rnd_pos(rng, a)
    b1, b2 = (a >> k1) & 1, (a >> k2) & 1
    e = a
    if b1 != b2:
        e = a ^ ((1 << k1) | (1 << k2))
    return mk(lib + "bit-swap", "(%sbit-swap %d %d a)" % (pfx(lib), k1, k2), e, a, tag=index_tag(a, max(k1, k2)),
              tr=lambda t: t.bit_swap(k1, k2, a))


def gen_anyevery(rng, lib=""):
    a, b = rnd_pair(rng)
    if rng.random() < 0.3:
        a = a & b if rng.random() < 0.5 else b     # make every-bit-set? true sometimes
    if lib == "33:":
        op = rng.choice(["any-bits-set?", "all-bits-set?"])
        e = sb(a & b) if op == "any-bits-set?" else sb(a & b == a)
    else:
        op = rng.choice(["any-bit-set?", "every-bit-set?"])
        e = sb(a & b) if op == "any-bit-set?" else sb(a & b == a)
    anyp = op.startswith("any")
    return mk(lib + op, "(%s%s a b)" % (pfx(lib), op), e, a, b, tag=len_tag(a, b),
              tr=lambda t: t.any_bit_set(a, b) if anyp else t.every_bit_set(a, b))


def gen_if(rng, lib=""):
    a, b = rnd_pair(rng)
    c = rnd_int(rng)
    return mk("bitwise-if", "(bitwise-if a b c)", (a & b) | (~a & c), a, b, c, tr=lambda t: t.if_(a, b, c))


def rnd_field(rng, v, maxw=None):
    s = rnd_pos(rng, v)
    r = rng.random()
    if r < 0.15:
        e = s
    elif r < 0.55:
        e = s + rng.choice([1, 2, 31, 32, 33, 63, 64, 65, 128])
    else:
        e = s + rng.randrange(1, 200)
    if maxw is not None and e - s > maxw:
        e = s + maxw
    return s, e


def gen_field(rng, lib=""):
    a = rnd_int(rng)
    s, e = rnd_field(rng, a)
    w = e - s
    f = (a >> s) & mask(w)
    op = rng.choice(["bit-field", "bit-field-any?", "bit-field-every?", "bit-field-clear", "bit-field-set"])
    if op == "bit-field":
        x = f
    elif op == "bit-field-any?":
        x = sb(f)
    elif op == "bit-field-every?":
        x = sb(f == mask(w))
    elif op == "bit-field-clear":
        x = a & ~(mask(w) << s)
    else:
        x = a | (mask(w) << s)
    meth = {"bit-field": "field", "bit-field-any?": "field_any", "bit-field-every?": "field_every",
            "bit-field-clear": "field_clear", "bit-field-set": "field_set"}[op]
    return mk(lib + op, "(%s%s a %d %d)" % (pfx(lib), op, s, e), x, a, tag=field_tag(a, s, e),
              tr=lambda t: getattr(t, meth)(a, s, e))


def gen_replace(rng, lib=""):
    a, b = rnd_pair(rng)
    s, e = rnd_field(rng, a)
    w = e - s
    m = mask(w) << s
    if rng.random() < 0.5:
        op = "bit-field-replace"
        x = (a & ~m) | ((b & mask(w)) << s)
    else:
        op = "bit-field-replace-same"
        x = (a & ~m) | (b & m)
    same_ = op.endswith("same")
    return mk(lib + op, "(%s%s a b %d %d)" % (pfx(lib), op, s, e), x, a, b, tag=field_tag(a, s, e),
              tr=lambda t: t.replace_same(a, b, s, e) if same_ else t.replace(a, b, s, e))


def gen_rotate(rng, lib=""):
    a = rnd_int(rng)
    s, e = rnd_field(rng, a, maxw=260)
    if e == s:
        e = s + 1
    w = e - s
    cnt = rng.choice([0, 1, -1, 2, w - 1, w, w + 1, -w, 63, 64, 65, rng.randrange(-300, 300)])
    f = (a >> s) & mask(w)
    k = cnt % w
    rot = ((f << k) | (f >> (w - k))) & mask(w)
    x = (a & ~(mask(w) << s)) | (rot << s)
    return mk(lib + "bit-field-rotate", "(%sbit-field-rotate a %d %d %d)" % (pfx(lib), cnt, s, e), x, a, tag=field_tag(a, s, e),
              tr=lambda t: t.rotate(a, cnt, s, e))


def gen_reverse(rng, lib=""):
    a = rnd_int(rng)
    s, e = rnd_field(rng, a, maxw=200)
    w = e - s
    f = (a >> s) & mask(w)
    rev = int(format(f, "0%db" % w)[::-1], 2) if w else 0
    x = (a & ~(mask(w) << s)) | (rev << s)
    return mk(lib + "bit-field-reverse", "(%sbit-field-reverse a %d %d)" % (pfx(lib), s, e), x, a, tag=field_tag(a, s, e),
              tr=lambda t: t.field_reverse(a, s, e))


def gen_bits(rng, lib=""):
    """bits->list / list->bits / bits->vector / vector->bits / bits (non-negative integers only, as specified)."""
    a = abs(rnd_int(rng, rng.choice([0, 0, 1, 2, 3])))
    L = a.bit_length()
    r = rng.random()
    tolist = "integer->list" if lib == "142:" else "bits->list"
    tovec = "integer->vector" if lib == "142:" else "bits->vector"
    fromlist = "list->integer" if lib == "142:" else "list->bits"
    fromvec = "vector->integer" if lib == "142:" else "vector->bits"
    p = pfx(lib)
    if r < 0.2:
        return mk(lib + tolist, "(%s%s a)" % (p, tolist), [sb((a >> i) & 1) for i in range(L)], a, tr=lambda t: t.bits_to_list(a))
    if r < 0.4:
        n = max(0, L + rng.choice([-70, -64, -1, 0, 1, 64, 70]))
        return mk(lib + tolist + "/len", "(%s%s a %d)" % (p, tolist, n), [sb((a >> i) & 1) for i in range(n)], a,
                  tr=lambda t: t.bits_to_list(a, n))
    if r < 0.5:
        n = max(0, L + rng.choice([-1, 0, 1, 64]))
        return mk(lib + tovec + "/len", "(vector->list (%s%s a %d))" % (p, tovec, n), [sb((a >> i) & 1) for i in range(n)], a,
                  tr=lambda t: t.bits_to_list(a, n))
    bs = [sb((a >> i) & 1) for i in range(L + rng.choice([0, 0, 1, 3]))]
    if r < 0.7:
        return mk(lib + fromlist, "(%s%s %s)" % (p, fromlist, blist(bs)), a, tag="bits:%s" % klass(a))
    if r < 0.85:
        return mk(lib + fromvec, "(%s%s (list->vector %s))" % (p, fromvec, blist(bs)), a, tag="bits:%s" % klass(a))
    bs = bs[:80]
    v = sum(1 << i for i, x in enumerate(bs) if x)
    return mk(lib + "bits", "(%sbits %s)" % (p, " ".join("#t" if x else "#f" for x in bs)), v, tag="bits:%s" % klass(v))


def gen_fold(rng, lib=""):
    a = abs(rnd_int(rng, rng.choice([0, 0, 1, 2, 3])))
    L = a.bit_length()
    r = rng.random()
    p = pfx(lib)
    if r < 0.4:
        # kons is called low bit first, so the accumulated list has the high bit first
        return mk(lib + "bitwise-fold", "(%sbitwise-fold cons '() a)" % p, [sb((a >> i) & 1) for i in reversed(range(L))], a,
                  tr=lambda t: list(reversed(t.fold_bits(a))))
    if r < 0.6:
        return mk(lib + "bitwise-for-each",
                  "(let ((acc '())) (%sbitwise-for-each (lambda (b) (set! acc (cons b acc))) a) acc)" % p,
                  [sb((a >> i) & 1) for i in reversed(range(L))], a, tr=lambda t: list(reversed(t.fold_bits(a))))
    if r < 0.8:
        n = L + rng.choice([0, 1, 5])
        return mk(lib + "make-bitwise-generator",
                  "(let ((g (%smake-bitwise-generator a))) (let lp ((i 0) (acc '())) (if (= i %d) (reverse acc) (lp (+ i 1) (cons (g) acc)))))" % (p, n),
                  [sb((a >> i) & 1) for i in range(n)], a, tr=lambda t: t.bits_to_list(a, n))
    # bitwise-unfold stop? mapper successor seed: rebuild a from its bits
    return mk(lib + "bitwise-unfold",
              "(%sbitwise-unfold (lambda (i) (= i %d)) (lambda (i) (bit-set? i a)) (lambda (i) (+ i 1)) 0)" % (p, L),
              a, a)


def gen_srfi33_field(rng, lib="33:"):
    """SRFI 33 field operations: (size position ...) argument order."""
    a, b = rnd_pair(rng)
    pos, e = rnd_field(rng, a)
    size = e - pos
    m = mask(size) << pos
    op = rng.choice(["extract-bit-field", "test-bit-field?", "clear-bit-field", "replace-bit-field", "copy-bit-field"])
    if op in ("test-bit-field?", "clear-bit-field") and abs(a) >= 4096:
        # cost bound, not an oracle change: chibi currently takes these two as (n start end) (finding R33), so the
        # integer lands in the `end' position and a large one makes it build a mask of that many *bits* (minutes,
        # then out of memory).  Large operands of the (size position n) family are covered by the other three.
        a = rng.choice([1, -1]) * (abs(a) % 4096)
        pos, e = rnd_field(rng, a)
        size = e - pos
        m = mask(size) << pos
    if op == "extract-bit-field":
        return mk("33:" + op, "(s33:%s %d %d a)" % (op, size, pos), (a >> pos) & mask(size), a, tag=field_tag(a, pos, e),
                  tr=lambda t: t.and_(t.shift(a, -pos), t.mask(size)))
    if op == "test-bit-field?":
        return mk("33:" + op, "(s33:%s %d %d a)" % (op, size, pos), sb(a & m), a, tag=field_tag(a, pos, e),
                  cause="R33" if "R33" in ACTIVE else "-")
    if op == "clear-bit-field":
        return mk("33:" + op, "(s33:%s %d %d a)" % (op, size, pos), a & ~m, a, tag=field_tag(a, pos, e),
                  cause="R33" if "R33" in ACTIVE else "-")
    if op == "replace-bit-field":
        nf = abs(b) & mask(size)             # new field within `size` bits
        return mk("33:" + op, "(s33:%s %d %d b a)" % (op, size, pos), (a & ~m) | (nf << pos), a, nf, tag=field_tag(a, pos, e),
                  tr=lambda t: t.ior_(t.and_(a, t.bnot(t.shift(t.mask(size), pos))), t.shift(nf, pos)))
    # copy-bit-field size position from to
    return mk("33:" + op, "(s33:%s %d %d b a)" % (op, size, pos), (a & ~m) | (b & m), a, b, tag=field_tag(a, pos, e),
              tr=lambda t: t.if_(t.shift(t.mask(size), pos), b, a))


GENS_151 = [(gen_binary, 22), (gen_nary, 6), (gen_unary, 12), (gen_shift, 14), (gen_bitset, 7), (gen_copybit, 4),
            (gen_bitswap, 3), (gen_anyevery, 4), (gen_if, 4), (gen_field, 8), (gen_replace, 4), (gen_rotate, 3),
            (gen_reverse, 2), (gen_bits, 4), (gen_fold, 3)]
# alias libraries: (srfi 142) re-exports (srfi 151); (srfi 33) has its own names / argument orders.  Not checked:
# (srfi 142) bitwise-if and (srfi 33) bitwise-merge -- chibi deliberately swaps the last two arguments relative to
# SRFI 151's bitwise-if, its own lib/srfi/33/test.sld expects the unswapped order (and fails on the unchanged tree),
# and neither SRFI document is on disk to decide which is specified.
GENS_142 = [(gen_binary, 4), (gen_nary, 1), (gen_unary, 3), (gen_shift, 3), (gen_bitset, 2), (gen_copybit, 1),
            (gen_bitswap, 1), (gen_anyevery, 1), (gen_field, 2), (gen_replace, 1), (gen_rotate, 1), (gen_reverse, 1),
            (gen_bits, 2), (gen_fold, 1)]
GENS_33 = [(gen_binary, 4), (gen_nary, 1), (gen_unary, 3), (gen_shift, 3), (gen_bitset, 2), (gen_anyevery, 2),
           (gen_srfi33_field, 6)]


def _pick(rng, table):
    tot = sum(w for _, w in table)
    x = rng.randrange(tot)
    for g, w in table:
        if x < w:
            return g
        x -= w


def gen_any(rng):
    r = rng.random()
    if r < 0.80:
        return _pick(rng, GENS_151)(rng, ""), "151"
    if r < 0.90:
        return _pick(rng, GENS_142)(rng, "142:"), "142"
    return _pick(rng, GENS_33)(rng, "33:"), "33"


def iroute(rng, v):
    """Scheme expression for the integer v: literal, or a computation that leaves spare words / goes through the parser."""
    r = rng.random()
    if r < 0.6:
        return str(v), "literal"
    if r < 0.72:
        k = rng.choice([1, 1 << 62, 1 << 64, (1 << 200) + 1])
        return "(- (+ %d %d) %d)" % (v, k, k), "add-sub"
    if r < 0.86:
        k = rng.choice([1 << 64, 1 << 128, 3 ** 50])
        return "(quotient %d %d)" % (v * k, k), "quotient(spare words)"
    if r < 0.93:
        return '(string->number "%s")' % v, "parsed"
    return '(string->number "%s" 16)' % (("-" if v < 0 else "") + format(abs(v), "x")), "parsed-hex"


def expected_lit(e):
    if isinstance(e, list):
        return "(list %s)" % " ".join(expected_lit(x) for x in e)
    if isinstance(e, bool):
        return "#t" if e else "#f"
    return str(e)


def finish_case(rng, c, cid):
    binds = []
    routes = []
    for name, v in zip("abc", c["ints"]):
        if v is None:
            binds.append("(%s 0)" % name)
            routes.append("-")
        else:
            x, rt = iroute(rng, v)
            binds.append("(%s %s)" % (name, x))
            routes.append(rt)
    e = c["expect"]
    chk = "(equal? r %s)" % expected_lit(e) if isinstance(e, (list, bool)) else "(eqv? r %s)" % expected_lit(e)
    form = "(%%case %s (let* (%s (r %s)) (list r %s a b c)))" % (cid, " ".join(binds), c["expr"], chk)
    c.update(id=cid, form=form, routes=tuple(routes))
    return c


def same(r, e):
    if isinstance(e, list):
        return isinstance(r, list) and len(r) == len(e) and all(same(x, y) for x, y in zip(r, e))
    if isinstance(e, bool):
        return isinstance(r, bool) and r == e
    return isinstance(r, int) and not isinstance(r, bool) and r == e


def kl(v):
    return "-" if v is None else klass(v)


def case_sig(c):
    a, b, cc = c["ints"]
    return (c["op"], kl(a), kl(b), kl(cc), c["tag"], c["cause"])


def judge(rep, c, res):
    a, b, cc = c["ints"]
    sig0 = {"op": c["op"], "a": kl(a), "b": kl(b), "c": kl(cc), "tag": c["tag"], "operands": "unknown",
            "cause": c["cause"]}
    wit = {"form": c["form"], "expected": repr(c["expect"]) if not isinstance(c["expect"], int) else str(c["expect"]),
           "routes": c["routes"]}
    if res is None or res.status == "missing":
        rep.inconc("no-output", c["id"])
        return
    if res.status == "timeout":
        rep.inconc("timeout", c["form"][:200])
        return
    if res.status == "crash":
        wit["detail"] = res.detail
        rep.violation(dict(sig0, mode="crash"), wit)
        return
    try:
        data = res.data()
    except Exception:
        data = None
    wit["got"] = res.text.strip()[:600]
    if not data or len(data) != 1:
        rep.violation(dict(sig0, mode="unparsable-output"), wit)
        return
    obs = data[0]
    if isinstance(obs, list) and len(obs) == 2 and obs[0] == Sym("err"):
        rep.violation(dict(sig0, mode="error"), wit)
        return
    if not (isinstance(obs, list) and len(obs) == 5):
        rep.violation(dict(sig0, mode="unparsable-output"), wit)
        return
    r, canonp, a2, b2, c2 = obs
    st = []
    for name, want, got, rt in (("a", a, a2, c["routes"][0]), ("b", b, b2, c["routes"][1]), ("c", cc, c2, c["routes"][2])):
        if want is None or same(got, want):
            continue
        if isinstance(got, int) and not isinstance(got, bool) and got == -want:
            st.append(name + "-negated")
        else:
            st.append(name + "-changed")
    sig0["operands"] = "+".join(st) if st else "intact"
    if not same(r, c["expect"]):
        rep.violation(dict(sig0, mode="wrong-result"), wit)
        return
    if st:
        rep.violation(dict(sig0, mode="operand-mutated"), wit)
        return
    if canonp is not True:
        rep.violation(dict(sig0, mode="not-eqv-to-literal"), wit)
        return


def multi_causes(a, b, s, kk):
    out = []
    for f in (lambda t: t.band(a, b), lambda t: t.bior(a, b), lambda t: t.bxor(a, b), lambda t: t.shift(a, s),
              lambda t: t.count(a), lambda t: t.ilen(a), lambda t: t.bitset(kk, a)):
        t = Trace()
        f(t)
        out.append(t.cause or "-")
    return out


def lattice_cases(rng):
    """(thorough) every pair of the C04 lattice through the six base operations, one case per pair."""
    k = 0
    for a in c04.LAT:
        for b in c04.LAT:
            s = rng.choice([-129, -128, -65, -64, -63, -1, 1, 63, 64, 65, 128])
            kk = rng.choice(POS)
            exp = [a & b, a | b, a ^ b, shift(a, s), popcount(a), ilen(a), sb((a >> kk) & 1)]
            form = ("(%%case m%d (let* ((a %d) (b %d) (c 0) (r1 (bitwise-and a b)) (r2 (bitwise-ior a b)) (r3 (bitwise-xor a b)) "
                    "(r4 (arithmetic-shift a %d)) (r5 (bit-count a)) (r6 (integer-length a)) (r7 (bit-set? %d a)) "
                    "(r (list r1 r2 r3 r4 r5 r6 r7))) (list r (equal? r %s) a b c)))" % (k, a, b, s, kk, expected_lit(exp)))
            yield {"op": "multi", "subops": ["bitwise-and", "bitwise-ior", "bitwise-xor", "arithmetic-shift", "bit-count",
                                             "integer-length", "bit-set?"],
                   "subtags": [len_tag(a, b)] * 3 + [shift_tag(a, s), "negative" if a < 0 else "-",
                                                     ("negative-power-of-two" if (-a) & (-a - 1) == 0 else "negative,other") if a < 0 else "-",
                                                     index_tag(a, kk)],
                   "subcauses": multi_causes(a, b, s, kk), "cause": "-",
                   "expr": "multi", "expect": exp, "ints": (a, b, None), "tag": "-", "id": "m%d" % k, "form": form,
                   "routes": ("literal", "literal", "-"), "src": "lattice-cross"}
            k += 1


def judge_multi(rep, c, res):
    """Lattice multi cases: report the first wrong sub-operation under its own name / tag."""
    if res is not None and res.status == "ok":
        try:
            data = res.data()
        except Exception:
            data = None
        if data and len(data) == 1 and isinstance(data[0], list) and len(data[0]) == 5 and isinstance(data[0][0], list) \
                and len(data[0][0]) == len(c["expect"]):
            r = data[0][0]
            a, b, _ = c["ints"]
            for i, sub in enumerate(c["subops"]):
                if not same(r[i], c["expect"][i]):
                    binary = i < 3
                    rep.violation({"op": sub, "a": kl(a), "b": kl(b) if binary else "-", "c": "-", "tag": c["subtags"][i],
                                   "cause": c["subcauses"][i],
                                   "operands": "intact" if same(data[0][2], a) and same(data[0][3], b) else "changed",
                                   "mode": "wrong-result"},
                                  {"form": c["form"], "expected": str(c["expect"]), "got": res.text.strip()[:600]})
                    return
    judge(rep, c, res)


def case_stream(rng, tier, n):
    made = 0
    while made < n:
        c, src = gen_any(rng)
        c["src"] = "srfi-" + src
        yield finish_case(rng, c, "k%d" % made)
        made += 1
    if tier == "thorough":
        for c in lattice_cases(rng):
            yield c


def make_cases(rng, n):
    return list(case_stream(rng, "quick", n))


def check(rep, tier, seed, variant="hooks", n=None, env_extra=None):
    rng = random.Random(seed * 7919 + 17)
    b = B.ensure(variant)
    rep.builds.add(variant)
    n = n or (60000 if tier == "quick" else 1000000)
    env = {"CHIBI_VERIF_HEAPCHECK": 1}
    env.update(env_extra or {})
    chunk = []
    state = {"procs": 0, "sampled": 0}

    def flush():
        if not chunk:
            return
        res, procs = C.run_batches(b, IMPORTS, "", [(c["id"], c["form"]) for c in chunk], batch=1500,
                                   env_extra=env, timeout=(60 if tier == "quick" else 180), heap="64M/512M", prelude=PRELUDE)
        for c in chunk:
            rep.case(case_sig(c))
            rep.count("cases_" + c["src"])
            if c["op"] == "multi":
                judge_multi(rep, c, res.get(c["id"]))
            else:
                judge(rep, c, res.get(c["id"]))
        for c in chunk[:max(0, 6 - state["sampled"])]:
            state["sampled"] += 1
            rep.sample({"form": c["form"], "expected": str(c["expect"]),
                        "observed": (res[c["id"]].text.strip()[:300] if c["id"] in res else None)})
        for p in procs:
            for l in p.log_lines("HEAPCHECK-FAIL"):
                rep.violation({"op": "heapcheck", "mode": l.split()[1]}, {"line": l})
            for d in p.log_kv("HEAPCHECK-SUMMARY"):
                rep.count("heap_checks", d.get("runs", 0))
                rep.count("heap_objects_checked", d.get("objects", 0))
        state["procs"] += len(procs)
        del chunk[:]

    for c in case_stream(rng, tier, n):
        chunk.append(c)
        if len(chunk) >= 48000:
            flush()
    flush()
    rep.extra["processes"] = state["procs"]
    rep.rule = ("seeded generators over every procedure exported by (srfi 151) plus the (srfi 142) and (srfi 33) aliases "
                "(80/10/10 %): operands from word patterns (2^k, 2^k+-1, all-ones / zero / single-bit words, low words "
                "zero) of 0..6 words in both signs, pairs whose word lengths differ by 0..3, b = a / ~a / -a, C04 lattice "
                "pairs; shift counts and bit/field positions at and across multiples of 64 and relative to the operand "
                "length; operands built by a random route (literal, add-sub, quotient with spare words, parsed); thorough "
                "adds the full C04 lattice cross product through and/ior/xor/shift/bit-count/integer-length/bit-set?.  "
                "distinct = (operation, class of a, b, c, tag) with class = sign x {fix, fixedge, big1, big2, bigN}, tag = "
                "shift direction x bits-shifted-out-zero, index/field position relative to the stored words, length relation")
    rep.assumptions = ["Python integers are infinite two's complement", "the observation reader (vf/sexpr.py) is correct",
                       "chibi's `write` of exact integers is used to observe results",
                       "(srfi 142) bitwise-if and (srfi 33) bitwise-merge are not checked (argument order not decidable from the tree: "
                       "chibi swaps the last two arguments relative to SRFI 151, its own (srfi 33 test) expects otherwise)"]


def gc_workload(rng, n):
    """Case files + judge for reuse by other properties (C02 forced collections, C09 cll build)."""
    from .. import report
    cs = make_cases(rng, n)
    byid = {c["id"]: c for c in cs}
    findings, _ = report.load_findings("C17")

    def judge_one(rep, cid, res):
        judge(rep, byid[cid], res)

    def known(sig):
        return any(report._match(f["match"], sig) for f in findings)

    def classify(cid):
        return byid[cid]["op"]

    return {"imports": IMPORTS, "header": "", "cases": [(c["id"], c["form"]) for c in cs], "judge": judge_one,
            "known": known, "classify": classify, "batch": 100, "heap": "64M/512M", "timeout": 180, "prelude": PRELUDE}
