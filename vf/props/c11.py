"""C11 -- green threads: mutual exclusion, no lost wake-ups, schedule independence (DESIGN.md 3, C11).

Correctly synchronised SRFI 18 programs are run under injected time-slice sequences (hook H4:
CHIBI_VERIF_SCHED=seed:S:Q random slices of 1..Q VM instructions, or list:a,b,..:D explicit slices);
the oracle is the program's own invariants (printed) + one reference final state per program + the
deadlock detector of the hook (exit 86) + crash watch.  Wall-clock never decides: timed operations are
used only where both outcomes are correct, a watchdog expiry is inconclusive.
"""
import random

from .. import build as B
from .. import run as R
from .. import sexpr
from ..sexpr import Sym

HEAD = "(import (scheme base) (scheme write) (scheme process-context) (srfi 18))\n"
TAIL = "\n(flush-output-port) (emergency-exit 0)\n"


def prog_counter(nthreads, k):
    return HEAD + """
(define m (make-mutex))
(define in-cs 0) (define max-in-cs 0) (define counter 0)
(define (worker id n)
  (lambda ()
    (let lp ((i 0))
      (when (< i n)
        (mutex-lock! m)
        (set! in-cs (+ in-cs 1))
        (if (> in-cs max-in-cs) (set! max-in-cs in-cs))
        (let ((c counter)) (if (even? i) (thread-yield!)) (set! counter (+ c 1)))
        (set! in-cs (- in-cs 1))
        (mutex-unlock! m)
        (lp (+ i 1))))
    (* id 10)))
(define ths (let lp ((i 0) (acc '())) (if (< i %d) (lp (+ i 1) (cons (make-thread (worker i %d)) acc)) (reverse acc))))
(for-each thread-start! ths)
(define results (map thread-join! ths))
(write (list 'counter counter 'max-in-cs max-in-cs 'results results))
""" % (nthreads, k) + TAIL, [Sym("counter"), nthreads * k, Sym("max-in-cs"), 1, Sym("results"), [i * 10 for i in range(nthreads)]]


def prog_buffer(nprod, ncons, per, cap):
    total = nprod * per
    assert total % ncons == 0
    return HEAD + """
(define m (make-mutex))
(define qm (make-mutex)) (define not-empty (make-condition-variable)) (define not-full (make-condition-variable))
(define q '()) (define qlen 0) (define cap %d) (define max-qlen 0)
(define (put! x)
  (mutex-lock! qm)
  (let lp ()
    (cond ((>= qlen cap) (mutex-unlock! qm not-full) (mutex-lock! qm) (lp))))
  (set! q (append q (list x))) (set! qlen (+ qlen 1)) (if (> qlen max-qlen) (set! max-qlen qlen))
  (condition-variable-broadcast! not-empty)
  (mutex-unlock! qm))
(define (get!)
  (mutex-lock! qm)
  (let lp ()
    (cond ((= qlen 0) (mutex-unlock! qm not-empty) (mutex-lock! qm) (lp))))
  (let ((x (car q))) (set! q (cdr q)) (set! qlen (- qlen 1))
    (set! consumed (cons x consumed))       ; dequeue order, recorded while the queue mutex is held
    (condition-variable-broadcast! not-full)
    (mutex-unlock! qm) x))
(define consumed '())
(define (producer id n) (lambda () (do ((i 0 (+ i 1))) ((= i n) id) (put! (+ (* id 1000) i)))))
(define (consumer n) (lambda () (do ((i 0 (+ i 1))) ((= i n) 'c) (get!))))
(define ths (append (let lp ((i 0) (acc '())) (if (< i %d) (lp (+ i 1) (cons (make-thread (producer (+ i 1) %d)) acc)) acc))
                    (let lp ((i 0) (acc '())) (if (< i %d) (lp (+ i 1) (cons (make-thread (consumer %d)) acc)) acc))))
(for-each thread-start! ths)
(define results (map thread-join! ths))
(write (list 'consumed (reverse consumed) 'max-qlen-ok (<= max-qlen cap) 'left qlen))
""" % (cap, nprod, per, ncons, total // ncons) + TAIL, ("buffer", nprod, per)


def prog_pingpong(rounds):
    return HEAD + """
(define m (make-mutex)) (define cv (make-condition-variable))
(define turn 0) (define log '())
(define (player me other n)
  (lambda ()
    (let lp ((i 0))
      (when (< i n)
        (mutex-lock! m)
        (let wait () (if (not (= turn me)) (begin (mutex-unlock! m cv) (mutex-lock! m) (wait))))
        (set! log (cons me log))
        (set! turn other)
        (condition-variable-broadcast! cv)
        (mutex-unlock! m)
        (lp (+ i 1))))
    me))
(define a (make-thread (player 0 1 %d))) (define b (make-thread (player 1 0 %d)))
(thread-start! b) (thread-start! a)
(define ra (thread-join! a)) (define rb (thread-join! b))
(write (list 'log (reverse log) 'joined ra rb))
""" % (rounds, rounds) + TAIL, [Sym("log"), [i % 2 for i in range(2 * rounds)], Sym("joined"), 0, 1]


def prog_jointree(depth, fan):
    def total(d):
        return 1 if d == 0 else 1 + fan * total(d - 1)
    return HEAD + """
(define (node d)
  (lambda ()
    (if (= d 0) 1
        (let ((kids (let lp ((i 0) (acc '())) (if (< i %d) (lp (+ i 1) (cons (thread-start! (make-thread (node (- d 1)))) acc)) acc))))
          (thread-yield!)
          (+ 1 (apply + (map thread-join! kids)))))))
(define root (thread-start! (make-thread (node %d))))
(define result (thread-join! root))
(write (list 'sum result))
""" % (fan, depth) + TAIL, [Sym("sum"), total(depth)]


def prog_timed():
    return HEAD + """
(define m (make-mutex)) (define cv (make-condition-variable))
(define flag #f)
(define waiter (make-thread (lambda ()
  (mutex-lock! m)
  (let lp () (if (not flag) (begin (mutex-unlock! m cv 0.005) (mutex-lock! m) (lp))))
  (mutex-unlock! m) 'w-done)))
(define sleeper (make-thread (lambda () (thread-sleep! 0.01) (mutex-lock! m) (set! flag #t) (condition-variable-broadcast! cv) (mutex-unlock! m) 's-done)))
(define spinner (make-thread (lambda () (let lp ((i 0)) (if (< i 1500) (begin (if (= 0 (modulo i 100)) (thread-yield!)) (lp (+ i 1))) 'sp-done)))))
(define locker (make-thread (lambda () (let lp ((n 0)) (if (mutex-lock! m 0.001) (begin (mutex-unlock! m) 'l-done) (lp (+ n 1)))))))
(define zero (make-thread (lambda () (let lp () (if (mutex-lock! m 0) (begin (mutex-unlock! m) 'z-done) (begin (thread-yield!) (lp)))))))
(for-each thread-start! (list waiter sleeper spinner locker zero))
(define j1 (thread-join! waiter 20 'timeout))
(define j2 (thread-join! sleeper))
(define j3 (thread-join! spinner))
(define j4 (thread-join! locker))
(define j5 (thread-join! zero))
(define j6 (thread-join! sleeper 0 'late))
(define j7 (thread-join! (make-thread (lambda () 1)) 0 'not-started-timeout))
(write (list j1 j2 j3 j4 j5 flag j6 j7))
""" + TAIL, [Sym("w-done"), Sym("s-done"), Sym("sp-done"), Sym("l-done"), Sym("z-done"), True, Sym("s-done"),
             Sym("not-started-timeout")]


def prog_params(nthreads, rounds):
    return HEAD + """
(define p (make-parameter 'root (lambda (x) (list x))))
(define m (make-mutex))
(define winds 0) (define bad 0)
(define (worker id)
  (lambda ()
    (let lp ((i 0) (ok #t))
      (if (< i %d)
          (lp (+ i 1)
              (and ok
                   (parameterize ((p id))
                     (dynamic-wind
                       (lambda () (mutex-lock! m) (set! winds (+ winds 1)) (mutex-unlock! m))
                       (lambda () (thread-yield!)
                                  (let ((v (p))) (thread-yield!) (and (equal? v (list id)) (equal? (p) (list id)))))
                       (lambda () (mutex-lock! m) (set! winds (- winds 1)) (mutex-unlock! m))))
                   (equal? (p) '(root))))
          ok))))
(define ths (let lp ((i 0) (acc '())) (if (< i %d) (lp (+ i 1) (cons (make-thread (worker i)) acc)) (reverse acc))))
(for-each thread-start! ths)
(define results (map thread-join! ths))
(write (list 'ok results 'winds winds 'root (p)))
""" % (rounds, nthreads) + TAIL, [Sym("ok"), [True] * nthreads, Sym("winds"), 0, Sym("root"), [Sym("root")]]


def prog_exceptions():
    return HEAD + """
(define t1 (make-thread (lambda () (thread-yield!) (raise 'boom))))
(define t2 (make-thread (lambda () (thread-yield!) (+ 1 (car '())))))
(define t3 (make-thread (lambda () (thread-yield!) 'fine)))
(for-each thread-start! (list t1 t2 t3))
(define (join-outcome t)
  (call-with-current-continuation
    (lambda (k)
      (with-exception-handler
        (lambda (e) (k (list 'raised)))
        (lambda () (list 'value (thread-join! t)))))))
(define r3 (join-outcome t3))
(define r1 (join-outcome t1))
(define r2 (join-outcome t2))
(define r1b (join-outcome t1))
(write (list r1 r2 r3 r1b))
""" + TAIL, [[Sym("raised")], [Sym("raised")], [Sym("value"), Sym("fine")], [Sym("raised")]]


def prog_sleepers(nthreads, k):
    # contention on a mutex followed by short sleeps, several waiters: a sleeping thread must not receive (and lose) the
    # wake-up meant for a thread blocked on the mutex
    return HEAD + """
(define m (make-mutex)) (define counter 0)
(define (worker id)
  (lambda ()
    (let lp ((i 0))
      (when (< i %d)
        (mutex-lock! m)
        (let ((c counter)) (thread-yield!) (set! counter (+ c 1)))
        (mutex-unlock! m)
        (thread-sleep! 0.002)
        (lp (+ i 1))))
    id))
(define ths (let lp ((i 0) (acc '())) (if (< i %d) (lp (+ i 1) (cons (make-thread (worker i)) acc)) (reverse acc))))
(for-each thread-start! ths)
(mutex-lock! m) (set! counter (+ counter 100)) (thread-yield!) (mutex-unlock! m)
(define results (map thread-join! ths))
(write (list 'counter counter 'results results))
""" % (k, nthreads) + TAIL, [Sym("counter"), 100 + nthreads * k, Sym("results"), list(range(nthreads))]


def prog_sleepy_condvar(rounds):
    # a thread that has waited on a condition variable and now sleeps must not absorb a signal meant for a current waiter
    return HEAD + """
(define m (make-mutex)) (define cv (make-condition-variable))
(define tokens 0) (define taken 0)
(define (taker id n)
  (lambda ()
    (let lp ((i 0))
      (when (< i n)
        (mutex-lock! m)
        (let wait () (if (= tokens 0) (begin (mutex-unlock! m cv) (mutex-lock! m) (wait))))
        (set! tokens (- tokens 1)) (set! taken (+ taken 1))
        (mutex-unlock! m)
        (thread-sleep! 0.001)
        (lp (+ i 1))))
    id))
(define (giver n)
  (lambda ()
    (let lp ((i 0))
      (when (< i n)
        (mutex-lock! m) (set! tokens (+ tokens 1)) (condition-variable-signal! cv) (mutex-unlock! m)
        (thread-yield!)
        (lp (+ i 1))))
    'g))
(define ths (list (make-thread (taker 1 %d)) (make-thread (taker 2 %d)) (make-thread (taker 3 %d)) (make-thread (giver %d))))
(for-each thread-start! ths)
(define results (map thread-join! ths))
(write (list 'taken taken 'tokens tokens 'results results))
""" % (rounds, rounds, rounds, 3 * rounds) + TAIL, [Sym("taken"), 3 * rounds, Sym("tokens"), 0, Sym("results"), [1, 2, 3, Sym("g")]]


def prog_callbacks(n):
    # separately reported family: threads re-entering the VM from C (sort with a Scheme comparator) while others run
    return "(import (scheme base) (scheme write) (scheme process-context) (srfi 18) (srfi 95))\n" + """
(define m (make-mutex)) (define total 0)
(define (sorter id)
  (lambda ()
    (let lp ((i 0) (ok #t))
      (if (< i %d)
          (let* ((ls (let gen ((j 0) (acc '())) (if (< j 40) (gen (+ j 1) (cons (modulo (* (+ j id i 3) 7919) 101) acc)) acc)))
                 (s (sort ls (lambda (a b) (< a b)))))
            (mutex-lock! m) (set! total (+ total (length s))) (mutex-unlock! m)
            (lp (+ i 1) (and ok (let chk ((x s)) (or (null? x) (null? (cdr x)) (and (<= (car x) (cadr x)) (chk (cdr x))))))))
          ok))))
(define ths (list (make-thread (sorter 1)) (make-thread (sorter 2)) (make-thread (sorter 3))))
(for-each thread-start! ths)
(define results (map thread-join! ths))
(write (list 'ok results 'total total))
""" % n + TAIL, [Sym("ok"), [True, True, True], Sym("total"), 3 * n * 40]


def prog_callbacks_stop(how):
    # a thread is terminated (SRFI 18) or interrupted (what SIGINT does) while it is inside a sort comparator, i.e. while
    # a C function is on the C stack on its behalf and other threads may be running inside that C function's nested VM
    stop = {"terminate": "(thread-terminate! a)", "interrupt": "(thread-interrupt! a)"}[how]
    return ("(import (scheme base) (scheme write) (scheme process-context) (srfi 18) (srfi 95) (only (srfi 1) filter) (only (chibi ast) thread-interrupt!))\n" + """
(define (slow-less a b) (let lp ((i 0)) (if (< i 200) (lp (+ i 1)) (< a b))))
(define (sorter n) (lambda () (let lp ((k 0)) (if (< k n) (begin (sort (list 5 3 8 4 1 2 9 7 6) slow-less) (lp (+ k 1))) 'finished))))
(define results '())
(do ((round 0 (+ round 1))) ((= round 12))
  (let ((a (make-thread (sorter 50))) (b (make-thread (sorter 4))))
    (thread-start! a) (thread-start! b)
    (thread-yield!) (thread-yield!)
    %s
    (let* ((ra (guard (e (#t 'stopped)) (thread-join! a))) (rb (thread-join! b)))
      (set! results (cons (list (if (eq? ra 'finished) 'stopped ra) rb) results)))))
(write (list 'rounds (length results) 'b-finished (length (filter (lambda (r) (eq? (cadr r) 'finished)) results)) (sort (list 3 1 2) slow-less)))
""" % stop + TAIL, [Sym("rounds"), 12, Sym("b-finished"), 12, [1, 2, 3]])


def prog_callbacks_escape(rounds):
    # comparators and hash procedures that leave through a continuation captured outside the C call (guard, call/cc,
    # with dynamic-wind on the way) in several threads at once: the escape may happen while another thread's nested VM is
    # the innermost one
    return ("(import (scheme base) (scheme write) (scheme process-context) (srfi 18) (srfi 95))\n" + """
(define (slow n) (let lp ((i 0)) (if (< i n) (lp (+ i 1)) #t)))
(define m (make-mutex)) (define winds 0)
(define (note!) (mutex-lock! m) (set! winds (+ winds 1)) (mutex-unlock! m))
(define (sort-worker id)
  (lambda ()
    (let lp ((k 0) (caught 0) (sorted 0))
      (if (= k %d)
          (list id caught sorted)
          (let ((r (guard (e (#t 'caught))
                     (sort (list 5 3 8 4 1 2 9 7 6)
                           (lambda (a b) (slow 40)
                             (if (and (= a 4) (odd? k))
                                 (dynamic-wind (lambda () #f) (lambda () (raise 'boom)) note!)
                                 (< a b)))))))
            (if (eq? r 'caught) (lp (+ k 1) (+ caught 1) sorted)
                (lp (+ k 1) caught (if (equal? r '(1 2 3 4 5 6 7 8 9)) (+ sorted 1) sorted))))))))
(define ths (list (make-thread (sort-worker 1)) (make-thread (sort-worker 2)) (make-thread (sort-worker 3))))
(for-each thread-start! ths)
(define results (map thread-join! ths))
(write (list 'sorters results 'winds winds))
""" % rounds + TAIL, [Sym("sorters"), [[1, rounds // 2, rounds - rounds // 2], [2, rounds // 2, rounds - rounds // 2], [3, rounds // 2, rounds - rounds // 2]],
                                  Sym("winds"), 3 * (rounds // 2)])


def prog_callbacks_blocking_join():
    # two threads whose comparators wait (thread-join!) for a third thread that is itself sorting: when the third
    # thread's C call lies *below* a waiting comparator's on the C stack, nobody can return first
    return ("(import (scheme base) (scheme write) (scheme process-context) (srfi 18) (srfi 95))\n" + """
(define (slow n) (let lp ((i 0)) (if (< i n) (lp (+ i 1)) #t)))
(define inner (make-thread (lambda () (sort (list 9 8 7) (lambda (a b) (slow 300) (< a b))))))
(define (joiner)
  (lambda () (sort (list 3 1 2) (lambda (a b) (let ((r (thread-join! inner))) (slow 50) (if (equal? r '(7 8 9)) (< a b) (error "bad join" r)))))))
(define ths (list (make-thread (joiner)) (make-thread (joiner))))
(thread-start! inner)
(for-each thread-start! ths)
(write (list 'joined (map thread-join! ths)))
""" + TAIL, [Sym("joined"), [[1, 2, 3], [1, 2, 3]]])


def programs(rng, tier):
    ps = [
        ("counter-2", prog_counter(2, 12)), ("counter-5", prog_counter(5, 8)),
        ("buffer-1p1c", prog_buffer(1, 1, 20, 1)), ("buffer-2p2c", prog_buffer(2, 2, 12, 2)),
        ("buffer-3p1c", prog_buffer(3, 1, 8, 3)),
        ("pingpong", prog_pingpong(15)), ("jointree", prog_jointree(3, 2)), ("timed", prog_timed()),
        ("params", prog_params(4, 6)), ("exceptions", prog_exceptions()),
        ("sleepers", prog_sleepers(4, 3)), ("sleepy-condvar", prog_sleepy_condvar(4)),
        ("callbacks", prog_callbacks(6)),
        ("callbacks-terminate", prog_callbacks_stop("terminate")), ("callbacks-interrupt", prog_callbacks_stop("interrupt")),
        ("callbacks-escape", prog_callbacks_escape(10)), ("callbacks-blocking-join", prog_callbacks_blocking_join()),
    ]
    return ps


def judge_buffer(spec, obs):
    _, nprod, per = spec
    if not (isinstance(obs, list) and len(obs) == 6 and obs[0] == Sym("consumed")):
        return "unparsable-output"
    consumed = obs[1]
    want = sorted(p * 1000 + i for p in range(1, nprod + 1) for i in range(per))
    if sorted(consumed) != want:
        return "exactly-once"
    last = {}
    for x in consumed:
        p, i = divmod(x, 1000)
        if last.get(p, -1) >= i:
            return "per-producer-fifo"
        last[p] = i
    if obs[3] is not True:
        return "capacity-exceeded"
    if obs[5] != 0:
        return "items-left"
    return None


def check(rep, tier, seed):
    rng = random.Random(seed * 611953 + 11)
    b = B.ensure("hooks")
    rep.builds.add("hooks")
    progs = programs(rng, tier)
    d = R.scratch_dir("c11")
    import os
    paths = {}
    for name, (text, exp) in progs:
        p = os.path.join(d, name + ".scm")
        with open(p, "w") as fh:
            fh.write(text)
        paths[name] = p
    nseeds = 40 if tier == "quick" else 1500
    quanta = [1, 2, 3, 5, 17, 100, 500]
    jobs = []
    for name, (text, exp) in progs:
        if name != "callbacks-blocking-join":                # (no step budget without a schedule: see below)
            jobs.append((name, exp, None))                   # default quantum: the reference behaviour
        if name == "callbacks-blocking-join":
            jobs.append((name, exp, "list:500:500"))       # one schedule is enough to show the listed limitation
            continue
        if name in ("callbacks-terminate", "callbacks-interrupt"):
            # the default quantum as an explicit schedule (so that the step budget applies), then coarse random slices
            jobs.append((name, exp, "list:500:500"))
        for i in range(nseeds):
            q = quanta[i % len(quanta)]
            jobs.append((name, exp, "seed:%d:%d" % (rng.randrange(1, 10 ** 9), q)))
    # bounded enumeration of pre-emption points for the 2-thread programs: explicit first slices, then a fixed quantum
    amax = 60 if tier == "quick" else 400
    for name in ("counter-2", "pingpong", "buffer-1p1c"):
        exp = dict(progs)[name][1]
        for a in range(1, amax):
            for bb in ((1, 3) if tier == "quick" else (1, 2, 3, 5, 8)):
                jobs.append((name, exp, "list:%d,%d,%d:41" % (a, bb, (a * 7 + bb) % 11 + 1)))

    def run_job(j):
        name, exp, sched = j
        env = {"CHIBI_VERIF_HEAPCHECK": 1, "CHIBI_VERIF_DEADLOCK": 1}
        if sched:
            env["CHIBI_VERIF_SCHED"] = sched
        if name == "callbacks-blocking-join" and sched:
            env["CHIBI_VERIF_MAXSLICES"] = 2000000
        if name in ("callbacks-terminate", "callbacks-interrupt") and sched:
            env["CHIBI_VERIF_MAXSLICES"] = 30000000    # a complete run needs about 4e6 quanta of 1 instruction
        if name == "callbacks" and sched:
            # CPU-only program: "never finishes" is decided in logical steps (quanta handed out), not by the wall clock;
            # the longest legitimate run (slices of 1 instruction) needs about 2e5
            env["CHIBI_VERIF_MAXSLICES"] = 30000000
        # (the scheduler's way of not making progress can be an endless stream of error reports: 20 MB of them is enough)
        fs = 20 if name.startswith("callbacks-") else 1024
        r = R.run(b, [paths[name]], env_extra=env, timeout=60, fsize_mb=fs)
        if r.timed_out:                                      # re-run once before calling it a hang (inconclusive)
            r = R.run(b, [paths[name]], env_extra=env, timeout=120, fsize_mb=fs)
        return j, r

    hashes = set()
    switches = slices = dlchecks = 0
    for (name, exp, sched), r in R.pmap(run_job, jobs):
        kind = "default" if sched is None else sched.split(":")[0] + (":" + sched.split(":")[2] if sched.startswith("seed") else "")
        fam = "callbacks" if name.startswith("callbacks") else "plain"
        for dct in r.log_kv("SCHED-SUMMARY"):
            hashes.add((name, dct.get("hash")))
            switches += dct.get("switches", 0)
            slices += dct.get("slices", 0)
            dlchecks += dct.get("deadlock_checks", 0)
        rep.case((name, kind))
        wit = {"program": name, "schedule": sched, "stdout": r.out[-600:], "stderr": r.err[-600:], "file": "see vf/props/c11.py:" + name}
        sig = {"program": name, "family": fam}
        if r.timed_out:
            rep.inconc("timeout" if fam == "plain" else "timeout-in-callback-family", "%s %s" % (name, sched))
            continue
        if r.rc == 87 or r.log_lines("STEP-BUDGET") or (name.startswith("callbacks-") and r.sig == 25):   # 25 = SIGXFSZ
            # no verdict by the clock: the step budget ran out, or the process wrote error reports without end
            rep.violation(dict(sig, check="no-progress"), dict(wit, budget=r.log_lines("STEP-BUDGET")[:1]))
            continue
        if r.rc == 86 or r.log_lines("DEADLOCK"):
            rep.violation(dict(sig, check="deadlock"), wit)
            continue
        if r.log_lines("HEAPCHECK-FAIL"):
            rep.violation(dict(sig, check="heap-invariant"), dict(wit, lines=r.log_lines("HEAPCHECK-FAIL")[:3]))
            continue
        if r.crashed or r.rc != 0:
            rep.violation(dict(sig, check="crash", how=r.describe()), wit)
            continue
        try:
            obs = sexpr.parse(r.out)
        except Exception:
            rep.violation(dict(sig, check="unparsable-output"), wit)
            continue
        if isinstance(exp, tuple):
            bad = judge_buffer(exp, obs)
            if bad:
                rep.violation(dict(sig, check=bad), wit)
        elif obs != exp:
            which = "final-state"
            if name.startswith("counter") and isinstance(obs, list) and len(obs) == 6 and obs[3] != 1:
                which = "mutual-exclusion"
            wit["expected"] = repr(exp)
            rep.violation(dict(sig, check=which), wit)
    rep.extra.update(runs=len(jobs), context_switches=switches, slices_injected=slices, deadlock_detector_evaluations=dlchecks,
                     distinct_interleavings=len(hashes), programs=len(progs))
    rep.sample({"program": "counter-2", "schedule": "seed:S:3", "expected": repr(progs[0][1][1])})
    rep.sample({"program": "pingpong", "text": progs[5][1][0][:600]})
    if slices == 0:
        rep.inconc("slice-hook-never-fired", None)
        rep.min_nontrivial = 10 ** 9
    rep.rule = ("%d correctly synchronised SRFI 18 programs x slice schedules (seeded random slices of 1..Q instructions for "
                "Q in %s; explicit first-slice lists enumerating the first pre-emption offsets for the 2-thread programs); "
                "distinct = (program, schedule kind); the number of distinct interleavings actually produced (hash of the "
                "(thread, slice) sequence logged by the hook) is reported separately" % (len(progs), quanta))
    rep.assumptions = ["programs are correctly synchronised, so every schedule must give the reference result",
                       "timed waits are used only where both outcomes are correct; a watchdog expiry is inconclusive"]
    import shutil
    shutil.rmtree(d, ignore_errors=True)
