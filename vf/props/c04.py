"""C04 -- exact arithmetic is mathematically exact at every magnitude (DESIGN.md section 3, C04).

Oracle: Python int / Fraction.  Every case binds its operands a, b, c (built by a chosen *route*: literal,
arithmetic result, parsed text), applies one operation and prints
    (result  (fixnum? result)  (eqv? result <expected literal>)  a  b  c)
so that a wrong value, a non-canonical representation and a *mutated operand* are all observable.

Generators (all seeded):
  * random: operation x operands from the boundary lattice or random up to 4000 bits, integers and ratios;
  * crafted division: a = q*d + r with word patterns chosen to drive the quotient-estimate paths of
    sexp_bignum_quot_rem (equal leading words, leading words below 2^32, estimate 0, overshoot);
  * crafted multiplication: word-pattern operands of 1..14 words (every product of two bignums of >= 2 words is a
    Karatsuba product in chibi, split at blen/2, so odd/even/unbalanced lengths and carries out of a1+a0 matter);
  * crafted comparisons of ratios whose cross products are near the fixnum limits;
  * (thorough) the full cross product of the boundary lattice, one multi-operation case per pair.

Violation signature: {op, a, b, c, mode, operands, tag}
  a/b/c     class of the operand: zero, +-fix, +-fixedge, fixmin, fixmax+1, +-big1, +-big2, +-bigN, +-ratio ("-" = unused);
            ratios carry the suffixes :num=fixmin, :num=fixmax+1 and :den=fixmax+1 (parts at the fixnum/bignum border)
  mode      crash | error | unparsable-output | wrong-result | operand-mutated | not-canonical-fixnum |
            not-canonical-ratio-parts (numerator/denominator in fixnum range but not a fixnum) | not-eqv-to-literal
  operands  what the operands look like *after* the operation: intact | a-negated | b-negated | a-negated+b-negated | a-changed ...
  r         class of the expected result (same classes; lists joined by ","; bool; string)
  a wrong operand that was built by a non-literal route is reported as {op: "route:<route>", a: class, mode: wrong-result}
  tag       an operation specific refinement computed from the operands by the model (see tag_* functions), "-" if none
"""
import math
import random
from fractions import Fraction

from .. import build as B
from .. import cases as C
from ..sexpr import Sym

FIXMAX = (1 << 62) - 1          # chibi fixnums on 64-bit: 63 bits incl. sign
FIXMIN = -(1 << 62)
W = 64
ONES = (1 << W) - 1
# vf.cases.PRELUDE flushes only *after* a case, so the marker of a case that kills the process stays in the stdio
# buffer and the runner blames the previous case (and then gives up on the rest of the file).  Flush the marker first.
PRELUDE = C.PRELUDE
if "(display 'id) (newline) (flush-output-port)" not in PRELUDE:      # newer vf.cases flushes the marker itself
    PRELUDE = PRELUDE.replace("(display 'id) (newline)", "(display 'id) (newline) (flush-output-port)")
assert PRELUDE.count("(display 'id) (newline) (flush-output-port)") == 2
IMPORTS = "(import (scheme base) (scheme write) (scheme inexact) (scheme process-context) (only (chibi) fixnum?))"


def lattice(kmax=400):
    vals = {0, 1, -1, 2, -2}
    for d in (-2, -1, 0, 1, 2):
        vals.add(FIXMAX + d)
        vals.add(FIXMIN + d)
    ks = list(range(0, 140)) + [190, 191, 192, 193, 255, 256, 257, 319, 320, 321, 383, 384, 385, kmax]
    for k in ks:
        for d in (-1, 0, 1):
            vals.add((1 << k) + d)
            vals.add(-((1 << k) + d))
    for w in (2, 3, 4, 5):
        vals.add((1 << (64 * w)) - 1)
        vals.add(((1 << 64) - 1) << (64 * (w - 1)))
        vals.add((1 << (64 * w)) + 1)
        vals.add(((1 << (64 * w)) - 1) ^ (((1 << 64) - 1) << 64))
        vals.add(-(((1 << (64 * w)) - 1) ^ (((1 << 64) - 1) << 64)))
    return sorted(vals)


LAT = lattice()


def klass(v):
    if isinstance(v, Fraction) and v.denominator != 1:
        k = ("-" if v < 0 else "+") + "ratio"
        if v.numerator == FIXMIN:
            k += ":num=fixmin"
        if v.numerator == FIXMAX + 1:
            k += ":num=fixmax+1"
        if v.denominator == FIXMAX + 1:
            k += ":den=fixmax+1"
        return k
    v = int(v)
    s = "-" if v < 0 else "+"
    if v == FIXMIN:
        return "fixmin"              # the one fixnum whose negation is not a fixnum
    if v == FIXMAX + 1:
        return "fixmax+1"            # the one bignum whose negation is a fixnum
    if FIXMIN <= v <= FIXMAX:
        if v in (0,):
            return "zero"
        if v > FIXMAX - 3 or v < FIXMIN + 3:
            return s + "fixedge"
        return s + "fix"
    w = (abs(v).bit_length() + 63) // 64
    return s + ("big%d" % w if w <= 2 else "bigN")


def rnd_int(rng):
    r = rng.random()
    if r < 0.45:
        return rng.choice(LAT)
    bits = rng.choice([8, 30, 61, 62, 63, 64, 65, 100, 127, 128, 129, 200, 256, 500, 1000, 2000, 4000])
    v = rng.getrandbits(bits)
    if rng.random() < 0.3:
        v |= ((1 << 64) - 1) << (64 * rng.randrange(0, max(1, bits // 64)))
    if rng.random() < 0.15:
        v &= ~(((1 << 64) - 1) << (64 * rng.randrange(0, max(1, bits // 64))))
    return -v if rng.random() < 0.5 else v


def rnd_rat(rng):
    while True:
        d = rnd_int(rng)
        n = rnd_int(rng)
        r = rng.random()
        if r < 0.03:
            n = FIXMIN                   # numerator / denominator at the fixnum-bignum border
        elif r < 0.06:
            d = FIXMAX + 1
        elif r < 0.08:
            d = FIXMIN
        if d != 0:
            return Fraction(n, d)


def rnd_word(rng, top=False):
    r = rng.random()
    if r < 0.15:
        return ONES
    if r < 0.3:
        return 0 if not top else 1
    if r < 0.4:
        return 1
    if r < 0.5:
        return 1 << 63
    if r < 0.6:
        return rng.choice([(1 << 32) - 1, 1 << 32, (1 << 32) + 1, ONES - 1, (1 << 63) - 1, (1 << 63) + 1])
    if r < 0.75:
        return rng.getrandbits(rng.choice([1, 8, 31, 32, 33])) or 1
    return rng.getrandbits(64) or 1


def rnd_words(rng, n):
    """n-word magnitude from word patterns (top word non-zero)."""
    v = 0
    for i in range(n):
        v |= rnd_word(rng, top=(i == n - 1)) << (W * i)
    if v >> (W * (n - 1)) == 0:
        v |= 1 << (W * (n - 1))
    return v


def lit(v):
    if isinstance(v, Fraction) and v.denominator != 1:
        return "%d/%d" % (v.numerator, v.denominator)
    return str(int(v))


def route(rng, v):
    """Scheme expression that evaluates to exact v, by a randomly chosen computation route."""
    r = rng.random()
    if isinstance(v, Fraction) and v.denominator != 1:
        if r < 0.6:
            return lit(v), "literal"
        if r < 0.8:
            return "(/ %d %d)" % (v.numerator, v.denominator), "division"
        k = rng.choice([2, 3, 1 << 64, 10 ** 20])
        return "(/ %d %d)" % (v.numerator * k, v.denominator * k), "unreduced-division"
    v = int(v)
    if r < 0.5:
        return str(v), "literal"
    if r < 0.65:
        k = rng.choice([1, 1 << 62, 1 << 64, (1 << 200) + 1, 10 ** 30])
        return "(- (+ %d %d) %d)" % (v, k, k), "add-sub"
    if r < 0.8:
        k = rng.choice([1 << 64, 1 << 128, 3 ** 50, 10 ** 25])
        return "(quotient %d %d)" % (v * k, k), "quotient(spare words)"
    if r < 0.9:
        return '(string->number "%s")' % v, "parsed"
    return '(string->number "%s" 16)' % (("-" if v < 0 else "") + format(abs(v), "x")), "parsed-hex"


def tdiv(a, b):
    q = abs(a) // abs(b)
    return q if (a < 0) == (b < 0) else -q


DIGS = "0123456789abcdefghijklmnopqrstuvwxyz"


def tostr(n, r):
    if n == 0:
        return "0"
    s = []
    m = abs(n)
    while m:
        s.append(DIGS[m % r])
        m //= r
    return ("-" if n < 0 else "") + "".join(reversed(s))


def tostr_rat(f, r):
    f = Fraction(f)
    if f.denominator == 1:
        return tostr(f.numerator, r)
    return tostr(f.numerator, r) + "/" + tostr(f.denominator, r)


def sbool(b):
    return True if b else False


def in_fix(v):
    return FIXMIN <= v <= FIXMAX


def tag_compare(vals):
    """Comparisons involving a non-integer go through sexp_ratio_compare: cross products n1*d2, n2*d1 are compared
    with sexp_compare.  The tag says whether both products are fixnums whose difference is not a fixnum."""
    fs = [Fraction(v) for v in vals]
    for x, y in zip(fs, fs[1:]):
        if x.denominator == 1 and y.denominator == 1:
            continue
        p, q = x.numerator * y.denominator, y.numerator * x.denominator
        if in_fix(p) and in_fix(q) and not (in_fix(p - q) and in_fix(q - p)):
            return "fixnum-cross-products-differ-by-more-than-a-fixnum"
    return "-"


def tag_div(fa, fb):
    """`/` (and floor-quotient etc., which are defined through it) builds the ratio a/b and reduces it in
    sexp_ratio_normalize; a reduced denominator of exactly 2^62 sits on the fixnum/bignum border."""
    if fb == 0:
        return "-"
    return "reduced-denominator=2^62" if (Fraction(fa) / Fraction(fb)).denominator == FIXMAX + 1 else "-"


def tag_fixmin_div(a, b):
    """sexp_quotient / sexp_remainder answer 0 / a for fixnum over bignum, assuming |a| < |b|; the one exception is
    the most negative fixnum over the bignum 2^62."""
    return "fixmin-over-2^62" if a == FIXMIN and abs(b) == FIXMAX + 1 else "-"


def tag_intermediate(vs):
    """n-ary + and * fold from the left; an intermediate ratio with denominator 2^62 meets the same border."""
    return "intermediate-denominator=2^62" if any(Fraction(v).denominator == FIXMAX + 1 for v in vs) else "-"


def tag_radix(r, txt):
    if r <= 16:
        return "radix<=16"
    if any(ch in "ghijklmnopqrstuvwxyz" for ch in txt.lower()):
        return "radix>16,digit>f"
    return "radix>16,digits<=f"


def rnd_radix(rng):
    return rng.choice([2, 3, 7, 8, 10, 16, 36, rng.randrange(2, 37)])


NARY = ("+n", "*n", "<n", "=n", "maxn", "minn", "gcdn", "lcmn")


def gen_case(rng, op):
    """Returns dict(op, expr, expect, a, b, c, used, tag) or None when the drawn operands are outside the domain."""
    ints = True
    if op in ("+", "-", "*", "/", "<", "<=", "=", ">", ">=", "min", "max", "abs", "numerator", "denominator",
              "floor", "ceiling", "round", "truncate", "zero?", "positive?", "negative?", "exact->inexact->exact",
              "number->string10", "+n", "*n", "<n", "=n", "maxn", "minn", "neg", "recip", "number->string-ratio",
              "string->number-ratio", "expt"):
        if rng.random() < 0.35:
            ints = False
    a = rnd_int(rng) if ints or rng.random() < 0.5 else rnd_rat(rng)
    b = rnd_int(rng) if ints or rng.random() < 0.5 else rnd_rat(rng)
    c = rnd_int(rng) if ints or rng.random() < 0.5 else rnd_rat(rng)
    if rng.random() < 0.08:
        b = a
    if rng.random() < 0.05 and isinstance(a, int) and isinstance(b, int) and b != 0:
        a = a * b + rng.choice([-1, 0, 1])            # exact multiples and neighbours
    return build_case(rng, op, a, b, c)


def build_case(rng, op, a, b, c=0):
    fa, fb, fc = Fraction(a), Fraction(b), Fraction(c)
    ia = int(a) if fa.denominator == 1 else None
    ib = int(b) if fb.denominator == 1 else None
    ic = int(c) if fc.denominator == 1 else None
    used = 2
    e = None
    x = None
    tag = "-"
    if op == "+":
        x, e = "(+ a b)", fa + fb
    elif op == "-":
        x, e = "(- a b)", fa - fb
    elif op == "*":
        x, e = "(* a b)", fa * fb
    elif op == "/":
        if fb == 0:
            return None
        x, e = "(/ a b)", fa / fb
        tag = tag_div(fa, fb)
    elif op == "neg":
        x, e, used = "(- a)", -fa, 1
    elif op == "recip":
        if fa == 0:
            return None
        x, e, used = "(/ a)", 1 / fa, 1
        tag = tag_div(1, fa)
    elif op == "+3":
        x, e = "(+ a b a)", fa + fb + fa
        tag = tag_intermediate([fa + fb])
    elif op == "*3":
        x, e = "(* a b b)", fa * fb * fb
        tag = tag_intermediate([fa * fb])
    elif op == "+n":
        x, e, used = "(+ a b c b)", fa + fb + fc + fb, 3
        tag = tag_intermediate([fa + fb, fa + fb + fc])
    elif op == "*n":
        if max(abs(v.numerator).bit_length() + v.denominator.bit_length() for v in (fa, fb, fc)) > 3000:
            return None
        x, e, used = "(* a b c)", fa * fb * fc, 3
        tag = tag_intermediate([fa * fb])
    elif op == "<n":
        vs = sorted([fa, fb, fc])
        if rng.random() < 0.5:
            fa, fb, fc = vs
        x, e, used = "(< a b c)", sbool(fa < fb < fc), 3
        tag = tag_compare([fa, fb, fc])
    elif op == "=n":
        r = rng.random()
        if r < 0.4:
            fb = fc = fa
        elif r < 0.6:
            fb = fa
        x, e, used = "(= a b c)", sbool(fa == fb == fc), 3
        tag = tag_compare([fa, fb, fc])
    elif op in ("maxn", "minn"):
        f = max if op == "maxn" else min
        x, e, used = "(%s a b c)" % op[:3], f(fa, fb, fc), 3
        # (max a b c) compares (> b a) then (> c hi): every pair may be compared
        tag = tag_compare([fa, fb, fc, fa])
    elif op in ("gcdn", "lcmn"):
        if ia is None or ib is None or ic is None:
            return None
        if op == "gcdn":
            x, e, used = "(gcd a b c)", math.gcd(ia, ib, ic), 3
        else:
            if max(abs(ia), abs(ib), abs(ic)).bit_length() > 2000:
                return None
            l = 0 if 0 in (ia, ib, ic) else math.lcm(ia, ib, ic)
            x, e, used = "(lcm a b c)", l, 3
            if (ia == 0 and ib == 0) or (l == 0 and ic == 0 and (ia == 0 or ib == 0)):
                tag = "lcm2-of-zero-and-zero"
    elif op in ("quotient", "truncate-quotient"):
        if ib in (None, 0) or ia is None:
            return None
        x, e = "(%s a b)" % op, tdiv(ia, ib)
        tag = tag_fixmin_div(ia, ib)
    elif op in ("remainder", "truncate-remainder"):
        if ib in (None, 0) or ia is None:
            return None
        x, e = "(%s a b)" % op, ia - ib * tdiv(ia, ib)
        tag = tag_fixmin_div(ia, ib)
    elif op in ("modulo", "floor-remainder"):
        if ib in (None, 0) or ia is None:
            return None
        x, e = "(%s a b)" % op, ia % ib
        if op == "floor-remainder":
            tag = tag_div(ia, ib)
    elif op == "floor-quotient":
        if ib in (None, 0) or ia is None:
            return None
        x, e = "(floor-quotient a b)", ia // ib
        tag = tag_div(ia, ib)
    elif op == "floor/":
        if ib in (None, 0) or ia is None:
            return None
        x, e = "(call-with-values (lambda () (floor/ a b)) list)", [ia // ib, ia % ib]
        tag = tag_div(ia, ib)
    elif op == "truncate/":
        if ib in (None, 0) or ia is None:
            return None
        q = tdiv(ia, ib)
        x, e = "(call-with-values (lambda () (truncate/ a b)) list)", [q, ia - ib * q]
        tag = tag_fixmin_div(ia, ib)
    elif op == "gcd":
        if ia is None or ib is None:
            return None
        x, e = "(gcd a b)", math.gcd(ia, ib)
    elif op == "lcm":
        if ia is None or ib is None:
            return None
        x, e = "(lcm a b)", (abs(ia * ib) // math.gcd(ia, ib) if ia and ib else 0)
        if ia == 0 and ib == 0:
            tag = "lcm2-of-zero-and-zero"
    elif op == "abs":
        x, e, used = "(abs a)", abs(fa), 1
    elif op == "expt":
        k = rng.randrange(0, 40)
        if rng.random() < 0.2:
            k = -rng.randrange(1, 8)
        if abs(fa.numerator).bit_length() * abs(k) > 12000 or abs(fa.denominator).bit_length() * abs(k) > 12000:
            return None
        if fa == 0 and k < 0:
            return None
        fb = Fraction(k)
        x, e = "(expt a b)", fa ** k
        if fa.denominator != 1:
            tag = "ratio-base," + ("negative-exponent" if k < 0 else "exponent>=0")
            if k > 0 and any((fa ** j).denominator == FIXMAX + 1 for j in range(1, k + 1)):
                tag = "intermediate-denominator=2^62"       # square-and-multiply passes through base^j
    elif op == "exact-integer-sqrt":
        if ia is None:
            return None
        ia = abs(ia)
        fa = Fraction(ia)
        s = math.isqrt(ia)
        x, e, used = "(call-with-values (lambda () (exact-integer-sqrt a)) list)", [s, ia - s * s], 1
    elif op == "square-sqrt":
        if ia is None:
            return None
        s = abs(ia) + rng.choice([0, 0, 1])
        d = rng.choice([0, 0, -1, 1, 2 * s])          # s^2, s^2-1, s^2+1, (s+1)^2-1
        v = s * s + d
        if v < 0:
            return None
        fa = Fraction(v)
        s2 = math.isqrt(v)
        x, e, used = "(call-with-values (lambda () (exact-integer-sqrt a)) list)", [s2, v - s2 * s2], 1
    elif op == "numerator":
        x, e, used = "(numerator a)", fa.numerator, 1
    elif op == "denominator":
        x, e, used = "(denominator a)", fa.denominator, 1
    elif op == "floor":
        x, e, used = "(floor a)", math.floor(fa), 1
    elif op == "ceiling":
        x, e, used = "(ceiling a)", math.ceil(fa), 1
    elif op == "round":
        x, e, used = "(round a)", round(fa), 1
    elif op == "truncate":
        x, e, used = "(truncate a)", math.trunc(fa), 1
    elif op in ("<", "<=", "=", ">", ">="):
        pyop = {"<": fa < fb, "<=": fa <= fb, "=": fa == fb, ">": fa > fb, ">=": fa >= fb}[op]
        x, e = "(%s a b)" % op, sbool(pyop)
        tag = tag_compare([fa, fb])
    elif op == "<3":
        x, e = "(< a b a)", False
        tag = tag_compare([fa, fb, fa])
    elif op == "=3":
        x, e = "(= a b a)", sbool(fa == fb)
        tag = tag_compare([fa, fb, fa])
    elif op == "min":
        x, e = "(min a b)", min(fa, fb)
        tag = tag_compare([fa, fb])
    elif op == "max":
        x, e = "(max a b)", max(fa, fb)
        tag = tag_compare([fa, fb])
    elif op == "zero?":
        x, e, used = "(zero? a)", sbool(fa == 0), 1
        tag = tag_compare([fa, 0])
    elif op == "positive?":
        x, e, used = "(positive? a)", sbool(fa > 0), 1
        tag = tag_compare([fa, 0])
    elif op == "negative?":
        x, e, used = "(negative? a)", sbool(fa < 0), 1
        tag = tag_compare([fa, 0])
    elif op == "odd?":
        if ia is None:
            return None
        x, e, used = "(odd? a)", sbool(ia % 2 == 1), 1
    elif op == "even?":
        if ia is None:
            return None
        x, e, used = "(even? a)", sbool(ia % 2 == 0), 1
    elif op == "number->string":
        if ia is None:
            return None
        r = rnd_radix(rng)
        fb = Fraction(r)
        x, e = "(number->string a b)", tostr(ia, r)
    elif op == "number->string-ratio":
        r = rnd_radix(rng)
        fb = Fraction(r)
        x, e = "(number->string a b)", tostr_rat(fa, r)
    elif op == "number->string10":
        x, e, used = "(number->string a)", lit(fa), 1
    elif op == "string->number":
        if ia is None:
            return None
        r = rnd_radix(rng)
        if r > 16 and rng.random() < 0.5:
            r = 16                               # keep most traffic in the common range
        txt = tostr(ia, r)
        if rng.random() < 0.3:
            txt = txt.upper()
        if ia >= 0 and rng.random() < 0.1:
            txt = "+" + txt
        fb = Fraction(r)
        x, e = '(string->number "%s" b)' % txt, ia     # operand a is bound but not used by the expression
        tag = tag_radix(r, txt)
    elif op == "string->number-ratio":
        r = rng.choice([10, 10, 2, 8, 16, 16, rng.randrange(2, 17)])
        k = rng.choice([1, 1, 3, 1 << 64])
        n, d = fa.numerator * k, fa.denominator * k
        txt = tostr(n, r) + "/" + tostr(d, r) if fa.denominator != 1 or rng.random() < .5 else tostr(n // k, r)
        fb = Fraction(r)
        x, e = '(string->number "%s" b)' % txt, fa
        if r == 10:
            tag = "radix10"
        elif "/" not in txt:
            tag = "integer-text"
        else:
            # chibi: numerator digits accumulate in a fixnum and switch to sexp_read_bignum on overflow
            tag = "radix!=10," + ("bignum-numerator" if not in_fix(abs(n)) else "fixnum-numerator")
    elif op == "exact->inexact->exact":
        # exactly representable: m * 2^k, |m| < 2^53
        m = rng.getrandbits(rng.choice([1, 10, 52, 53])) * rng.choice([1, -1])
        k = rng.choice([0, 1, 10, 11, 61, 62, 63, 64, 100, 500, 970, -1, -10, -52, -100, -1000, -1021, -1022, -1023, -1024,
                        -1025, -1030, -1074])
        v = Fraction(m) * (Fraction(2) ** k)
        if v != 0 and not (Fraction(2) ** -1074 <= abs(v) < Fraction(2) ** 1024):
            return None
        if v != 0 and abs(v) < Fraction(2) ** -1022:
            # subnormal: needs m*2^k to be a multiple of 2^-1074
            if (v / Fraction(2) ** -1074).denominator != 1:
                return None
        fa = v
        x, e, used = "(exact (inexact a))", v, 1
        # sexp_ratio_to_double divides (double)num by (double)den
        tag = "denominator>=2^1024" if v.denominator >= (1 << 1024) else "denominator<2^1024"
        if v == FIXMAX + 1:
            tag = "value=fixmax+1"
    elif op == "inexact=":
        m = rng.getrandbits(53) * rng.choice([1, -1])
        k = rng.choice([0, 1, 10, 64, 200, 900])
        v = m * (1 << k)
        fa = Fraction(v)
        x, e, used = "(= (inexact a) a)", True, 1
    elif op == "exact-of-double":
        m = rng.getrandbits(rng.choice([1, 1, 20, 53])) * rng.choice([1, -1])
        k = rng.choice([0, 1, -1, -5, -30, -52, -200, -1000, -1022, -1074, 10, 61, 62, 63, 64, 300, 900])
        v = Fraction(m) * (Fraction(2) ** k)
        if v != 0 and not (Fraction(2) ** -1074 <= abs(v) < Fraction(2) ** 1000):
            return None
        fa = Fraction(m)
        fb = Fraction(k)
        # (expt 2. k) is a power of two (exact in binary floating point, subnormals included) and |m| < 2^53,
        # so the product is exact whenever m*2^k is representable, which holds for all k >= -1074 here
        x, e = "(exact (* (inexact a) (expt 2. b)))", v
        tag = "result:" + klass(v)
    else:
        raise ValueError(op)
    if used < 3:
        fc = Fraction(0)
    if used < 2:
        fb = Fraction(0)
    return {"op": op, "expr": x, "expect": e, "a": canon(fa), "b": canon(fb), "c": canon(fc), "used": used, "tag": tag}


OPS = ["+", "-", "*", "/", "neg", "recip", "+3", "*3", "quotient", "remainder", "modulo", "truncate-quotient",
       "truncate-remainder", "floor-quotient", "floor-remainder", "floor/", "truncate/", "gcd", "lcm", "abs", "expt",
       "exact-integer-sqrt", "square-sqrt", "numerator", "denominator", "floor", "ceiling", "round", "truncate",
       "<", "<=", "=", ">", ">=", "<3", "=3", "min", "max", "zero?", "positive?", "negative?", "odd?", "even?",
       "number->string", "number->string10", "number->string-ratio", "string->number", "string->number-ratio",
       "exact->inexact->exact", "inexact=", "exact-of-double", "+n", "*n", "<n", "=n", "maxn", "minn", "gcdn", "lcmn"]

DIV_OPS = ["quotient", "remainder", "modulo", "floor/", "truncate/", "/", "gcd", "floor-quotient", "floor-remainder",
           "truncate-quotient", "truncate-remainder", "lcm"]


def gen_division(rng):
    """a = q*d + r with word patterns that steer sexp_bignum_quot_rem: the estimate is (top two words of a) /
    (top two words of d) -- shifted by half a word when both top words are below 2^32 -- or, when that is 0,
    (top two words of a) / (top word of d); an overshoot flips the sign of the running remainder."""
    if rng.random() < 0.04:
        # fixnum / bignum border: |a| < |d| does not hold for -2^62 over 2^62
        a = rng.choice([FIXMIN, FIXMIN, FIXMIN + 1, FIXMAX, -(FIXMAX + 1) - 1, FIXMAX + 1])
        d = rng.choice([FIXMAX + 1, FIXMAX + 1, FIXMAX + 2, -(FIXMAX + 2), FIXMIN, FIXMAX])
        return build_case(rng, rng.choice(DIV_OPS), a, d)
    dl = rng.choice([1, 2, 2, 2, 3, 3, 3, 4, 5, 8])
    d = rnd_words(rng, dl)
    style = rng.random()
    if style < 0.25 and dl >= 2:
        # top words of a equal the top words of d: estimate 1, true quotient digit 0 or 1 depending on low words
        low = W * rng.randrange(1, dl)
        hi = d >> low << low
        a = (hi | rng.getrandbits(low)) if rng.random() < 0.5 else (hi | ((1 << low) - 1 if rng.random() < 0.5 else 0))
        a = (a << (W * rng.randrange(0, 3))) + rng.choice([0, 0, 1, ONES])
    elif style < 0.45:
        # quotient with extreme words: all ones / zero / one
        q = rnd_words(rng, rng.choice([1, 1, 2, 2, 3, 4]))
        r = rng.choice([0, 1, d - 1, d - 2 if d > 2 else 0, rng.randrange(d)])
        a = q * d + r
    elif style < 0.6 and dl >= 3:
        # both top words below 2^32 (half-word refinement branch)
        d = (d & ((1 << (W * (dl - 1))) - 1)) | ((rng.getrandbits(rng.choice([1, 16, 31, 32])) or 1) << (W * (dl - 1)))
        q = rnd_words(rng, rng.choice([1, 2, 3]))
        a = q * d + rng.choice([0, 1, d - 1, rng.randrange(d)])
        if rng.random() < 0.5:
            al = (a.bit_length() + W - 1) // W
            a = (a & ((1 << (W * (al - 1))) - 1)) | ((rng.getrandbits(rng.choice([1, 16, 31, 32])) or 1) << (W * (al - 1)))
    elif style < 0.8 and dl >= 2:
        # a's top two words just below d's top two words: first estimate is 0, falls back to the one-word divisor
        al = dl + rng.choice([1, 1, 2, 3])
        top2 = d >> (W * (dl - 2))
        t = max(1, top2 - rng.choice([1, 1, 2, 1 << 32, 1 << 63, rng.randrange(1, top2 + 1)]))
        a = (t << (W * (al - 2))) | rng.getrandbits(W * (al - 2))
        if rng.random() < 0.3:
            a |= (1 << (W * (al - 2))) - 1
    else:
        # q*d +- 1 (exact multiples and their neighbours), d of special form 2^(64k) +- 1
        if rng.random() < 0.5:
            d = (1 << (W * rng.randrange(1, 5))) + rng.choice([-1, 1, 0])
        q = rnd_words(rng, rng.choice([1, 2, 3, 5]))
        a = q * d + rng.choice([-1, 0, 1])
    if d == 0:
        d = 1
    if rng.random() < 0.5:
        a = -a
    if rng.random() < 0.5:
        d = -d
    return build_case(rng, rng.choice(DIV_OPS), a, d)


def gen_multiplication(rng):
    al = rng.choice([1, 2, 2, 3, 3, 4, 5, 6, 7, 8, 9, 12, 14])
    bl = rng.choice([1, 2, 2, 3, 3, 4, 5, 6, 7, 8]) if rng.random() < 0.7 else al
    a = rnd_words(rng, al) * rng.choice([1, -1])
    b = rnd_words(rng, bl) * rng.choice([1, -1])
    op = rng.choice(["*", "*", "*", "*3", "*n", "expt", "lcm", "square-sqrt", "+", "-"])
    if op == "expt" and al > 6:
        op = "*"
    return build_case(rng, op, a, b, rng.choice([a, b, -1, 1 << 64, ONES]))


def gen_ratio_compare(rng):
    """p/q vs r/s with cross products p*s and r*q close to the fixnum limits."""
    while True:
        q = rng.choice([1, 2, 3, 5, 7, 1 << 10, 1048577, 1 << 45, (1 << 31) - 1])
        s = rng.choice([1, 2, 3, 5, 7, 1 << 17, 1048577, (1 << 31) - 1])
        t1 = rng.choice([FIXMIN, FIXMIN + 1, FIXMAX, -(1 << 61), (1 << 61) + 5, -(1 << 61) - 9, 1 << 60, rng.randrange(FIXMIN, FIXMAX)])
        t2 = rng.choice([0, 1, -1, FIXMAX, FIXMIN, (1 << 61) + 3, -(1 << 61) - 3, rng.randrange(FIXMIN, FIXMAX)])
        p = tdiv(t1, s) + rng.choice([0, 0, 1, -1])
        r = tdiv(t2, q) + rng.choice([0, 0, 1, -1])
        a, b = Fraction(p, q), Fraction(r, s)
        if a.denominator == 1 and b.denominator == 1:
            continue
        op = rng.choice(["<", "<=", "=", ">", ">=", "min", "max", "positive?", "negative?", "zero?", "<n", "maxn", "minn", "=n", "<3"])
        return build_case(rng, op, a, b, rng.choice([a, b, 0, Fraction(1, 2)]))


BORDER_OPS = ["neg", "abs", "-", "+", "*", "/", "recip", "numerator", "denominator", "round", "floor", "truncate",
              "ceiling", "+n", "*n", "expt", "<", "max", "number->string10", "exact->inexact->exact"]


def gen_border_ratio(rng):
    """Ratios whose numerator or denominator is -2^62 / 2^62 (the fixnum/bignum border), as operand and as result."""
    d = rng.choice([3, 5, 7, 1048577, (1 << 64) + 1, (1 << 31) - 1])
    t = rng.choice([Fraction(FIXMIN, d), Fraction(FIXMAX + 1, d), Fraction(d, FIXMAX + 1), Fraction(-d, FIXMAX + 1),
                    Fraction(FIXMIN + 1, d), Fraction(FIXMAX, d),
                    # remainders whose double is +-2^62 (rounding doubles the remainder before comparing it)
                    Fraction(-(1 << 61), 3740041238768767123), Fraction(1 << 61, 3740041238768767123),
                    Fraction(-(1 << 61), (1 << 62) - d), Fraction(5 * ((1 << 62) - 3) - (1 << 61), (1 << 62) - 3)])
    u = rng.choice([Fraction(1), Fraction(-1), Fraction(1, d), Fraction(-2, d), Fraction(5), Fraction(rng.randrange(1, 99), d),
                    Fraction(1 << 64), Fraction(-3, 1 << 62)])
    op = rng.choice(BORDER_OPS)
    if rng.random() < 0.5 or op not in ("-", "+", "*", "/"):
        a, b = (t, u) if rng.random() < 0.6 else (u, t)               # border value as operand
    elif op == "-":
        a, b = (t + u, u) if rng.random() < 0.5 else (u, u - t)        # border value as result
    elif op == "+":
        a, b = t - u, u
    elif op == "*":
        a, b = t / u, u
    else:
        a, b = t * u, u
    return build_case(rng, op, a, b, rng.choice([0, 1, t]))


def expected_lit(e):
    if isinstance(e, list):
        return "(list %s)" % " ".join(expected_lit(x) for x in e)
    if isinstance(e, bool):
        return "#t" if e else "#f"
    if isinstance(e, str):
        return '"%s"' % e
    return lit(e)


def canon(e):
    """Python value the parsed observation must equal."""
    if isinstance(e, list):
        return [canon(x) for x in e]
    if isinstance(e, bool) or isinstance(e, str):
        return e
    f = Fraction(e)
    return int(f) if f.denominator == 1 else f


def same(r, e):
    """Structural equality that keeps booleans, strings and numbers apart (Python has True == 1)."""
    if isinstance(e, list):
        return isinstance(r, list) and len(r) == len(e) and all(same(x, y) for x, y in zip(r, e))
    if isinstance(e, bool):
        return isinstance(r, bool) and r == e
    if isinstance(e, str):
        return isinstance(r, str) and not isinstance(r, Sym) and str(r) == e
    if isinstance(r, bool) or isinstance(r, str) or not isinstance(r, (int, Fraction)):
        return False
    return Fraction(r) == Fraction(e)


def is_fix(e):
    if isinstance(e, (bool, str)):
        return False
    f = Fraction(e)
    return f.denominator == 1 and FIXMIN <= int(f) <= FIXMAX


def finish_case(rng, c, cid):
    ra, rta = route(rng, c["a"])
    rb, rtb = route(rng, c["b"])
    rc, rtc = (route(rng, c["c"]) if c["used"] >= 3 else ("0", "literal"))
    e = c["expect"]
    if isinstance(e, (bool, str)) or isinstance(e, list):
        canonchk = "(equal? r %s)" % expected_lit(e)
        fixchk = "#f" if not isinstance(e, list) else "(map fixnum? r)"
    else:
        canonchk = "(eqv? r %s)" % expected_lit(e)
        # integers: fixnum?; ratios: fixnum? of both parts (a part in fixnum range must be a fixnum)
        fixchk = ("(cond ((not (number? r)) #f) ((exact-integer? r) (fixnum? r)) "
                  "((exact? r) (list (fixnum? (numerator r)) (fixnum? (denominator r)))) (else #f))")
    form = ("(%%case %s (let* ((a %s) (b %s) (c %s) (r %s)) (list r %s %s a b c)))"
            % (cid, ra, rb, rc, c["expr"], fixchk, canonchk))
    c.update(id=cid, form=form, routes=(rta, rtb, rtc))
    return c


# ---- lattice cross product (thorough): one case per pair, several operations evaluated in sequence -----------

MULTI = ["+", "-", "*", "quotient", "remainder", "modulo", "gcd", "<", "=", ">="]


def multi_case(a, b, cid):
    """All of MULTI on one lattice pair; let* keeps the evaluation order fixed.  `/` is left to single-op cases
    because it is known to mutate operands, which would contaminate the later sub-results."""
    subs = []
    for op in MULTI:
        if op in ("quotient", "remainder", "modulo") and b == 0:
            continue
        if op == "+":
            e = a + b
        elif op == "-":
            e = a - b
        elif op == "*":
            e = a * b
        elif op == "quotient":
            e = tdiv(a, b)
        elif op == "remainder":
            e = a - b * tdiv(a, b)
        elif op == "modulo":
            e = a % b
        elif op == "gcd":
            e = math.gcd(a, b)
        elif op == "<":
            e = sbool(a < b)
        elif op == "=":
            e = sbool(a == b)
        else:
            e = sbool(a >= b)
        subs.append((op, e))
    binds = " ".join("(r%d (%s a b))" % (i, op) for i, (op, _) in enumerate(subs))
    rl = "(list %s)" % " ".join("r%d" % i for i in range(len(subs)))
    exp = [e for _, e in subs]
    form = ("(%%case %s (let* ((a %d) (b %d) (c 0) %s (r %s)) (list r (map fixnum? r) (equal? r %s) a b c)))"
            % (cid, a, b, binds, rl, expected_lit(exp)))
    return {"op": "multi", "subops": [op for op, _ in subs], "expr": rl, "expect": exp, "a": a, "b": b, "c": 0, "used": 2,
            "tag": "-", "id": cid, "form": form, "routes": ("literal", "literal", "literal")}


def case_sig(c):
    return (c["op"], klass(c["a"]), klass(c["b"]) if c["used"] >= 2 else "-",
            klass(c["c"]) if c["used"] >= 3 else "-", c["tag"])


def operand_state(c, a2, b2, c2):
    """-> (state string, (operand name, route, class) of the first operand that is neither intact nor negated and
    was not a literal, else None)."""
    st = []
    blame = None
    for i, (name, want, got) in enumerate((("a", c["a"], a2), ("b", c["b"], b2), ("c", c["c"], c2))):
        if same(got, want):
            continue
        if not isinstance(got, bool) and isinstance(got, (int, Fraction)) and Fraction(got) == -Fraction(want):
            st.append(name + "-negated")
        else:
            st.append(name + "-changed")
            if blame is None and c["routes"][i] != "literal":
                blame = (name, c["routes"][i], klass(want))
    return ("+".join(st) if st else "intact"), blame


def rclass(e):
    if isinstance(e, list):
        return ",".join(rclass(x) for x in e)
    if isinstance(e, bool):
        return "bool"
    if isinstance(e, str):
        return "string"
    return klass(e)


def judge(rep, c, res):
    """Compare one observation with the model; record violation with a stable signature."""
    sig0 = {"op": c["op"], "a": klass(c["a"]), "b": klass(c["b"]) if c["used"] >= 2 else "-",
            "c": klass(c["c"]) if c["used"] >= 3 else "-", "tag": c["tag"], "operands": "unknown",
            "r": rclass(canon(c["expect"]))}
    wit = {"form": c["form"], "expected": repr(c["expect"]), "routes": c["routes"]}
    if res is None or res.status in ("missing",):
        rep.inconc("no-output", c["id"])
        return
    if res.status == "timeout":
        rep.inconc("timeout", c["form"][:200])
        return
    if res.status == "crash":
        wit["detail"] = res.detail
        rep.violation(dict(sig0, mode="crash"), wit)
        return
    try:
        data = res.data()
    except Exception:                            # unparsable output is an observation too
        wit["got"] = res.text[:500]
        rep.violation(dict(sig0, mode="unparsable-output"), wit)
        return
    if len(data) != 1:
        wit["got"] = res.text[:500]
        rep.violation(dict(sig0, mode="unparsable-output"), wit)
        return
    obs = data[0]
    wit["got"] = res.text.strip()[:600]
    if isinstance(obs, list) and len(obs) == 2 and obs[0] == Sym("err"):
        rep.violation(dict(sig0, mode="error"), wit)
        return
    if not (isinstance(obs, list) and len(obs) == 6):
        rep.violation(dict(sig0, mode="unparsable-output"), wit)
        return
    r, fixp, canonp, a2, b2, c2 = obs
    sig0["operands"], blame = operand_state(c, a2, b2, c2)
    e = canon(c["expect"])
    if blame is not None:
        # an operand that was *computed* (not a literal) has a wrong value that is not the negation of the intended
        # one: the computation route (itself an exact operation) is what failed, not the operation of this case
        rep.violation({"op": "route:" + blame[1], "a": blame[2], "mode": "wrong-result", "via": "operand-route"}, wit)
        return
    if c["op"] == "multi":
        # name the first sub-operation that is wrong, so that signatures agree with the single-operation cases
        if isinstance(r, list) and len(r) == len(e):
            for i, sub in enumerate(c["subops"]):
                if not same(r[i], e[i]):
                    t = tag_fixmin_div(c["a"], c["b"]) if sub in ("quotient", "remainder", "modulo") else "-"
                    rep.violation(dict(sig0, op=sub, tag=t, r=rclass(e[i]), mode="wrong-result", via="lattice-multi"), wit)
                    return
                if isinstance(fixp, list) and len(fixp) == len(e) and fixp[i] != is_fix(e[i]):
                    rep.violation(dict(sig0, op=sub, mode="not-canonical-fixnum", via="lattice-multi"), wit)
                    return
    if not same(r, e):
        rep.violation(dict(sig0, mode="wrong-result"), wit)
        return
    if sig0["operands"] != "intact":
        rep.violation(dict(sig0, mode="operand-mutated"), wit)
        return
    if not isinstance(e, (bool, str)):
        if isinstance(e, list):
            want = [is_fix(x) for x in e]
            if fixp != want:
                rep.violation(dict(sig0, mode="not-canonical-fixnum"), wit)
                return
        elif isinstance(e, Fraction):
            if fixp != [is_fix(e.numerator), is_fix(e.denominator)]:
                rep.violation(dict(sig0, mode="not-canonical-ratio-parts"), wit)
                return
        elif fixp != is_fix(e):
            rep.violation(dict(sig0, mode="not-canonical-fixnum"), wit)
            return
    if canonp is not True:
        rep.violation(dict(sig0, mode="not-eqv-to-literal"), wit)
        return


def case_stream(rng, tier, n):
    """Yields finished cases.  quick: n cases (70% random, 14% crafted division, 8% crafted multiplication,
    5% crafted ratio comparisons, 3% ratios with parts at +-2^62); thorough: the same mix for n cases, then the lattice cross product."""
    made = 0
    i = 0
    tries = 0
    while made < n and tries < n * 20:
        tries += 1
        r = rng.random()
        if r < 0.70:
            op = OPS[(i + rng.randrange(len(OPS))) % len(OPS)] if rng.random() < 0.5 else rng.choice(OPS)
            c = gen_case(rng, op)
            src = "random"
        elif r < 0.84:
            c = gen_division(rng)
            src = "crafted-division"
        elif r < 0.92:
            c = gen_multiplication(rng)
            src = "crafted-multiplication"
        elif r < 0.97:
            c = gen_ratio_compare(rng)
            src = "crafted-ratio-compare"
        else:
            c = gen_border_ratio(rng)
            src = "crafted-border-ratio"
        if c is None:
            continue
        i += 1
        c["src"] = src
        yield finish_case(rng, c, "k%d" % made)
        made += 1
    if tier == "thorough":
        k = 0
        for a in LAT:
            for b in LAT:
                c = multi_case(a, b, "m%d" % k)
                c["src"] = "lattice-cross"
                k += 1
                yield c
        # `/` over a sample of lattice pairs with a negative-free denominator sign mix
        for a in LAT[::3]:
            for b in LAT[1::3]:
                c = build_case(rng, "/", a, b)
                if c is None:
                    continue
                c["src"] = "lattice-div"
                yield finish_case(rng, c, "d%d" % k)
                k += 1


def make_cases(rng, n):
    """n finished cases of the quick mix (used by gc_workload below: C02 / C01 / C09 replay the same cases)."""
    return list(case_stream(rng, "quick", n))


def check(rep, tier, seed, variant="hooks", n=None, env_extra=None):
    rng = random.Random(seed * 7919 + 4)
    b = B.ensure(variant)
    rep.builds.add(variant)
    n = n or (40000 if tier == "quick" else 600000)
    env = {"CHIBI_VERIF_HEAPCHECK": 1}
    env.update(env_extra or {})
    nproc = 0
    chunk = []
    sampled = 0

    def flush():
        nonlocal nproc, sampled
        if not chunk:
            return
        res, procs = C.run_batches(b, IMPORTS, "", [(c["id"], c["form"]) for c in chunk], batch=1000,
                                   env_extra=env, timeout=(60 if tier == "quick" else 180), heap="64M/512M", prelude=PRELUDE)
        for c in chunk:
            rep.case(case_sig(c))
            rep.count("cases_" + c["src"])
            judge(rep, c, res.get(c["id"]))
        for c in chunk[:max(0, 6 - sampled)]:
            sampled += 1
            rep.sample({"form": c["form"], "expected": repr(c["expect"]),
                        "observed": (res[c["id"]].text.strip()[:300] if c["id"] in res else None)})
        for p in procs:
            for l in p.log_lines("HEAPCHECK-FAIL"):
                rep.violation({"op": "heapcheck", "mode": l.split()[1]}, {"line": l})
            for d in p.log_kv("HEAPCHECK-SUMMARY"):
                rep.count("heap_checks", d.get("runs", 0))
                rep.count("heap_objects_checked", d.get("objects", 0))
        nproc += len(procs)
        del chunk[:]

    for c in case_stream(rng, tier, n):
        chunk.append(c)
        if len(chunk) >= 48000:
            flush()
    flush()
    rep.extra["ops"] = len(OPS)
    rep.extra["processes"] = nproc
    rep.rule = ("seeded generators over %d operations (incl. n-ary + * < = max min gcd lcm): (1) random operands from the "
                "boundary lattice (fixnum limits, 2^k and 2^k+-1 up to k=400, all-ones/zero interior words, exact "
                "multiples +-1) and random up to 4000 bits, integers and ratios; (2) crafted division a=q*d+r steering "
                "the quotient-estimate paths of sexp_bignum_quot_rem (equal leading words, leading words < 2^32, zero "
                "estimate, overshoot); (3) crafted word-pattern products of 1..14 words (Karatsuba splits); (4) ratio "
                "comparisons with cross products at the fixnum limits; (5) ratios whose numerator/denominator is +-2^62 as "
                "operand and as result; thorough adds the full lattice cross product "
                "(one multi-operation case per pair).  Operands are built by a random route (literal, add-sub, quotient "
                "with spare words, parsed).  A case is non-trivial by construction; distinct = (operation, class of a, "
                "b, c, tag) with class = sign x {fix, fixedge, fixmin, fixmax+1, big1, big2, bigN, ratio}" % len(OPS))
    rep.assumptions = ["Python int/Fraction/math.isqrt are correct", "the observation reader (vf/sexpr.py) is correct",
                       "chibi's `write` of exact numbers and `fixnum?` are used to observe results (a defect there shows as a mismatch, not as silence)"]


def gc_workload(rng, n):
    """Case files + judge for reuse by C02 (forced collections), C01 (asan) and C09 (cll build)."""
    from .. import report
    cs = make_cases(rng, n)
    byid = {c["id"]: c for c in cs}
    findings, _ = report.load_findings("C04")

    def judge_one(rep, cid, res):
        judge(rep, byid[cid], res)

    def known(sig):
        return any(report._match(f["match"], sig) for f in findings)

    def classify(cid):
        return byid[cid]["op"]

    return {"imports": IMPORTS, "header": "", "cases": [(c["id"], c["form"]) for c in cs], "judge": judge_one,
            "known": known, "classify": classify, "batch": 100, "heap": "64M/512M", "timeout": 180,
            "prelude": PRELUDE}
