"""C04 -- exact arithmetic is mathematically exact at every magnitude (DESIGN.md section 3, C04).

Oracle: Python int / Fraction.  Every case binds its operands (built by a chosen *route*: literal,
arithmetic result, parsed text), applies one operation and prints
    (result  (fixnum? result)  (eqv? result <expected literal>)  operand-a  operand-b)
so that a wrong value, a non-canonical representation and a *mutated operand* are all observable.
"""
import math
import random
from fractions import Fraction

from .. import build as B
from .. import cases as C
from ..sexpr import Sym

FIXMAX = (1 << 62) - 1          # chibi fixnums on 64-bit: 63 bits incl. sign
FIXMIN = -(1 << 62)
IMPORTS = "(import (scheme base) (scheme write) (scheme inexact) (scheme process-context) (only (chibi) fixnum?))"


def lattice(kmax=400):
    vals = {0, 1, -1, 2, -2}
    for d in (-2, -1, 0, 1, 2):
        vals.add(FIXMAX + d)
        vals.add(FIXMIN + d)
    ks = list(range(0, 140)) + [190, 191, 192, 193, 255, 256, 257, 319, 320, 321, 383, 384, 385, kmax]
    for k in ks:
        for d in (-1, 0, 1):
            vals.add((1 << k) + d)
            vals.add(-((1 << k) + d))
    for w in (2, 3, 4, 5):
        vals.add((1 << (64 * w)) - 1)
        vals.add(((1 << 64) - 1) << (64 * (w - 1)))
        vals.add((1 << (64 * w)) + 1)
        vals.add(((1 << (64 * w)) - 1) ^ (((1 << 64) - 1) << 64))
        vals.add(-(((1 << (64 * w)) - 1) ^ (((1 << 64) - 1) << 64)))
    return sorted(vals)


LAT = lattice()


def klass(v):
    if isinstance(v, Fraction) and v.denominator != 1:
        return ("-" if v < 0 else "+") + "ratio"
    v = int(v)
    s = "-" if v < 0 else "+"
    if FIXMIN <= v <= FIXMAX:
        if v in (0,):
            return "zero"
        if v > FIXMAX - 3 or v < FIXMIN + 3:
            return s + "fixedge"
        return s + "fix"
    w = (abs(v).bit_length() + 63) // 64
    return s + ("big%d" % w if w <= 2 else "bigN")


def rnd_int(rng):
    r = rng.random()
    if r < 0.45:
        return rng.choice(LAT)
    bits = rng.choice([8, 30, 61, 62, 63, 64, 65, 100, 127, 128, 129, 200, 256, 500, 1000, 2000, 4000])
    v = rng.getrandbits(bits)
    if rng.random() < 0.3:
        v |= ((1 << 64) - 1) << (64 * rng.randrange(0, max(1, bits // 64)))
    if rng.random() < 0.15:
        v &= ~(((1 << 64) - 1) << (64 * rng.randrange(0, max(1, bits // 64))))
    return -v if rng.random() < 0.5 else v


def rnd_rat(rng):
    while True:
        d = rnd_int(rng)
        if d != 0:
            return Fraction(rnd_int(rng), d)


def lit(v):
    if isinstance(v, Fraction) and v.denominator != 1:
        return "%d/%d" % (v.numerator, v.denominator)
    return str(int(v))


def route(rng, v):
    """Scheme expression that evaluates to exact v, by a randomly chosen computation route."""
    r = rng.random()
    if isinstance(v, Fraction) and v.denominator != 1:
        if r < 0.6:
            return lit(v), "literal"
        if r < 0.8:
            return "(/ %d %d)" % (v.numerator, v.denominator), "division"
        k = rng.choice([2, 3, 1 << 64, 10 ** 20])
        return "(/ %d %d)" % (v.numerator * k, v.denominator * k), "unreduced-division"
    v = int(v)
    if r < 0.5:
        return str(v), "literal"
    if r < 0.65:
        k = rng.choice([1, 1 << 62, 1 << 64, (1 << 200) + 1, 10 ** 30])
        return "(- (+ %d %d) %d)" % (v, k, k), "add-sub"
    if r < 0.8:
        k = rng.choice([1 << 64, 1 << 128, 3 ** 50, 10 ** 25])
        return "(quotient %d %d)" % (v * k, k), "quotient(spare words)"
    if r < 0.9:
        return '(string->number "%s")' % v, "parsed"
    return '(string->number "%s" 16)' % (("-" if v < 0 else "") + format(abs(v), "x")), "parsed-hex"


def tdiv(a, b):
    q = abs(a) // abs(b)
    return q if (a < 0) == (b < 0) else -q


DIGS = "0123456789abcdefghijklmnopqrstuvwxyz"


def tostr(n, r):
    if n == 0:
        return "0"
    s = []
    m = abs(n)
    while m:
        s.append(DIGS[m % r])
        m //= r
    return ("-" if n < 0 else "") + "".join(reversed(s))


def sbool(b):
    return True if b else False


# each op: name -> (arity kinds, function(rng, a, b) -> (expr using a b, expected python value) or None)
def gen_case(rng, op):
    """Returns dict(expr, expect, a, b, sig) or None when the drawn operands are outside the domain."""
    a = b = None
    ints = True
    if op in ("+", "-", "*", "/", "<", "<=", "=", ">", ">=", "min", "max", "abs", "numerator", "denominator",
              "floor", "ceiling", "round", "truncate", "zero?", "positive?", "negative?", "exact->inexact->exact",
              "number->string10"):
        if rng.random() < 0.35:
            ints = False
    a = rnd_int(rng) if ints or rng.random() < 0.5 else rnd_rat(rng)
    b = rnd_int(rng) if ints or rng.random() < 0.5 else rnd_rat(rng)
    if rng.random() < 0.08:
        b = a
    if rng.random() < 0.05 and isinstance(a, int) and isinstance(b, int) and b != 0:
        a = a * b + rng.choice([-1, 0, 1])            # exact multiples and neighbours
    fa, fb = Fraction(a), Fraction(b)
    ia = int(a) if fa.denominator == 1 else None
    ib = int(b) if fb.denominator == 1 else None
    two = True
    e = None
    x = None
    if op == "+":
        x, e = "(+ a b)", fa + fb
    elif op == "-":
        x, e = "(- a b)", fa - fb
    elif op == "*":
        x, e = "(* a b)", fa * fb
    elif op == "/":
        if fb == 0:
            return None
        x, e = "(/ a b)", fa / fb
    elif op == "neg":
        x, e, two = "(- a)", -fa, False
    elif op == "recip":
        if fa == 0:
            return None
        x, e, two = "(/ a)", 1 / fa, False
    elif op == "+3":
        x, e = "(+ a b a)", fa + fb + fa
    elif op == "*3":
        x, e = "(* a b b)", fa * fb * fb
    elif op in ("quotient", "truncate-quotient"):
        if ib in (None, 0) or ia is None:
            return None
        x, e = "(%s a b)" % op, tdiv(ia, ib)
    elif op in ("remainder", "truncate-remainder"):
        if ib in (None, 0) or ia is None:
            return None
        x, e = "(%s a b)" % op, ia - ib * tdiv(ia, ib)
    elif op in ("modulo", "floor-remainder"):
        if ib in (None, 0) or ia is None:
            return None
        x, e = "(%s a b)" % op, ia % ib
    elif op == "floor-quotient":
        if ib in (None, 0) or ia is None:
            return None
        x, e = "(floor-quotient a b)", ia // ib
    elif op == "floor/":
        if ib in (None, 0) or ia is None:
            return None
        x, e = "(call-with-values (lambda () (floor/ a b)) list)", [ia // ib, ia % ib]
    elif op == "truncate/":
        if ib in (None, 0) or ia is None:
            return None
        q = tdiv(ia, ib)
        x, e = "(call-with-values (lambda () (truncate/ a b)) list)", [q, ia - ib * q]
    elif op == "gcd":
        if ia is None or ib is None:
            return None
        x, e = "(gcd a b)", math.gcd(ia, ib)
    elif op == "lcm":
        if ia is None or ib is None:
            return None
        x, e = "(lcm a b)", (abs(ia * ib) // math.gcd(ia, ib) if ia and ib else 0)
    elif op == "abs":
        x, e, two = "(abs a)", abs(fa), False
    elif op == "expt":
        k = rng.randrange(0, 40)
        if rng.random() < 0.2:
            k = -rng.randrange(1, 8)
        if abs(fa.numerator).bit_length() * abs(k) > 12000 or abs(fa.denominator).bit_length() * abs(k) > 12000:
            return None
        if fa == 0 and k < 0:
            return None
        b, fb, ib = k, Fraction(k), k
        x, e = "(expt a b)", fa ** k
    elif op == "exact-integer-sqrt":
        if ia is None:
            return None
        ia = abs(ia)
        a, fa = ia, Fraction(ia)
        s = math.isqrt(ia)
        x, e, two = "(call-with-values (lambda () (exact-integer-sqrt a)) list)", [s, ia - s * s], False
    elif op == "square-sqrt":
        if ia is None:
            return None
        s = abs(ia)
        a, fa, ia = s * s, Fraction(s * s), s * s
        x, e, two = "(call-with-values (lambda () (exact-integer-sqrt a)) list)", [s, 0], False
    elif op == "numerator":
        x, e, two = "(numerator a)", fa.numerator, False
    elif op == "denominator":
        x, e, two = "(denominator a)", fa.denominator, False
    elif op == "floor":
        x, e, two = "(floor a)", math.floor(fa), False
    elif op == "ceiling":
        x, e, two = "(ceiling a)", math.ceil(fa), False
    elif op == "round":
        x, e, two = "(round a)", round(fa), False
    elif op == "truncate":
        x, e, two = "(truncate a)", math.trunc(fa), False
    elif op in ("<", "<=", "=", ">", ">="):
        pyop = {"<": fa < fb, "<=": fa <= fb, "=": fa == fb, ">": fa > fb, ">=": fa >= fb}[op]
        x, e = "(%s a b)" % op, sbool(pyop)
    elif op == "<3":
        x, e = "(< a b a)", False
    elif op == "=3":
        x, e = "(= a b a)", sbool(fa == fb)
    elif op == "min":
        x, e = "(min a b)", min(fa, fb)
    elif op == "max":
        x, e = "(max a b)", max(fa, fb)
    elif op == "zero?":
        x, e, two = "(zero? a)", sbool(fa == 0), False
    elif op == "positive?":
        x, e, two = "(positive? a)", sbool(fa > 0), False
    elif op == "negative?":
        x, e, two = "(negative? a)", sbool(fa < 0), False
    elif op == "odd?":
        if ia is None:
            return None
        x, e, two = "(odd? a)", sbool(ia % 2 == 1), False
    elif op == "even?":
        if ia is None:
            return None
        x, e, two = "(even? a)", sbool(ia % 2 == 0), False
    elif op == "number->string":
        if ia is None:
            return None
        r = rng.choice([2, 3, 7, 8, 10, 16, 36, rng.randrange(2, 37)])
        b, fb, ib = r, Fraction(r), r
        x, e = "(number->string a b)", tostr(ia, r)
    elif op == "number->string10":
        x, e, two = "(number->string a)", lit(fa), False
    elif op == "string->number":
        if ia is None:
            return None
        r = rng.choice([2, 3, 7, 8, 10, 16, 36, rng.randrange(2, 37)])
        if r > 16 and rng.random() < 0.5:
            r = 16                               # radix > 16 may be rejected; keep most traffic in the common range
        txt = tostr(ia, r)
        if rng.random() < 0.3:
            txt = txt.upper()
        b, fb, ib = r, Fraction(r), r
        x, e = "(string->number %s b)" % ('"%s"' % txt), ia
        a, fa, ia = 0, Fraction(0), 0            # operand a unused
    elif op == "string->number-ratio":
        txt = "%d/%d" % (fa.numerator * 3, fa.denominator * 3) if fa.denominator != 1 or rng.random() < .5 else lit(fa)
        x, e, two = '(string->number "%s")' % txt, fa, False
        a, fa, ia = 0, Fraction(0), 0
    elif op == "exact->inexact->exact":
        # exactly representable: m * 2^k, |m| < 2^53
        m = rng.getrandbits(rng.choice([1, 10, 52, 53])) * rng.choice([1, -1])
        k = rng.choice([0, 1, 10, 11, 63, 64, 100, 500, 970, -1, -10, -52, -100, -1000, -1074])
        v = Fraction(m) * (Fraction(2) ** k)
        if v != 0 and not (Fraction(2) ** -1074 <= abs(v) < Fraction(2) ** 1024):
            return None
        if v != 0 and abs(v) < Fraction(2) ** -1022:
            # subnormal: needs m*2^k to be a multiple of 2^-1074
            if (v / Fraction(2) ** -1074).denominator != 1:
                return None
        a, fa = v, v
        ia = int(v) if v.denominator == 1 else None
        x, e, two = "(exact (inexact a))", v, False
    elif op == "inexact=":
        m = rng.getrandbits(53) * rng.choice([1, -1])
        k = rng.choice([0, 1, 10, 64, 200, 900])
        v = m * (1 << k)
        a, fa, ia = v, Fraction(v), v
        x, e, two = "(= (inexact a) a)", True, False
    elif op == "exact-of-double":
        m = rng.getrandbits(rng.choice([1, 20, 53])) * rng.choice([1, -1])
        k = rng.choice([0, 1, -1, -5, -30, -52, -200, -1000, 10, 62, 63, 64, 300, 900])
        v = Fraction(m) * (Fraction(2) ** k)
        if v != 0 and not (Fraction(2) ** -1022 <= abs(v) < Fraction(2) ** 1000):
            return None
        a, fa, ia = m, Fraction(m), m
        b, fb, ib = k, Fraction(k), k
        x, e = "(exact (* (inexact a) (expt 2. b)))", v
    else:
        raise ValueError(op)
    if not two:
        b, fb = 0, Fraction(0)
    return {"op": op, "expr": x, "expect": e, "a": fa if not isinstance(a, int) else a,
            "b": fb if not isinstance(b, int) else b, "two": two}


OPS = ["+", "-", "*", "/", "neg", "recip", "+3", "*3", "quotient", "remainder", "modulo", "truncate-quotient",
       "truncate-remainder", "floor-quotient", "floor-remainder", "floor/", "truncate/", "gcd", "lcm", "abs", "expt",
       "exact-integer-sqrt", "square-sqrt", "numerator", "denominator", "floor", "ceiling", "round", "truncate",
       "<", "<=", "=", ">", ">=", "<3", "=3", "min", "max", "zero?", "positive?", "negative?", "odd?", "even?",
       "number->string", "number->string10", "string->number", "string->number-ratio", "exact->inexact->exact",
       "inexact=", "exact-of-double"]


def expected_lit(e):
    if isinstance(e, list):
        return "(list %s)" % " ".join(expected_lit(x) for x in e)
    if isinstance(e, bool):
        return "#t" if e else "#f"
    if isinstance(e, str):
        return '"%s"' % e
    return lit(e)


def canon(e):
    """Python value the parsed observation must equal."""
    if isinstance(e, list):
        return [canon(x) for x in e]
    if isinstance(e, bool) or isinstance(e, str):
        return e
    f = Fraction(e)
    return int(f) if f.denominator == 1 else f


def same(r, e):
    """Structural equality that keeps booleans, strings and numbers apart (Python has True == 1)."""
    if isinstance(e, list):
        return isinstance(r, list) and len(r) == len(e) and all(same(x, y) for x, y in zip(r, e))
    if isinstance(e, bool):
        return isinstance(r, bool) and r == e
    if isinstance(e, str):
        return isinstance(r, str) and not isinstance(r, Sym) and str(r) == e
    if isinstance(r, bool) or isinstance(r, str) or not isinstance(r, (int, Fraction)):
        return False
    return Fraction(r) == Fraction(e)


def is_fix(e):
    f = Fraction(e)
    return f.denominator == 1 and FIXMIN <= int(f) <= FIXMAX


def make_cases(rng, n):
    out = []
    i = 0
    tries = 0
    while len(out) < n and tries < n * 20:
        tries += 1
        op = OPS[(i + rng.randrange(len(OPS))) % len(OPS)] if rng.random() < 0.5 else rng.choice(OPS)
        c = gen_case(rng, op)
        if c is None:
            continue
        i += 1
        ra, rta = route(rng, c["a"])
        rb, rtb = route(rng, c["b"])
        cid = "k%d" % len(out)
        e = c["expect"]
        if isinstance(e, (bool, str)) or isinstance(e, list):
            canonchk = "(equal? r %s)" % expected_lit(e)
            fixchk = "#f" if not isinstance(e, list) else "(map fixnum? r)"
        else:
            canonchk = "(eqv? r %s)" % expected_lit(e)
            fixchk = "(fixnum? r)"
        form = ("(%%case %s (let* ((a %s) (b %s) (r %s)) (list r %s %s a b)))"
                % (cid, ra, rb, c["expr"], fixchk, canonchk))
        c.update(id=cid, form=form, routes=(rta, rtb))
        out.append(c)
    return out


def judge(rep, c, res):
    """Compare one observation with the model; record violation with a stable signature."""
    sig0 = {"op": c["op"], "a": klass(c["a"]), "b": klass(c["b"]) if c["two"] else "-"}
    wit = {"form": c["form"], "expected": repr(c["expect"]), "routes": c["routes"]}
    if res is None or res.status in ("missing",):
        rep.inconc("no-output", c["id"])
        return
    if res.status == "timeout":
        rep.inconc("timeout", c["form"][:200])
        return
    if res.status == "crash":
        wit["detail"] = res.detail
        rep.violation(dict(sig0, mode="crash"), wit)
        return
    try:
        data = res.data()
    except Exception as ex:                      # unparsable output is an observation too
        wit["got"] = res.text[:500]
        rep.violation(dict(sig0, mode="unparsable-output"), wit)
        return
    if len(data) != 1:
        wit["got"] = res.text[:500]
        rep.violation(dict(sig0, mode="unparsable-output"), wit)
        return
    obs = data[0]
    wit["got"] = res.text.strip()[:600]
    if isinstance(obs, list) and len(obs) == 2 and obs[0] == Sym("err"):
        rep.violation(dict(sig0, mode="error"), wit)
        return
    if not (isinstance(obs, list) and len(obs) == 5):
        rep.violation(dict(sig0, mode="unparsable-output"), wit)
        return
    r, fixp, canonp, a2, b2 = obs
    e = canon(c["expect"])
    if not same(r, e):
        rep.violation(dict(sig0, mode="wrong-result"), wit)
        return
    if not same(a2, canon(c["a"])) or not same(b2, canon(c["b"])):
        rep.violation(dict(sig0, mode="operand-mutated"), wit)
        return
    if not isinstance(e, (bool, str)):
        if isinstance(e, list):
            want = [is_fix(x) for x in e]
            if fixp != want:
                rep.violation(dict(sig0, mode="not-canonical-fixnum"), wit)
                return
        elif fixp != is_fix(e):
            rep.violation(dict(sig0, mode="not-canonical-fixnum"), wit)
            return
    if canonp is not True:
        rep.violation(dict(sig0, mode="not-eqv-to-literal"), wit)
        return


def check(rep, tier, seed, variant="hooks", n=None, env_extra=None):
    rng = random.Random(seed * 7919 + 4)
    b = B.ensure(variant)
    rep.builds.add(variant)
    n = n or (40000 if tier == "quick" else 600000)
    cs = make_cases(rng, n)
    env = {"CHIBI_VERIF_HEAPCHECK": 1}
    env.update(env_extra or {})
    res, procs = C.run_batches(b, IMPORTS, "", [(c["id"], c["form"]) for c in cs], batch=1000,
                               env_extra=env, timeout=120, heap="64M/512M")
    for c in cs:
        rep.case((c["op"], klass(c["a"]), klass(c["b"]) if c["two"] else "-"))
        judge(rep, c, res.get(c["id"]))
    for c in cs[:6]:
        rep.sample({"form": c["form"], "expected": repr(c["expect"]), "observed": (res[c["id"]].text.strip()[:300] if c["id"] in res else None)})
    heapfail = 0
    for p in procs:
        for l in p.log_lines("HEAPCHECK-FAIL"):
            heapfail += 1
            rep.violation({"op": "heapcheck", "mode": l.split()[1]}, {"line": l})
        for d in p.log_kv("HEAPCHECK-SUMMARY"):
            rep.count("heap_checks", d.get("runs", 0))
            rep.count("heap_objects_checked", d.get("objects", 0))
    rep.extra["ops"] = len(OPS)
    rep.extra["processes"] = len(procs)
    rep.rule = ("seeded generator over %d operations; operands from the boundary lattice (fixnum limits, 2^k and 2^k+-1 up to "
                "k=400, all-ones/zero interior words, exact multiples +-1) and random up to 4000 bits, integers and ratios, "
                "each built by a random route (literal, add-sub, quotient with spare words, parsed); a case is non-trivial "
                "by construction, distinct = (operation, class of a, class of b) with class = sign x {fix, fixedge, big1, "
                "big2, bigN, ratio}" % len(OPS))
    rep.assumptions = ["Python int/Fraction/math.isqrt are correct", "the observation reader (vf/sexpr.py) is correct",
                       "chibi's `write` of exact numbers and `fixnum?` are used to observe results (a defect there shows as a mismatch, not as silence)"]
