"""C01 -- evaluating any program never corrupts memory; errors stay contained (DESIGN.md 3, C01).

Build: asan-rz = AddressSanitizer + red zones *inside* the Scheme heap (hook H1: every object is followed by
>= 32 poisoned bytes, free chunks are poisoned) + a UBSan subset.  Driver: native/evalseq.c evaluates items
through the C API with no Scheme handler, so each item must end in "V <type>" (a value) or "E <kind>" (an
error object returned to the embedding caller); after every error a fixed probe program is evaluated in the
SAME context and must print what it printed in the fresh context.
Workloads: (c) primitive x hostile-argument matrix over every name exported by the R7RS-small libraries and
every VM primitive of opcodes.c, plus boundary tuples for indexed operations; (a) reader inputs (valid texts,
grammar-aware mutations, raw bytes) through read / load / eval; (b) malformed core and derived forms.
"""
import glob
import os
import random
import re
import shutil

from .. import build as B
from .. import run as R

R7RS_LIBS = ["base", "case-lambda", "char", "complex", "cxr", "eval", "file", "inexact", "lazy", "load",
             "process-context", "read", "repl", "time", "write"]
EXCLUDE = {"exit", "emergency-exit"}
# primitives whose *purpose* is to replace interpreter state (environment, handler, wind point, thread parameters):
# calling them changes what later programs do by design, so the "same behaviour afterwards" probe is not judged
# after them (memory safety still is)
STATE_SETTERS = {"set-current-environment!", "thread-parameters-set!", "%dk", "current-exception-handler",
                 "set-port-fold-case!", "set-port-line!", "register-optimization!", "add-module-directory",
                 "make-immutable!", "warn-undefs", "%import", "%load", "current-environment", "%meta-env",
                 "current-module-path", "slot-set!", "make-setter", "reverse!", "string-cursor-set!",
                 "current-output-port", "current-input-port", "current-error-port", "flush-output", "yield!"}

POOL_SETUP = r"""
(define-record-type <point> (make-point x y) point? (x point-x set-point-x!) (y point-y))
(define p-cyc (let ((l (list 1 2 3))) (set-cdr! (cddr l) l) l))
(define p-fresh-s (make-string 3 #\a))
(define p-multi (string #\a (integer->char 955) (integer->char #x1F600) #\z))
(define p-long (make-string 1000 #\q))
(define p-closed (let ((p (open-input-string "closed"))) (close-input-port p) p))
(define p-in (open-input-string "(a b) 42 \"str\" tail"))
(define p-out (open-output-string))
(define p-rec (make-point 1 2))
(define p-cur (string-cursor-start "xyz"))
(define p-curend (string-cursor-end p-long))
(define p-vec (vector 1 2 3))
(define p-bv (bytevector 1 2 255))
(define p-list (list 1 2 3))
(define p-param (make-parameter 1))
(define p-promise (delay 1))
(define p-exn (call-with-current-continuation (lambda (k) (with-exception-handler k (lambda () (car 5))))))
(define p-badchar (call-with-current-continuation (lambda (k) (with-exception-handler (lambda (e) (k #\x)) (lambda () (integer->char #xD800))))))
"""

# (name, source text) -- every argument is one of these
POOL = [
    ("fix0", "0"), ("fix1", "1"), ("fixm1", "-1"), ("fix2", "2"), ("fix7", "7"),
    ("fixmax", "4611686018427387903"), ("fixmin", "-4611686018427387904"),
    ("big", "4611686018427387904"), ("bigneg", "-18446744073709551617"), ("huge", "(expt 2 200)"),
    ("ratio", "1/2"), ("ratneg", "-7/3"), ("flo0", "0.0"), ("flom0", "-0.0"), ("flo", "1.5"), ("flobig", "1e308"),
    ("inf", "+inf.0"), ("ninf", "-inf.0"), ("nan", "+nan.0"), ("cpx", "1+2i"), ("cpxf", "1.5-2.5i"),
    ("chara", "#\\a"), ("charl", "(integer->char 955)"), ("charmax", "(integer->char #x10FFFF)"), ("charbad", "p-badchar"),
    ("strempty", "\"\""), ("strlit", "\"abc\""), ("strfresh", "p-fresh-s"), ("strmulti", "p-multi"), ("strlong", "p-long"),
    ("sym", "'a"), ("symodd", "'|hello world|"), ("nil", "'()"), ("list", "p-list"), ("listlit", "'(1 2 3)"),
    ("improper", "'(1 . 2)"), ("cyclic", "p-cyc"), ("nested", "'((1 (2 #(3))) \"s\" #\\c)"),
    ("vec0", "(vector)"), ("vec", "p-vec"), ("veclit", "#(1 2)"), ("bv0", "(bytevector)"), ("bv", "p-bv"),
    ("portin", "p-in"), ("portclosed", "p-closed"), ("portout", "p-out"), ("eof", "(eof-object)"),
    ("car", "car"), ("varargs", "(lambda args args)"), ("thunk", "(lambda () 1)"), ("ident", "(lambda (x) x)"),
    ("rec", "p-rec"), ("rectype", "<point>"), ("cursor", "p-cur"), ("cursorend", "p-curend"),
    ("true", "#t"), ("false", "#f"), ("void", "(if #f #f)"), ("env", "(interaction-environment)"),
    ("promise", "p-promise"), ("param", "p-param"), ("exn", "p-exn"),
]

INDEXED = [
    # (template with {s} sequence and {i}/{j} indices, sequence kinds)
    ("(string-ref {s} {i})", "s"), ("(string-set! {s} {i} #\\x)", "S"), ("(substring {s} {i} {j})", "s"),
    ("(string-copy {s} {i} {j})", "s"), ("(string-copy! {S2} {i} {s} {j})", "s"), ("(string-copy! {S2} {i} {s} {j} {k})", "s"),
    ("(string-fill! {s} #\\z {i} {j})", "S"), ("(string->list {s} {i} {j})", "s"), ("(string->vector {s} {i} {j})", "s"),
    ("(string->utf8 {s} {i} {j})", "s"), ("(utf8->string {b} {i} {j})", "b"), ("(vector-ref {v} {i})", "v"),
    ("(vector-set! {v} {i} 0)", "v"), ("(vector-copy {v} {i} {j})", "v"), ("(vector-copy! {V2} {i} {v} {j} {k})", "v"),
    ("(vector-fill! {v} 0 {i} {j})", "v"), ("(vector->list {v} {i} {j})", "v"), ("(vector->string (vector #\\a #\\b #\\c) {i} {j})", "v"),
    ("(subvector {v} {i} {j})", "v"), ("(bytevector-u8-ref {b} {i})", "b"), ("(bytevector-u8-set! {b} {i} 7)", "b"),
    ("(bytevector-u8-set! {b} 0 {i})", "b"), ("(bytevector-copy {b} {i} {j})", "b"), ("(bytevector-copy! {B2} {i} {b} {j} {k})", "b"),
    ("(list-ref {l} {i})", "l"), ("(list-tail {l} {i})", "l"), ("(list-copy {l})", "l"), ("(make-vector {i} 0)", "n"),
    ("(make-string {i} #\\a)", "n"), ("(make-bytevector {i} 0)", "n"), ("(make-list {i} 0)", "n"), ("(integer->char {i})", "n"),
    ("(number->string 255 {i})", "n"), ("(string->number \"ff\" {i})", "n"), ("(exact-integer-sqrt {i})", "n"),
    ("(expt 2 {i})", "n"), ("(expt {i} {j})", "n"), ("(arithmetic-shift 1 {i})", "n"), ("(string-cursor-ref {s} {i})", "s"),
    ("(substring-cursor {s} {i} {j})", "s"), ("(string-index->cursor {s} {i})", "s"), ("(string-cursor->index {s} {i})", "s"),
    ("(string-cursor-next {s} {i})", "s"), ("(string-cursor-prev {s} {i})", "s"), ("(string-cursor-ref {s} (string-cursor-end {S2}))", "s"),
    ("(read-string {i} (open-input-string \"hello\"))", "n"), ("(read-bytevector {i} (open-input-bytevector (bytevector 1 2 3)))", "n"),
    ("(write-string {s} (open-output-string) {i} {j})", "s"), ("(write-bytevector {b} (open-output-bytevector) {i} {j})", "b"),
    ("(vector-map + {v} (make-vector {i} 1))", "v"), ("(string-map char-upcase {s} (make-string {i} #\\a))", "s"),
    ("(apply + (make-list {i} 1))", "n"), ("(exact (expt 2. {i}))", "n"), ("(char-upcase (integer->char {i}))", "n"),
    ("(list->string (list #\\a (integer->char {i})))", "n"), ("(string #\\a (integer->char {i}))", "n"),
    ("(quotient {i} {j})", "n"), ("(remainder {i} {j})", "n"), ("(modulo {i} {j})", "n"), ("(exact->inexact {i})", "n"),
]
SEQS = {
    "s": ["\"\"", "\"abc\"", "(make-string 4 #\\a)", "(string #\\a (integer->char 955) (integer->char #x1F600))", "(make-string 40 (integer->char 955))"],
    "S": ["(make-string 4 #\\a)", "(string #\\a (integer->char 955) (integer->char #x1F600))", "(string-copy \"abcdef\")", "\"lit\""],
    "v": ["(vector)", "(vector 1 2 3)", "#(1 2)", "(make-vector 33 0)"],
    "b": ["(bytevector)", "(bytevector 1 2 255)", "(make-bytevector 33 1)"],
    "l": ["'()", "(list 1 2 3)", "'(1 . 2)", "p-cyc"],
    "n": ["0"],
}
LENS = {"\"\"": 0, "\"abc\"": 3, "(make-string 4 #\\a)": 4, "(string #\\a (integer->char 955) (integer->char #x1F600))": 3,
        "(make-string 40 (integer->char 955))": 40, "(string-copy \"abcdef\")": 6, "\"lit\"": 3, "(vector)": 0,
        "(vector 1 2 3)": 3, "#(1 2)": 2, "(make-vector 33 0)": 33, "(bytevector)": 0, "(bytevector 1 2 255)": 3,
        "(make-bytevector 33 1)": 33, "'()": 0, "(list 1 2 3)": 3, "'(1 . 2)": 1, "p-cyc": 3, "0": 5}


def index_values(n):
    return ["-1", "0", str(max(n - 1, 0)), str(n), str(n + 1), "4611686018427387903", "-4611686018427387904",
            "4611686018427387904", "1.0", str(n // 2), "18446744073709551616", "-2"]


def exported_names(src):
    names = {}
    for lib in R7RS_LIBS:
        text = open(os.path.join(src, "lib/scheme/%s.sld" % lib)).read()
        m = re.search(r"\(export\b", text)
        if not m:
            continue
        depth = 0
        i = m.start()
        j = i
        while j < len(text):
            if text[j] == "(":
                depth += 1
            elif text[j] == ")":
                depth -= 1
                if depth == 0:
                    break
            j += 1
        body = re.sub(r";[^\n]*", "", text[m.end():j])
        body = re.sub(r"\(rename\s+(\S+)\s+(\S+)\)", r"\2", body)
        for tok in body.split():
            tok = tok.strip("()")
            if tok:
                names.setdefault(tok, lib)
    return names


def opcode_names(src):
    text = open(os.path.join(src, "opcodes.c")).read()
    out = set()
    for line in text.split("\n"):
        if re.match(r"^_(OP|FN\w*|PARAM)\(", line):
            strs = re.findall(r'"([^"]+)"', line)
            if strs:
                out.add(strs[0])
    return sorted(out)


# ---------------------------------------------------------------------------------------------------
# reader / evaluator inputs

READER_SEEDS = [
    "42", "-17", "#x-ff", "#b101", "#e1.5", "#i3/4", "1/2", "-1.5e10", "+inf.0", "-nan.0", "1+2i", "+i", "1@2", ".5", "1.", "#d1e2",
    "#\\a", "#\\space", "#\\x3bb", "#\\x10FFFF", "#\\newline", "\"abc\"", "\"a\\nb\\t\\\"q\\\\\"", "\"\\x3bb;\"", "\"line\\\n   cont\"",
    "abc", "|hello world|", "|a\\x41;b|", "...", "+", "-", "1+", "a.b", "#t", "#f", "#true", "#false",
    "(a b c)", "(a . b)", "(a b . c)", "()", "#(1 2 3)", "#()", "#u8(1 2 255)", "#u8()", "'a", "`(a ,b ,@c)", "#;(x y) z",
    "#|block #|nested|# comment|# 5", "; line comment\n7", "#0=(a b . #0#)", "#1=(1 #1# 2)", "(#0=(x) #0# #0#)", "#0=#(a #0#)",
    "(define (f x) (* x x))", "(let loop ((i 0)) (if (< i 3) (loop (+ i 1)) i))", "#!fold-case ABC", "#!no-fold-case abc",
    "#f32(1.0 2.5)", "#s8(-1 2)", "#u16(1 65535)", "(((((((((()))))))))) ", "\"\\a\\b\"", "#\\x0", "#\\delete", "#e1e400", "1e400",
    "#x1/2", "#o777", "-0.0", "123456789012345678901234567890", "#e.5e-3", "#i#x10", "#x#i10", "'#(a #u8(1) \"s\" #\\c 1.5 (x . y))",
    "#0=#(a #0# #0#)", "#0=(#0# #0#)", "#0=#(#1=(#0# #1# . #1#) #0# #1#)", "#0=(#1=#(#0# #1#) . #0#)",
    "#0=(#1=#(#0# #1#) #0#)", "#0=(#1=#(#0# #1#) .#0=(a b . #0#)#t #0#)", "#0=(#1=#(#0# #1#) #1#)",
]
MUT_TOKENS = ["(", ")", "#(", "#u8(", "'", "`", ",", ",@", ".", "#;", "#|", "|#", "\"", "|", "#\\", "#\\x", "\\x", ";", "#0=", "#0#", "#1=",
              "#99#", "#x", "#e", "#i", "#b", "#d", "#o", "/", "e", "+", "-", "i", "@", "#!", "#t", "#f", "\\", "\n", " ", "#", "..",
              "\x00", "\xff", "\xc3", "\xe2\x82", "\xf0\x9f\x98", "\xed\xa0\x80", "\xf4\x90\x80\x80", "9" * 40, "a" * 300]


def mutate(rng, s):
    b = s
    for _ in range(rng.randrange(1, 4)):
        k = rng.random()
        pos = rng.randrange(len(b) + 1)
        if k < 0.35:
            b = b[:pos] + rng.choice(MUT_TOKENS) + b[pos:]
        elif k < 0.55 and b:
            q = rng.randrange(pos, len(b) + 1)
            b = b[:pos] + b[q:]
        elif k < 0.7 and b:
            q = rng.randrange(pos, len(b) + 1)
            b = b[:q] + b[pos:q] + b[q:]
        elif k < 0.85:
            b = b[:pos]
        else:
            b = b[:pos] + rng.choice(READER_SEEDS) + b[pos:]
    return b


def reader_inputs(rng, n):
    out = []
    for s in READER_SEEDS:
        out.append(("seed", s))
    for depth in (10, 100, 1000, 10000):
        out.append(("nest%d" % depth, "(" * depth + "x" + ")" * depth))
        out.append(("nestvec%d" % depth, "#(" * depth + ")" * depth))
        out.append(("quote%d" % depth, "'" * depth + "x"))
        out.append(("unclosed%d" % depth, "(" * depth))
    # token-buffer boundaries: the reader collects strings, |symbols| and atoms in a buffer that starts at 128 bytes and
    # doubles; put runs of multi-byte characters and of \x...; escapes (which expand to 2-4 bytes each) right at the limits
    for base in (128, 256, 512, 1024):
        for off in range(base - 9, base + 2):
            for unit, uname in (("\\x3bb;", "esc2"), ("\\x20ac;", "esc3"), ("\\x1F600;", "esc4"), ("\u03bb", "raw2"), ("\U0001F600", "raw4"),
                                ("\\n", "escn"), ("\\x41;", "esc1")):
                for run in (2, 5, 60):
                    if (off + run) % 3 and run == 5:
                        continue                      # thin out: keep the grid small
                    out.append(("strbuf-%s" % uname, "\"" + "a" * off + unit * run + "\""))
                    if run == 2:
                        out.append(("symbuf-%s" % uname, "|" + "b" * off + unit * run + "|"))
            out.append(("atombuf", "c" * off))
            out.append(("numbuf", "1" * off))
            out.append(("numbuf-frac", "1." + "3" * off))
            out.append(("charbuf", "#\\" + "x" * off))
    out.append(("longtoken", "a" * 100000))
    out.append(("longnum", "9" * 50000))
    out.append(("longstr", "\"" + "s" * 200000 + "\""))
    while len(out) < n:
        k = rng.random()
        if k < 0.75:
            out.append(("mut", mutate(rng, rng.choice(READER_SEEDS))))
        elif k < 0.9:
            out.append(("bytes", "".join(chr(rng.choice([rng.randrange(32, 127), rng.randrange(1, 256), 40, 41, 35, 34])) for _ in range(rng.randrange(1, 60)))))
        else:
            out.append(("splice", " ".join(rng.choice(READER_SEEDS) for _ in range(rng.randrange(2, 6)))))
    return out


FORMS = [
    "(lambda (x) x)", "(lambda (x . r) r)", "(lambda args args)", "(define v 1)", "(define (f x) x)", "(set! undefined-var 1)",
    "(if #t 1 2)", "(let ((a 1) (b 2)) (+ a b))", "(let* ((a 1) (b a)) b)", "(letrec ((f (lambda () 1))) (f))",
    "(let loop ((i 0)) (if (< i 2) (loop (+ i 1)) i))", "(do ((i 0 (+ i 1))) ((= i 2) i))", "(case 1 ((1 2) 'a) (else 'b))",
    "(cond ((assv 1 '((1 . 2))) => cdr) (else 0))", "(and 1 2)", "(or #f 2)", "(when #t 1)", "(unless #f 1)", "(begin 1 2)",
    "(quasiquote (a (unquote (+ 1 2)) (unquote-splicing (list 1 2))))", "(define-syntax m (syntax-rules () ((_ a) a)))",
    "(let-syntax ((m (syntax-rules () ((_ a ...) (list a ...))))) (m 1 2))", "(define-record-type r (mk a) r? (a ra))",
    "(define-values (a b) (values 1 2))", "(let-values (((a b) (values 1 2))) a)", "(parameterize () 1)", "(guard (e (#t 1)) (raise 2))",
    "(case-lambda ((a) a) ((a b) b))", "(delay 1)", "(import (scheme base))", "(quote x)", "(let () 5)", "(letrec* ((a 1)) a)",
    "(syntax-rules (lit) ((_ lit a ... . r) (a ...)))", "(include \"nonexistent-file\")", "(cond-expand (chibi 1) (else 2))",
]


def tokens(s):
    return re.findall(r"\(|\)|[^\s()]+", s)


def malformed_forms(rng, n):
    out = []
    for f in FORMS:
        out.append(("form", f))
        t = tokens(f)
        for i in range(len(t)):                               # drop each token once (unbalanced and balanced results)
            out.append(("drop", " ".join(t[:i] + t[i + 1:])))
    fillers = ["5", "\"s\"", "()", "(1 . 2)", "#(1)", "x", "(x)", "((x))", ".", "#t", "lambda", "define", "...", "_", "else", "=>", "unquote"]
    while len(out) < n:
        f = rng.choice(FORMS)
        t = tokens(f)
        k = rng.random()
        i = rng.randrange(len(t))
        if k < 0.4:
            t[i] = rng.choice(fillers)
        elif k < 0.6:
            t = t[:i] + [rng.choice(fillers)] + t[i:]
        elif k < 0.8:
            j = rng.randrange(len(t))
            t[i], t[j] = t[j], t[i]
        else:
            t = t[:i] + t[i:i + 3] + t[i:]
        out.append(("mutform", " ".join(t)))
    for depth in (100, 2000, 20000):                          # analysis depth beyond SEXP_MAX_ANALYZE_DEPTH
        out.append(("deep-app", "(car " * depth + "'(1)" + ")" * depth))
        out.append(("deep-lambda", "(lambda () " * depth + "1" + ")" * depth))
        out.append(("deep-if", "(if #t " * depth + "1" + " 2)" * depth))
        out.append(("deep-quasi", "`" * min(depth, 2000) + "(a ,b)"))
    return out


# ---------------------------------------------------------------------------------------------------

def write_items(path, setup, items):
    with open(path, "w") as fh:
        for k, text in enumerate(setup):
            fh.write("#ITEM s%d setup\n%s\n#END\n" % (k, text))
        for k, (mode, text) in enumerate(items):
            fh.write("#ITEM %d %s\n%s\n#END\n" % (k, mode, text))


OUT_ITEM = re.compile(r"^#(\S+)(?: \d+)?$")


def run_items(b, exe, d, name, setup, items, item_ms=3000, timeout=240, max_rounds=14):
    """Run items through evalseq, restarting after a fatal event.  -> (dict idx -> record, fatal list, P0)"""
    path = os.path.join(d, name + ".items")
    write_items(path, setup, items)
    skip = 0
    records = {}
    fatal = []
    p0 = None
    nsetup = len(setup)
    rounds = 0
    while skip < len(items) and rounds < max_rounds:
        rounds += 1
        cmd = [exe, path, "--skip", str(skip + nsetup if skip else 0), "--item-ms", str(item_ms), "--heap", str(4 << 20), "--max", str(256 << 20)]
        if skip:
            # setup items must run again after a restart: keep them by writing a fresh file
            path2 = os.path.join(d, "%s-r%d.items" % (name, rounds))
            with open(path2, "w") as fh:
                for k, text in enumerate(setup):
                    fh.write("#ITEM s%d setup\n%s\n#END\n" % (k, text))
                for k in range(skip, len(items)):
                    fh.write("#ITEM %d %s\n%s\n#END\n" % (k, items[k][0], items[k][1]))
            cmd = [exe, path2, "--item-ms", str(item_ms), "--heap", str(4 << 20), "--max", str(256 << 20)]
        # ASan frames are several times larger than normal ones: give the sanitized harness a stack that is larger by
        # the same factor, so that recursion the interpreter bounds itself (SEXP_MAX_ANALYZE_DEPTH) is not reported
        r = R.run(b, None, raw_cmd=cmd, env_extra={"CHIBI_VERIF_HEAPCHECK": "16"}, timeout=timeout, cwd=d,
                  stack_mb=512 if b.variant == "asan-rz" else None)
        cur = None
        done = False
        last = None
        for line in r.out.split("\n"):
            m = OUT_ITEM.match(line)
            if m:
                cur = m.group(1)
                if cur.startswith("DONE"):
                    done = True
                    cur = None
                    continue
                if cur.isdigit():
                    last = int(cur)
                    records[last] = {"outcome": None, "probe": None}
                continue
            if line.startswith("P0 "):
                p0 = line[3:] if p0 is None else p0
                if line[3:] != p0:
                    fatal.append({"idx": None, "how": "fresh-context-probe-differs", "stderr": line})
                continue
            if cur is not None and cur.isdigit():
                rec = records[int(cur)]
                if line.startswith(("V ", "E ")) and rec["outcome"] is None:
                    rec["outcome"] = line
                elif line.startswith("P "):
                    rec["probe"] = line[2:]
        hc = r.log_lines("HEAPCHECK-FAIL")
        if done and r.rc == 0 and not r.sanitizer_report() and not hc:
            break
        # fatal event: blame the last announced item
        ev = {"idx": last, "how": "timeout" if (r.timed_out or r.rc == 77) else r.describe(), "hard": r.rc == 77,
              "sanitizer": r.sanitizer_report(),
              "stderr": r.err[-2500:], "heapcheck": hc[:3]}
        if r.rc == 77 and "#STUCK" in r.err:
            stuck_blk = r.err[r.err.index("#STUCK"):]
            # 20 000 frames of text are mostly one name: keep both ends
            ev["stderr_full"] = stuck_blk[:4000] + stuck_blk[-6000:]
        if ev["how"] != "timeout" and not ev["sanitizer"] and not hc and last is not None:
            # a bare signal can also be the machine's doing (no page for the C stack under memory pressure, OOM killer): the
            # same process history is run once more and the event only counts when the process dies at the same item again
            r2 = R.run(b, None, raw_cmd=cmd, env_extra={"CHIBI_VERIF_HEAPCHECK": "16"}, timeout=timeout, cwd=d,
                       stack_mb=512 if b.variant == "asan-rz" else None)
            ann = [int(m2.group(1)) for m2 in (OUT_ITEM.match(l) for l in r2.out.split("\n")) if m2 and m2.group(1).isdigit()]
            again = (r2.rc != 0 or r2.timed_out) and ann and ann[-1] == last and "#DONE" not in r2.out
            if not again:
                ev["unconfirmed"] = True
        fatal.append(ev)
        if last is None:
            break
        skip = last + 1
    if skip < len(items) and rounds >= max_rounds:
        fatal.append({"idx": skip, "how": "too-many-restarts", "skipped": len(items) - skip, "stderr": "", "sanitizer": None})
    return records, fatal, p0


def arg_class(name):
    return name


def check(rep, tier, seed):
    rng = random.Random(seed * 49979687 + 1)
    b = B.ensure("asan-rz")
    rep.builds.add("asan-rz")
    exe = b.native("evalseq")
    d = R.scratch_dir("c01")
    r7 = exported_names(b.src)
    ops = opcode_names(b.src)
    imports = "(import " + " ".join("(scheme %s)" % l for l in R7RS_LIBS) + ")"
    pool_defs = [imports, POOL_SETUP] + ["(define v-%s %s)" % (n, src) for n, src in POOL]
    pool_defs_noimport = [POOL_SETUP.replace("(define-record-type <point> (make-point x y) point? (x point-x set-point-x!) (y point-y))",
                                             "(define <point> (register-simple-type \"point\" #f '(x y))) (define make-point (make-constructor \"make-point\" <point>))")
                          .replace("(make-point 1 2)", "(make-point)")
                          .replace("(open-input-string \"(a b) 42 \\\"str\\\" tail\")", "(open-input-string \"(a b) 42 tail\")")] + \
                         ["(define v-%s %s)" % (n, src) for n, src in POOL]
    pnames = ["v-" + n for n, _ in POOL]

    # ---- (c) matrix ---------------------------------------------------------------------------------
    n1 = len(pnames) if tier != "quick" else 30
    k2, k3, k4 = (10, 6, 2) if tier == "quick" else (60, 40, 12)

    exact_bases = {"v-fix2", "v-fix7", "v-fixmax", "v-fixmin", "v-big", "v-bigneg", "v-huge", "v-ratio", "v-ratneg"}

    def astronomical(name, text):
        # (expt <exact base other than 0, 1, -1> <fixnum of magnitude 2^62>): the exact result has 2^62 bits or more - resource
        # exhaustion by construction (see the numeric family), and minutes of uninterruptible C before the heap limit is reached
        if name != "expt":
            return False
        parts = text[1:-1].split()
        return len(parts) == 3 and parts[1] in exact_bases and parts[2] in ("v-fixmax", "v-fixmin")

    def calls_for(name):
        return [it for it in calls_for_all(name) if not astronomical(name, it[1])]

    def calls_for_all(name):
        out = [("eval", "(%s)" % name)]
        vals = pnames if tier != "quick" else rng.sample(pnames, n1)
        for v in vals:
            out.append(("eval", "(%s %s)" % (name, v)))
        for _ in range(k2):
            out.append(("eval", "(%s %s %s)" % (name, rng.choice(pnames), rng.choice(pnames))))
        for _ in range(k3):
            out.append(("eval", "(%s %s %s %s)" % (name, rng.choice(pnames), rng.choice(pnames), rng.choice(pnames))))
        for _ in range(k4):
            out.append(("eval", "(%s %s)" % (name, " ".join(rng.choice(pnames) for _ in range(rng.choice([4, 5, 7]))))))
        return out

    files = []   # (family, setup, items, meta per item)
    r7names = sorted(n for n in r7 if n not in EXCLUDE)
    chunk = 12
    for i in range(0, len(r7names), chunk):
        names = r7names[i:i + chunk]
        items, meta = [], []
        for nm in names:
            for it in calls_for(nm):
                items.append(it)
                meta.append(("r7rs", nm))
        files.append(("r7rs", pool_defs, items, meta))
    plain_ops = [o for o in ops if o not in EXCLUDE and o not in STATE_SETTERS]
    for i in range(0, len(plain_ops), chunk):
        names = plain_ops[i:i + chunk]
        items, meta = [], []
        for nm in names:
            for it in calls_for(nm):
                items.append(it)
                meta.append(("primitive", nm))
        files.append(("primitive", pool_defs_noimport, items, meta))
    for nm in sorted(STATE_SETTERS & set(ops)):
        items = calls_for(nm)
        files.append(("state-setter", pool_defs_noimport, items, [("state-setter", nm)] * len(items)))
    # boundary tuples for indexed operations
    items, meta = [], []
    for tmpl, kind in INDEXED:
        for s in SEQS[kind]:
            n = LENS[s]
            iv = index_values(n)
            combos = [(i_, j_, k_) for i_ in iv for j_ in (iv if "{j}" in tmpl else ["0"]) for k_ in (iv if "{k}" in tmpl else ["0"])]
            if tmpl == "(expt {i} {j})":
                # results of astronomical size are resource exhaustion by construction (see the numeric family)
                combos = [c for c in combos if abs(float(c[1])) < 10 ** 6 or c[0] in ("0", "1", "-1")]
            if tmpl == "(expt 2 {i})":
                combos = [c for c in combos if "." in c[0] or abs(int(c[0])) < 10 ** 6 or int(c[0]) >= 2 ** 62 or int(c[0]) < -2 ** 62]
            if len(combos) > (40 if tier == "quick" else 400):
                combos = rng.sample(combos, 40 if tier == "quick" else 400)
            for i_, j_, k_ in combos:
                text = (tmpl.replace("{s}", s).replace("{v}", s).replace("{b}", s).replace("{l}", s).replace("{S2}", "(make-string 5 #\\b)")
                        .replace("{V2}", "(make-vector 5 0)").replace("{B2}", "(make-bytevector 5 0)")
                        .replace("{i}", i_).replace("{j}", j_).replace("{k}", k_))
                if kind == "S" and s == "\"lit\"":
                    pass
                items.append(("eval", text))
                meta.append(("indexed", tmpl.split()[0].lstrip("(")))
    for i in range(0, len(items), 1500):
        files.append(("indexed", [imports, "(import (chibi string) (only (chibi) string-cursor-ref substring-cursor string-index->cursor string-cursor->index string-cursor-next string-cursor-prev string-cursor-end subvector arithmetic-shift))", POOL_SETUP], items[i:i + 1500], meta[i:i + 1500]))

    # numeric operations x numeric pool, full cross product (division by exact and inexact zero, NaN, infinities, ...)
    numpool = ["0", "1", "-1", "0.0", "-0.0", "1.5", "+inf.0", "-inf.0", "+nan.0", "1/2", "-7/3", "4611686018427387904",
               "-4611686018427387904", "(expt 2 200)", "1+2i", "0.0+0.0i"]
    numops2 = ["+", "-", "*", "quotient", "remainder", "modulo", "/", "floor/", "truncate/", "floor-quotient", "floor-remainder",
               "truncate-quotient", "truncate-remainder", "expt", "gcd", "lcm", "atan", "exact-integer-sqrt", "max", "<", "=",
               "number->string", "arithmetic-shift", "exact-rational?", "rationalize"]
    numops1 = ["exact", "inexact", "sqrt", "exact-integer-sqrt", "log", "exp", "floor", "round", "truncate", "numerator",
               "denominator", "abs", "magnitude", "angle", "number->string", "exact-integer?", "nan?", "square"]
    items, meta = [], []
    huge = ("4611686018427387904", "-4611686018427387904", "(expt 2 200)")
    for op in numops2:
        for a in numpool:
            for b_ in numpool:
                # results of astronomical size are resource exhaustion by construction, not the subject here
                if (op == "expt" and b_ in huge and a not in ("0", "1", "-1")) or (op == "arithmetic-shift" and b_ in huge):
                    continue
                items.append(("eval", "(%s %s %s)" % (op, a, b_)))
                meta.append(("numeric", op))
    for op in numops1:
        for a in numpool:
            items.append(("eval", "(%s %s)" % (op, a)))
            meta.append(("numeric", op))
    for tx in ["(string->number \"100000000000000000000/3e2\")", "(string->number \"18446744073709551616/3.\")",
               "(string->number \"1/0\")", "(string->number \"18446744073709551616/0\")", "(string->number \"1e35301376\")",
               "(string->number \"#e1e400\")", "(string->number \"1/2/3\")", "(string->number \"+i\" 36)",
               "(string->number \"1/.1@1\")", "(string->number \"10000000/00.-0.1i\")", "(string->number \"229/211@49362486282f9670\")",
               "(string->number \"1/2@.5\")", "(string->number \"3/0.5i\")", "(string->number \"#i100000000000000000000\")"]:
        items.append(("eval", tx))
        meta.append(("numeric", "string->number"))
    for i in range(0, len(items), 250):
        files.append(("numeric", [imports, "(import (only (chibi) arithmetic-shift exact-rational?))"], items[i:i + 250], meta[i:i + 250]))

    # ---- (a) reader, (b) evaluator -----------------------------------------------------------------
    nread, nform = (3200, 1200) if tier == "quick" else (120000, 60000)
    rin = reader_inputs(rng, nread)
    for i in range(0, len(rin), 1500):
        part = rin[i:i + 1500]
        items, meta = [], []
        for kind, text in part:
            text = text.replace("\n#END", "\n #END").replace("#ITEM ", "# ITEM ")
            mode = "read" if len(items) % 3 else ("load" if len(items) % 2 else "evalscratch")
            if mode == "evalscratch":
                text = "(quote %s)" % text if rng.random() < 0.5 else text
            items.append((mode, text))
            meta.append(("reader-" + mode, kind))
        files.append(("reader", [imports], items, meta))
    # every seed text also as a quoted literal and as an expression, deterministically
    qitems = [("evalscratch", "(quote %s)" % t) for t in READER_SEEDS] + [("evalscratch", t) for t in READER_SEEDS]
    files.append(("reader", [imports], qitems, [("reader-evalscratch", "seed-quoted" if k < len(READER_SEEDS) else "seed-as-expression")
                                                for k in range(len(qitems))]))
    fin = malformed_forms(rng, nform)
    for i in range(0, len(fin), 1500):
        part = fin[i:i + 1500]
        files.append(("evaluator", [imports], [("evalscratch", t.replace("#ITEM ", "# ITEM ")) for _, t in part], [("evaluator", k) for k, _ in part]))

    only = os.environ.get("VERIF_C01_FAMILIES")
    if only:
        files = [f for f in files if f[0] in only.split(",")]

    def run_file(iff):
        i, (fam, setup, items, meta) = iff
        return fam, items, meta, run_items(b, exe, d, "f%d" % i, setup, items,
                                           timeout=300 if tier == "quick" else 1800)

    outcomes = {}
    probes = 0
    stuck = []
    setup_of = {id(f[2]): f[1] for f in files}
    for fam, items, meta, (records, fatal, p0) in R.pmap(run_file, list(enumerate(files))):
        for idx, rec in records.items():
            if idx >= len(meta):
                continue
            f2, nm = meta[idx]
            o = rec["outcome"]
            okind = "none" if o is None else ("value" if o.startswith("V ") else "error:" + o[2:].split(" |")[0].strip())
            outcomes[okind] = outcomes.get(okind, 0) + 1
            rep.case((f2, nm, okind.split(":")[0]))
            if rec["probe"] is not None:
                probes += 1
                if p0 is not None and rec["probe"] != p0 and fam != "state-setter":
                    rep.violation({"check": "context-not-the-same-after-error", "family": f2, "name": nm},
                                  {"item": items[idx][1][:800], "mode": items[idx][0], "outcome": o, "probe": rec["probe"][:400], "fresh": p0[:400]})
        for ev in fatal:
            idx = ev["idx"]
            f2, nm = meta[idx] if idx is not None and idx < len(meta) else (fam, "?")
            item = items[idx][1][:1200] if idx is not None and idx < len(items) else None
            if ev["how"] == "timeout":
                rep.inconc("watchdog", "%s %s: %s" % (f2, nm, (item or "")[:120]))
                if ev.get("hard") and idx is not None and idx < len(items) and fam != "state-setter":
                    stuck.append((f2, nm, items[idx][0], items[idx][1], setup_of[id(items)]))
                continue
            if ev["how"] == "too-many-restarts":
                rep.inconc("skipped-after-too-many-fatal-events", "%s: %d items" % (f2, ev.get("skipped", 0)))
                continue
            if ev.get("unconfirmed"):
                rep.inconc("process-died-once-not-again-on-the-same-history", "%s %s %s: %s" % (f2, nm, ev["how"], (item or "")[:160]))
                continue
            san = ev.get("sanitizer")
            if san:
                err = san["kind"].replace("AddressSanitizer: ", "").split(" on ")[0].split(" ")[0]
                frames = [f for f in san["frames"] if not f.startswith("__")][:2]
                sig = {"check": "sanitizer", "error": err, "family": f2, "name": nm, "frames": frames,
                       "in_bignum_code": any(f.startswith(("sexp_bignum", "sexp_copy_bignum")) for f in san["frames"][:6])}
            elif ev.get("heapcheck"):
                sig = {"check": "heap-invariant", "family": f2, "name": nm, "mode": ev["heapcheck"][0].split()[1]}
            else:
                sig = {"check": "process-died", "how": ev["how"], "family": f2, "name": nm}
            rep.violation(sig, {"item": item, "mode": items[idx][0] if idx is not None and idx < len(items) else None,
                                "stderr": ev["stderr"][-1800:], "sanitizer": san})
    # ---- items that were stuck in uninterruptible C code: re-run alone with ten times the allowance before calling it a hang
    stuck.sort(key=lambda t: (t[0], t[1], t[3]))
    seen_names = set()
    chosen = []
    for t in stuck:                       # one representative per (family, procedure), bounded in the quick tier
        if (t[0], t[1]) not in seen_names:
            seen_names.add((t[0], t[1]))
            chosen.append(t)
    chosen = chosen[:(10 if tier == "quick" else 400)]

    def rerun_stuck(it):
        k, (f2, nm, mode, text, setup) = it
        recs, fatal2, _ = run_items(b, exe, d, "stuck%d" % k, setup, [(mode, text)], item_ms=30000, timeout=200, max_rounds=1)
        return (f2, nm, mode, text), recs, fatal2

    for (f2, nm, mode, text), recs, fatal2 in R.pmap(rerun_stuck, list(enumerate(chosen))):
        rep.case(("hang-recheck", f2, nm))
        if any(ev.get("hard") for ev in fatal2):
            # where: the distinct named functions on the C stack at the moment the process gave up, innermost first
            names = []
            for ev in fatal2:
                blk = ev.get("stderr_full", "")
                if "#STUCK" in blk:
                    for m in re.finditer(r"\((sexp_[A-Za-z0-9_]+)\+0x", blk[blk.index("#STUCK"):]):
                        if not names or names[-1] != m.group(1):
                            names.append(m.group(1))
            names = [n_ for n_ in names if n_ not in ("sexp_apply", "sexp_eval_op", "sexp_eval_string", "sexp_load_op", "sexp_eval", "sexp_load")]
            rep.violation({"check": "hang", "family": f2, "name": nm, "stuck_in": names[0] if names else "?", "via": "<-".join(names[1:3])},
                          {"item": text[:800], "mode": mode, "c_stack": names[:12],
                           "note": "no result after 2 x 30 s alone; the VM's interrupt flag was set after 30 s "
                           "and ignored, i.e. the item is looping in C code"})
    rep.extra["stuck_items_rechecked"] = len(chosen)
    rep.extra["stuck_items_seen"] = len(stuck)

    # ---- deep nesting, judged on the unsanitized (hooks) build with the default 8 MB C stack --------------------------
    bh = B.ensure("hooks")
    rep.builds.add("hooks")
    exe_h = bh.native("evalseq")
    deep = []
    for depth in ((10 ** 4, 10 ** 5, 2 * 10 ** 5) if tier == "quick" else (10 ** 4, 10 ** 5, 2 * 10 ** 5, 10 ** 6)):
        deep.append(("read", "parens", depth, "(" * depth + "x" + ")" * depth))
        deep.append(("read", "vectors", depth, "#(" * depth + ")" * depth))
        deep.append(("read", "quotes", depth, "'" * depth + "x"))
        deep.append(("evalscratch", "quoted-parens", depth, "'" + "(" * depth + "x" + ")" * depth))
        deep.append(("evalscratch", "nested-calls", depth, "(car " * depth + "'(1)" + ")" * depth))
        deep.append(("load", "parens", depth, "(" * depth + "x" + ")" * depth))

    def run_deep(t):
        mode, shape, depth, text = t
        recs, fatal, p0 = run_items(bh, exe_h, d, "deep-%s-%s-%d" % (mode, shape, depth), [imports], [(mode, text)], timeout=300)
        return t, recs, fatal

    for (mode, shape, depth, text), recs, fatal in R.pmap(run_deep, deep):
        rep.case(("deep-nesting", mode, shape, depth))
        for ev in fatal:
            if ev["how"] == "timeout":
                rep.inconc("watchdog", "deep %s %s %d" % (mode, shape, depth))
                continue
            if ev.get("unconfirmed"):
                rep.inconc("process-died-once-not-again-on-the-same-history", "deep %s %s %d %s" % (mode, shape, depth, ev["how"]))
                continue
            rep.violation({"check": "process-died", "family": "deep-nesting", "how": ev["how"], "via": mode, "shape": shape,
                           "depth_class": ">=1e5" if depth >= 10 ** 5 else "<1e5"},
                          {"mode": mode, "shape": shape, "depth": depth, "stderr": ev["stderr"][-600:]})
    # ---- (d) thorough only: the quick workloads of the model-based properties replayed on the sanitized build -----------
    # Each module's check runs twice into scratch reports: on the build it asks for, and with "hooks" replaced by asan-rz.
    # A violation signature that appears only on the sanitized build (a sanitizer report, a crash) is a C01 violation.
    if tier != "quick":
        import importlib
        import json as _json
        from .. import report as _report
        for mname in ("c03", "c04", "c06", "c07", "c12", "c14", "c15", "c17", "c18", "c19", "c20", "c08"):
            try:
                mod = importlib.import_module("vf.props." + mname)
            except ImportError:
                continue
            sigs = {}
            for label, ov in (("hooks", {}), ("asan-rz", {"hooks": "asan-rz"})):
                sh = _report.Report(mname.upper(), "quick", seed)
                B.VARIANT_OVERRIDE.clear()
                B.VARIANT_OVERRIDE.update(ov)
                try:
                    mod.check(sh, "quick", seed)
                except B.HarnessError as ex:
                    rep.inconc("replay-harness-error", "%s %s: %s" % (mname, label, str(ex)[:200]))
                finally:
                    B.VARIANT_OVERRIDE.clear()
                sigs[label] = {}
                for sg, wit in sh.violations:
                    sigs[label].setdefault(_json.dumps(sg, sort_keys=True), wit)
                rep.case(("replay", mname, label), n=max(1, sh.evaluations))
                rep.count("replayed_cases_" + label, sh.evaluations)
            own, _fx = _report.load_findings(mname.upper())
            for key, wit in sigs["asan-rz"].items():
                if key not in sigs["hooks"]:
                    sg = _json.loads(key)
                    # a listed finding of the workload's own property is that property's business, whichever build shows it
                    if any(_report._match(f["match"], sg) for f in own if f["property"] == mname.upper()):
                        rep.count("replay_signatures_covered_by_the_workloads_own_findings")
                        continue
                    rep.violation({"check": "replay-on-sanitized-build", "workload": mname,
                                   "mode": sg.get("mode") or sg.get("kind") or sg.get("check")},
                                  {"workload_signature": sg, "witness": wit})
    # ---- interrupts: (thread-interrupt! t), which is also what SIGINT in the REPL does, stops a thread between two
    # instructions; randomised time slices (H4) move that point over every kind of instruction boundary ------------------------
    intr_src = """(import (scheme base) (scheme write) (scheme char) (srfi 18) (only (chibi ast) thread-interrupt!))
(define (f n) (if (= n 0) 0 (+ 1 (f (- n 1)))))
(define (g n acc) (if (= n 0) acc (g (- n 1) (cons n acc))))
(define bodies
  (vector (lambda (k) (f (+ 50 k)))
          (lambda (k) (length (g (+ 50 k) '())))
          (lambda (k) (let ((v (make-vector (+ 5 k) 1))) (vector-map (lambda (x) (* x 2)) v) (vector-fill! v 3)))
          (lambda (k) (let ((p (open-output-string))) (write (g 40 '()) p) (string-length (get-output-string p))))
          (lambda (k) (apply + (map (lambda (x) (* x x)) (g 30 '()))))
          (lambda (k) (string->number (number->string (expt 3 (+ 60 k)))))
          (lambda (k) (call-with-current-continuation (lambda (c) (f 30) (c k))))
          (lambda (k) (guard (e (#f 'no)) (dynamic-wind (lambda () #f) (lambda () (f (+ 20 k))) (lambda () #f))))))
(define handled 0)
(define (run j k guarded)
  (let* ((body (vector-ref bodies j))
         (t (make-thread (lambda ()
                           (if guarded
                               (guard (e (#t (set! handled (+ handled 1)) 'handled)) (let lp () (body k) (lp)))
                               (let lp () (body k) (lp)))))))
    (thread-start! t)
    (thread-yield!)
    (thread-interrupt! t)
    (guard (e (#t 'uncaught)) (thread-join! t))))
(define results '())
(do ((k 0 (+ k 1))) ((= k %d))
  (do ((j 0 (+ j 1))) ((= j (vector-length bodies)))
    (run j k #f)
    (run j k #t)))
;; the interpreter is intact afterwards: the fixed probe
(write (list 'done handled (f 100) (length (g 100 '())) (vector-map (lambda (x) (* x x)) #(1 2 3))))
(newline)
"""
    n_k = 12 if tier == "quick" else 40
    ipath = os.path.join(d, "interrupt.scm")
    with open(ipath, "w") as fh:
        fh.write(intr_src % n_k)
    ijobs = [("seed:%d:%d" % (seed * 1000 + i, q)) for i in range(12 if tier == "quick" else 100) for q in (7, 40, 400)]
    ijobs.append(None)

    def run_intr(sched):
        env = {"CHIBI_VERIF_SCHED": sched} if sched else {}
        return sched, R.run(bh, ["-h8M/256M", ipath], env_extra=env, timeout=300)

    for sched, r in R.pmap(run_intr, ijobs):
        rep.case(("interrupt", sched.rsplit(":", 1)[1] if sched else "default-slices"), n=n_k * 16)
        rep.count("thread_interrupts_delivered", n_k * 16)
        if r.timed_out:
            rep.inconc("watchdog", "interrupt %s" % sched)
            continue
        last = r.out.strip().split("\n")[-1] if r.out.strip() else ""
        m = re.match(r"\(done (\d+) 100 100 #\(1 4 9\)\)$", last)
        # how many of the guarded threads had installed their handler when the interrupt arrived depends on the slices
        if m and int(m.group(1)) <= n_k * 8:
            rep.count("interrupts_caught_by_guard", int(m.group(1)))
        if r.rc != 0 or r.sanitizer_report() or not (m and int(m.group(1)) <= n_k * 8):
            rep.violation({"check": "process-died" if r.rc != 0 else "interrupted-thread-result", "family": "interrupt",
                           "how": r.describe() if r.rc != 0 else "wrong final line"},
                          {"sched": sched, "program": intr_src % n_k, "last_line": last[:300], "stderr": r.err[-600:]})
    # ---- callbacks: procedures that C code calls back into (sort comparators and keys, hash and equivalence procedures of
    # hash tables, custom port procedures) raise, or escape through a continuation captured outside the C call; the escape
    # has to unwind the C frames, and the rest of the program has to run as if nothing had happened ---------------------------
    cb_imports = ("(import (scheme base) (scheme write) (scheme eval) (srfi 95) (srfi 69) (srfi 18) (chibi io) "
                  "(only (chibi) current-environment))")
    cb_via = {
        "sort-less": "(sort (list 3 1 2 5 4) (lambda (a b) (if (= a 1) {ESC} (< a b))))",
        "sort-key": "(sort (list 3 1 2 5 4) < (lambda (x) (if (= x 2) {ESC} x)))",
        "sort!-vector": "(sort! (vector 3 1 2 5 4) (lambda (a b) (if (= a 1) {ESC} (< a b))))",
        "sort-long": "(sort (let lp ((i 0) (a '())) (if (< i 300) (lp (+ i 1) (cons (modulo (* i 7919) 301) a)) a)) (lambda (a b) (if (= a 150) {ESC} (< a b))))",
        "hash-fn": "(let ((h (make-hash-table equal? (lambda (k . n) (if (equal? k 'bad) {ESC} 7))))) (hash-table-set! h 'ok 1) (hash-table-set! h 'bad 2) 'none)",
        "hash-fn-regrow": "(let ((h (make-hash-table equal? (lambda (k . n) (if (and (pair? n) (> (car n) 40) (equal? k 7)) {ESC} (modulo k (if (pair? n) (car n) 5))))))) (do ((i 0 (+ i 1))) ((= i 200) 'none) (hash-table-set! h i i)))",
        "hash-eq-fn": "(let ((h (make-hash-table (lambda (a b) (if (eq? b 'bad) {ESC} (eq? a b))) (lambda (k . n) 0)))) (hash-table-set! h 'ok 1) (hash-table-set! h 'bad 2) (hash-table-ref/default h 'bad 0))",
        "hash-delete-eq-fn": "(let ((h (make-hash-table (lambda (a b) (if (eq? b 'bad) {ESC} (eq? a b))) (lambda (k . n) 0)))) (hash-table-set! h 'ok 1) (hash-table-delete! h 'bad) 'none)",
        "custom-input-port": "(let ((p (make-custom-input-port (lambda (str start end) {ESC})))) (read-char p))",
        "custom-output-port": "(let ((p (make-custom-output-port (lambda (str start end) {ESC})))) (write-string \"abc\" p) (flush-output-port p) 'none)",
        "custom-port-close": "(let ((p (make-custom-input-port (lambda (str start end) 0) #f (lambda (port) {ESC})))) (close-input-port p) 'none)",
        "hash-table-update!": "(let ((h (make-hash-table equal?))) (hash-table-set! h 'a 1) (hash-table-update! h 'a (lambda (v) {ESC})) 'none)",
        "hash-table-walk": "(let ((h (make-hash-table equal?))) (hash-table-set! h 'a 1) (hash-table-walk h (lambda (k v) {ESC})) 'none)",
        "eval": "(eval '(car (list {ESC})) (current-environment))",
        "thread": "(thread-join! (thread-start! (make-thread (lambda () (sort (list 3 1 2) (lambda (a b) (< a b)))))))",
    }
    cb_esc = {
        "raise": ("(guard (e (#t (list 'caught e))) {BODY})", "(raise 'boom)", "(caught boom)"),
        "error": ("(guard (e (#t (list 'caught (error-object-message e)))) {BODY})", "(error \"boom\")", "(caught \"boom\")"),
        "callcc": ("(call-with-current-continuation (lambda (k) (set! kk k) {BODY}))", "(kk 'escaped)", "escaped"),
        "car-error": ("(guard (e (#t 'caught-type-error)) {BODY})", "(car 5)", "caught-type-error"),
        "wind": ("(guard (e (#t (list 'caught e (reverse trail)))) (dynamic-wind (lambda () (note 'in)) (lambda () {BODY}) (lambda () (note 'out))))",
                 "(dynamic-wind (lambda () (note 'in2)) (lambda () (raise 'boom)) (lambda () (note 'out2)))", "(caught boom (in in2 out2 out))"),
        "uncaught": ("{BODY}", "(car 5)", None),
    }
    cb_probe = ("(let* ((v (vector 1 2 3)) (s (string-append \"ab\" \"cd\"))) (list (vector-map (lambda (x) (* x x)) v) s "
                "(let lp ((i 0) (a 0)) (if (< i 1000) (lp (+ i 1) (+ a i)) a)) (sort (list 3 1 2) <) "
                "(let ((h (make-hash-table equal?))) (hash-table-set! h \"k\" 1) (hash-table-ref/default h \"k\" 0))))")
    cb_probe_out = "(#(1 4 9) \"abcd\" 499500 (1 2 3) 1)"
    # what a custom port's read / write procedure raises does not reach the program (the C side has an int to return): the
    # statement asks for "a value or an error", both are accepted there and counted
    cb_swallowing = {"custom-input-port": "#<eof>", "custom-output-port": "none"}
    cb_jobs = []
    for via, body in cb_via.items():
        for esc, (wrap, call, exp) in cb_esc.items():
            if via == "thread" and esc != "raise":
                continue
            text = ("%s\n(define kk #f)\n(define trail '())\n(define (note x) (set! trail (cons x trail)))\n(write %s)\n(newline)\n(write %s)\n(newline)\n"
                    % (cb_imports, wrap.replace("{BODY}", body.replace("{ESC}", call)), cb_probe))
            cb_jobs.append((via, esc, exp, text))
    cb_scenario = cb_imports + """
(define trail '())
(define (note x) (set! trail (cons x trail)))
(write (call/cc (lambda (k) (sort (list 1 2 3) (lambda (a b) (sort (list 4 5 6) (lambda (c d) (k (list 'out a b c d)))) (< a b))))))
(newline)
(write (sort (list 3 1 2) (lambda (a b) (call/cc (lambda (k) (sort (list 9 8) (lambda (c d) (k (< a b)))) #f)))))
(newline)
(define p (make-parameter 0))
(write (list (guard (e (#t (p))) (parameterize ((p 1)) (sort (list 1 2) (lambda (a b) (parameterize ((p 2)) (raise 'z)))))) (p)))
(newline)
(define t (make-thread (lambda () (guard (e (#t (list 'thread-caught e))) (sort (list 1 2 3) (lambda (a b) (raise 'w)))))))
(thread-start! t)
(write (thread-join! t))
(newline)
(define h (make-hash-table (lambda (a b) (if (eq? b 'boom) (raise 'eq) (equal? a b))) (lambda (k . n) 1)))
(hash-table-set! h 1 'one)
(hash-table-set! h 2 'two)
(write (guard (e (#t (list 'caught e))) (hash-table-set! h 'boom 3)))
(write (list (hash-table-size h) (hash-table-ref/default h 1 #f) (hash-table-ref/default h 2 #f)))
(newline)
(write (let lp ((i 0) (acc '())) (if (= i 50) (length acc) (lp (+ i 1) (cons (guard (e (#t e)) (sort (list i 2 1) (lambda (a b) (if (= a i) (raise i) (< a b))))) acc)))))
(newline)
"""
    cb_scenario_out = ["(out 3 2 6 5)", "(1 2 3)", "(0 0)", "(thread-caught w)", "(caught eq)(2 one two)", "50"]
    cb_jobs.append(("scenario", "nested", None, cb_scenario))
    # re-entering a continuation that was captured *inside* a callback after the C function has returned: R7RS would run the
    # rest of the sort again; chibi cannot (the C frames are gone) and has to say so - what it must not do is end the program
    # silently, hang or crash
    cb_reenter = {
        "reenter-sort": """(define saved #f) (define count 0)
(define r (sort (list 3 1 2) (lambda (a b) (call/cc (lambda (k) (if (not saved) (set! saved k)) #t)) (< a b))))
(write r) (newline)
(set! count (+ count 1))
(if (< count 3) (saved #f))
(write (list 'done count)) (newline)
""",
        "reenter-hash": """(define saved #f) (define count 0)
(define h (make-hash-table equal? (lambda (k . n) (call/cc (lambda (c) (if (not saved) (set! saved c)) #t)) 1)))
(hash-table-set! h 'a 1)
(write (hash-table-ref/default h 'a 0)) (newline)
(set! count (+ count 1))
(if (< count 3) (saved #f))
(write (list 'done count)) (newline)
""",
        "reenter-in-thread": """(define saved #f) (define count 0)
(define t (make-thread (lambda ()
  (let ((r (sort (list 3 1 2) (lambda (a b) (call/cc (lambda (k) (if (not saved) (set! saved k)) #t)) (< a b)))))
    (set! count (+ count 1))
    (if (< count 3) (saved #f))
    (list 'thread-done count r)))))
(thread-start! t)
(write (guard (e (#t 'join-raised)) (thread-join! t))) (newline)
(write (list 'done count)) (newline)
"""}
    cb_reenter_full = {"reenter-sort": ["(1 2 3)", "(1 2 3)", "(1 2 3)", "(done 3)"], "reenter-hash": ["1", "1", "1", "(done 3)"],
                       "reenter-in-thread": ["(thread-done 3 (1 2 3))", "(done 3)"]}
    for nm, body in cb_reenter.items():
        cb_jobs.append((nm, "reenter", None, cb_imports + "\n" + body))

    def run_cb(t):
        via, esc, exp, text = t
        pth = os.path.join(d, "cb-%s-%s.scm" % (via, esc))
        with open(pth, "w") as fh:
            fh.write(text)
        # a step budget (H4) turns "spins for ever in the scheduler" into an event; it only counts while threads exist
        return t, [(bb.variant, R.run(bb, ["-h8M/256M", pth], timeout=120,
                                      env_extra={"CHIBI_VERIF_SCHED": "seed:1:500", "CHIBI_VERIF_MAXSLICES": "20000000"} if via == "reenter-in-thread" else None))
                   for bb in (bh, b)]

    for (via, esc, exp, text), runs in R.pmap(run_cb, cb_jobs):
        for variant, r in runs:
            rep.case(("callback", via, esc, variant))
            if r.timed_out:
                rep.inconc("watchdog", "callback %s %s %s" % (via, esc, variant))
                continue
            lines = r.out.strip().split("\n") if r.out.strip() else []
            how = None
            if r.crashed or r.sanitizer_report():
                how = "process-died"
            elif via == "scenario":
                how = None if (r.rc == 0 and lines == cb_scenario_out) else "wrong-output"
            elif esc == "reenter":
                full = cb_reenter_full[via]
                if r.rc == 87 or r.log_lines("STEP-BUDGET"):
                    how = "no-progress"
                elif r.rc == 0 and lines == full:
                    rep.count("callback_reentries_completed")
                elif "re-entered" in r.err and (r.rc == 70 or (r.rc == 0 and lines[-1:] and lines[-1].startswith("(done"))):
                    rep.count("callback_reentries_refused_with_an_error")     # said so, and the rest of the program ran or stopped
                else:
                    how = "wrong-output"     # ended silently, or printed something else
            elif esc == "uncaught":
                # an uncaught error ends the script with the error report (exit 70) - or is swallowed by a custom port
                ok = (r.rc == 70 and "ERROR" in r.err) or (r.rc == 0 and via in cb_swallowing and lines[-1:] == [cb_probe_out])
                if via in ("thread",):
                    ok = True
                how = None if ok else "wrong-output"
            else:
                first_ok = lines[:1] == [exp] or (via in cb_swallowing and lines[:1] == [cb_swallowing[via]])
                if via in cb_swallowing and lines[:1] == [cb_swallowing[via]]:
                    rep.count("callback_errors_swallowed_by_custom_port_io")
                if via == "thread":
                    first_ok = lines[:1] == ["(1 2 3)"]
                how = None if (r.rc == 0 and first_ok and lines[1:] == [cb_probe_out]) else "wrong-output"
            if how:
                rep.violation({"check": "callback-escape", "via": via, "escape": esc, "how": how if how != "process-died" else r.describe()},
                              {"program": text, "build": variant, "stdout": r.out[-600:], "stderr": r.err[-1200:], "sanitizer": r.sanitizer_report()})
    # ---- deep DATA (built by a loop, not read): procedures that walk a datum recursively in C -----------------------------
    shapes = {"car-nested-list": "(let lp ((i 0) (x '())) (if (< i %d) (lp (+ i 1) (list x)) x))",
              "nested-vector": "(let lp ((i 0) (x '())) (if (< i %d) (lp (+ i 1) (vector x)) x))",
              "long-list": "(let lp ((i 0) (x '())) (if (< i %d) (lp (+ i 1) (cons i x)) x))"}
    walkers = [("write", "(let ((p (open-output-string))) (write d p) (string-length (get-output-string p)))"),
               ("display", "(let ((p (open-output-string))) (display d p) (string-length (get-output-string p)))"),
               ("write-shared", "(let ((p (open-output-string))) (write-shared d p) (string-length (get-output-string p)))"),
               ("write-simple", "(let ((p (open-output-string))) (write-simple d p) (string-length (get-output-string p)))"),
               ("equal?", "(equal? d d2)"), ("eqv?", "(eqv? d d2)"), ("list-copy", "(pair? (list-copy d))"), ("length", "(length d)"),
               ("list?", "(list? d)"), ("append", "(pair? (append d '(1)))"), ("vector", "(vector-length (vector d d))"),
               ("apply", "(apply (lambda args (length args)) d)"), ("map", "(length (map (lambda (x) x) (if (list? d) d (list d))))"),
               ("eval-quote", "(pair? (eval (list 'quote d) (scheme-report-environment 5)))"),
               ("list->vector", "(vector-length (list->vector (if (list? d) d (list d))))"),
               ("string-append-apply", "(string-length (apply string-append (map (lambda (x) \"a\") (if (list? d) d (list d)))))"),
               ("gc", "(begin (let lp ((i 0) (a '())) (if (< i 200000) (lp (+ i 1) (cons i a)) (length a))))")]
    ddepths = (10 ** 5, 10 ** 6) if tier == "quick" else (10 ** 4, 10 ** 5, 10 ** 6)
    djobs = []
    for sname, sexpr in shapes.items():
        for depth in ddepths:
            for wname, wexpr in walkers:
                djobs.append((sname, depth, wname, wexpr, "(begin (define d %s) (define d2 %s) 'ready)" % (sexpr % depth, sexpr % depth)))

    def run_dd(t):
        sname, depth, wname, wexpr, setup = t
        recs, fatal, p0 = run_items(bh, exe_h, d, "dd-%s-%d-%s" % (sname, depth, wname), [imports, setup], [("eval", wexpr)], timeout=300)
        return t, recs, fatal

    for (sname, depth, wname, wexpr, setup), recs, fatal in R.pmap(run_dd, djobs):
        rep.case(("deep-data", sname, depth, wname))
        o = (recs.get(0) or {}).get("outcome")
        outcomes["deep-data:" + ("none" if o is None else o.split(" ")[0])] = outcomes.get("deep-data:" + ("none" if o is None else o.split(" ")[0]), 0) + 1
        for ev in fatal:
            if ev["how"] == "timeout":
                rep.inconc("watchdog", "deep-data %s %d %s" % (sname, depth, wname))
                continue
            if ev.get("unconfirmed"):
                rep.inconc("process-died-once-not-again-on-the-same-history", "deep-data %s %d %s %s" % (sname, depth, wname, ev["how"]))
                continue
            rep.violation({"check": "process-died", "family": "deep-data", "how": ev["how"], "shape": sname, "op": wname,
                           "depth_class": ">=1e5" if depth >= 10 ** 5 else "<1e5"},
                          {"shape": sname, "depth": depth, "op": wexpr, "setup": setup[:200], "stderr": ev["stderr"][-500:]})
    rep.extra.update(outcomes=outcomes, probe_evaluations=probes, r7rs_names=len(r7names), vm_primitives=len(ops),
                     pool_values=len(POOL), item_files=len(files),
                     sanitizer="ASan + in-heap red zones (SEXP_GC_PAD=32, poisoned free chunks) + UBSan bounds,vla-bound,return,unreachable,null")
    rep.sample({"family": "r7rs", "item": "(%s v-cyclic v-fixmax)" % r7names[0], "pool": [p for p, _ in POOL][:12]})
    rep.sample({"family": "indexed", "item": "(string-copy! (make-string 5 #\\b) 4611686018427387903 \"abc\" -1)"})
    rep.sample({"family": "reader", "item": mutate(random.Random(1), READER_SEEDS[50])})
    rep.rule = ("every name exported by the R7RS-small libraries (%d) and every VM primitive of opcodes.c (%d) applied to 0..7 "
                "arguments from a pool of %d hostile values (all singles, sampled tuples) + boundary index tuples for %d indexed "
                "operations + reader inputs (valid texts, grammar-aware mutations, raw bytes; via read/load/eval) + malformed "
                "core/derived forms; each item evaluated through the C API on the ASan/red-zone build; distinct = (family, "
                "procedure or input kind, outcome kind)" % (len(r7names), len(ops), len(POOL), len(INDEXED)))
    rep.assumptions = ["red zones do not see an overflow that jumps over the 32-byte pad into another live object, nor intra-object overflow",
                       "heap limit 256 MB: out-of-memory exceptions are accepted outcomes; watchdog expiries are inconclusive",
                       "after primitives that replace interpreter state by design (listed in STATE_SETTERS) the same-context probe is not judged"]
    shutil.rmtree(d, ignore_errors=True)
