"""C15 -- equal?, eqv? and hashing are coherent; hash tables behave as finite maps (DESIGN.md section 3, C15).

Part (a), value groups.  A group is 4-7 *members*: Scheme expressions for the same abstract value reached by
different computation routes, plus near misses.  One case binds the members and prints the full matrices of
(scheme base) equal?, the core (chibi) equal? (what SRFI 69 uses for default tables), eqv?, and the hashes
(srfi 69) hash / (srfi 128) default-hash / string-hash / string-ci-hash of every member.  The Python model
(c15_values.py) is three-valued (#t / #f / unspecified by R7RS); where it is unspecified only the
equivalence laws are checked on the observed matrix.  Hash coherence: model-equal or observed-equal
members must hash alike.  Cyclic data: graphs with equal and unequal unfoldings, oracle = bisimulation.

Part (b), table histories: <= 500 operations on SRFI 69 / SRFI 125 tables against a Python dict keyed by
the canonical form of the key under the table's equivalence; every step prints its result, every
mutation prints the size, every ~25 steps all live tables are dumped as (pool-index value) lists.
"""
import random
from fractions import Fraction

from .. import build as B
from .. import cases as C
from ..sexpr import Sym
from . import c15_values as V
from .c15_values import M

IMPORTS = ("(import (scheme base) (scheme write) (scheme char) (scheme process-context) "
           "(rename (only (chibi) equal? bignum? fixnum? ratio? ratio-numerator ratio-denominator) (equal? core-equal?)) "
           "(only (chibi io) utf8->string!) (only (chibi ast) object-size) (srfi 69) (only (srfi 128) default-hash))")

SPARE = r"""
(define (%words n) (let lp ((n (abs n)) (w 0)) (if (= n 0) w (lp (quotient n 18446744073709551616) (+ w 1)))))
(define %bn-base
  (let lp ((cs (list (expt 2 62) (expt 2 64) (* 3 (expt 2 70)) (string->number "4611686018427387904") (- (expt 2 62)))) (best 1000))
    (if (null? cs) best (lp (cdr cs) (min best (- (object-size (car cs)) (* 8 (%words (car cs)))))))))
;; number of allocated-but-insignificant words in the bignums inside x (what hash_one also hashes)
(define (%spare x)
  (let walk ((x x) (d 10))
    (cond ((= d 0) 0)
          ((bignum? x) (- (quotient (- (object-size x) %bn-base) 8) (%words x)))
          ((ratio? x) (+ (walk (ratio-numerator x) (- d 1)) (walk (ratio-denominator x) (- d 1))))
          ((pair? x) (let lp ((x x) (n 0) (acc 0))
                       (if (and (pair? x) (< n 40)) (lp (cdr x) (+ n 1) (+ acc (walk (car x) (- d 1)))) (+ acc (walk x (- d 1))))))
          ((vector? x) (let lp ((i 0) (acc 0)) (if (= i (vector-length x)) acc (lp (+ i 1) (+ acc (walk (vector-ref x i) (- d 1)))))))
          ((ra? x) (+ (walk (ra-p x) (- d 1)) (walk (ra-q x) (- d 1))))
          (else 0))))
;; number of bignum objects inside x whose value fits a fixnum (a non-canonical exact integer)
(define (%unnorm x)
  (let walk ((x x) (d 10))
    (cond ((= d 0) 0)
          ((bignum? x) (if (fixnum? (+ x 0)) 1 0))
          ((ratio? x) (+ (walk (ratio-numerator x) (- d 1)) (walk (ratio-denominator x) (- d 1))))
          ((pair? x) (let lp ((x x) (n 0) (acc 0))
                       (if (and (pair? x) (< n 40)) (lp (cdr x) (+ n 1) (+ acc (walk (car x) (- d 1)))) (+ acc (walk x (- d 1))))))
          ((vector? x) (let lp ((i 0) (acc 0)) (if (= i (vector-length x)) acc (lp (+ i 1) (+ acc (walk (vector-ref x i) (- d 1)))))))
          ((ra? x) (+ (walk (ra-p x) (- d 1)) (walk (ra-q x) (- d 1))))
          (else 0))))
(define (%repr x) (+ (%spare x) (* 1000 (%unnorm x))))
"""

HEADER = r"""
(define-record-type ra (make-ra p q) ra? (p ra-p) (q ra-q))
(define-record-type rb (make-rb p q) rb? (p rb-p) (q rb-q))
""" + SPARE + r"""
(define (%bvl b) (let lp ((i (- (bytevector-length b) 1)) (acc '())) (if (< i 0) acc (lp (- i 1) (cons (bytevector-u8-ref b i) acc)))))
(define (%b x) (if x 1 0))
(define (%mx p vs)
  (let ((n (vector-length vs)))
    (let lpi ((i (- n 1)) (rows '()))
      (if (< i 0) rows
          (lpi (- i 1)
               (cons (let lpj ((j (- n 1)) (row '()))
                       (if (< j 0) row
                           (lpj (- j 1) (cons (%b (p (vector-ref vs i) (vector-ref vs j))) row))))
                     rows))))))
(define (%grp vs chks core?)
  (list (map %b chks)
        (%mx equal? vs)
        (if core? (%mx core-equal? vs) '())
        (%mx eqv? vs)
        (map hash (vector->list vs))
        (map default-hash (vector->list vs))
        (map (lambda (x) (if (string? x) (string-hash x) -1)) (vector->list vs))
        (map (lambda (x) (if (string? x) (string-ci-hash x) -1)) (vector->list vs))
        (map (if core? %repr (lambda (x) 0)) (vector->list vs))))
"""


# ----------------------------------------------------------------------------------------------
# part (a): acyclic groups

def gen_atom_family(rng, kind, exotic, small=False):
    """-> (target routes, near-miss members); exotic: allow the shared-byte-store string route;
    small: fixnums only (groups about shared-store strings stay free of bignums so that the two known
    representation defects never meet in one signature)"""
    if kind == "int":
        n = V.rnd_int(rng) if not small else rng.randrange(-1000, 1000)
        same = V.int_routes(rng, n, True)
        near = []
        for d in (1, -1):
            near.append(rng.choice(V.int_routes(rng, n + d, False)))
        near.append(rng.choice(V.flo_routes(rng, float(n)))) if abs(n) < (1 << 53) else None
        if n != 0:
            near.append(rng.choice(V.int_routes(rng, -n, False)))
        return same, near
    if kind == "rat":
        while True:
            d = abs(V.rnd_int(rng)) + 2
            f = Fraction(V.rnd_int(rng), d)
            if f.denominator != 1:
                break
        same = V.rat_routes(rng, f, True)
        near = [rng.choice(V.rat_routes(rng, f + Fraction(1, f.denominator), False)) if (f + Fraction(1, f.denominator)).denominator != 1
                else rng.choice(V.int_routes(rng, int(f + Fraction(1, f.denominator)), False)),
                rng.choice(V.rat_routes(rng, -f, False))]
        if abs(f.numerator) < (1 << 40) and f.denominator in (2, 4, 8, 16):
            near.append(rng.choice(V.flo_routes(rng, float(f))))
        return same, near
    if kind == "flo":
        x = rng.choice(V.FLOS)
        same = V.flo_routes(rng, x)
        near = []
        if x == x and x not in (float("inf"), float("-inf")):
            if x == int(x) and abs(x) < 2 ** 53:
                near.append(rng.choice(V.int_routes(rng, int(x), False)))
            if x == 0.0:
                near.append(rng.choice(V.flo_routes(rng, -x)))
            else:
                near.append(rng.choice(V.flo_routes(rng, -x)))
                near.append(rng.choice(V.flo_routes(rng, x * 2)))
        else:
            near.append(rng.choice(V.flo_routes(rng, 1.0)))
            near.append(rng.choice(V.flo_routes(rng, float("inf"))))
        return same, near
    if kind == "str":
        cps = V.rnd_cps(rng)
        same = V.str_routes(rng, cps, exotic)
        near = []
        if cps:
            i = rng.randrange(len(cps))
            sw = chr(cps[i]).swapcase()
            if len(sw) == 1 and ord(sw) != cps[i] and ord(sw) in V.ALPHA:
                alt = cps[:i] + (ord(sw),) + cps[i + 1:]
            else:
                alt = tuple(ord(chr(c).swapcase()) if (len(chr(c).swapcase()) == 1 and ord(chr(c).swapcase()) in V.ALPHA) else c
                            for c in cps)
            if alt != cps:
                near.append(rng.choice(V.str_routes(rng, alt, False)))        # case variant (string-ci)
            near.append(rng.choice(V.str_routes(rng, cps[:-1], False)))
            near.append(rng.choice(V.str_routes(rng, cps[:i] + (0x71,) + cps[i + 1:], False)))
            if all(c < 128 and chr(c) in V.SYMSAFE for c in cps) and chr(cps[0]).isalpha():
                near.append(rng.choice(V.sym_routes(rng, "".join(chr(c) for c in cps))))
        else:
            near.append(rng.choice(V.str_routes(rng, (0x61,), False)))
            near.append(rng.choice(V.bv_routes(rng, ())))
        near = [m for m in near if m.val != ("str", cps)]
        return same, near
    if kind == "sym":
        name = rng.choice(V.SYMS)
        same = V.sym_routes(rng, name)
        near = [rng.choice(V.sym_routes(rng, rng.choice([s for s in V.SYMS if s != name]))),
                rng.choice(V.str_routes(rng, tuple(ord(c) for c in name), False))]
        return same, near
    if kind == "char":
        c = rng.choice(V.ALPHA)
        same = V.char_routes(rng, c)
        near = [rng.choice(V.char_routes(rng, rng.choice([x for x in V.ALPHA if x != c]))),
                rng.choice(V.int_routes(rng, c, False)), rng.choice(V.str_routes(rng, (c,), False))]
        return same, near
    if kind == "const":
        v = rng.choice([("null",), ("bool", True), ("bool", False)])
        same = V.const_routes(rng, v)
        near = [rng.choice(V.const_routes(rng, w)) for w in [("null",), ("bool", True), ("bool", False)] if w != v]
        near.append(rng.choice(V.int_routes(rng, 0, False)))
        return same, near
    if kind == "bv":
        n = rng.choice([0, 1, 2, 3, 7, 8, 9, 16, 17])
        bs = tuple(rng.choice([0, 1, 65, 97, 127, 128, 255]) for _ in range(n))
        same = V.bv_routes(rng, bs)
        near = []
        if n:
            i = rng.randrange(n)
            near.append(rng.choice(V.bv_routes(rng, bs[:i] + ((bs[i] + 1) % 256,) + bs[i + 1:])))
            near.append(rng.choice(V.bv_routes(rng, bs[:-1])))
            near.append(rng.choice(V.bv_routes(rng, bs + (0,))))
        else:
            near.append(rng.choice(V.bv_routes(rng, (0,))))
            near.append(rng.choice(V.str_routes(rng, (), False)))
        return same, near
    raise ValueError(kind)


ATOM_KINDS = ["int", "int", "int", "rat", "flo", "str", "str", "str", "sym", "char", "const", "bv"]
WRAPS = ["vec", "list", "pair", "rec", "dotted"]


def wrap_members(rng, members, small=False):
    """Put every member of the group into the same kind of container together with the same other
    elements (built by independent routes), so the group stays a set of same/near-miss values."""
    w = rng.choice(WRAPS)
    others_vals = []
    k = rng.choice([0, 1, 2, 4, 7])
    kinds = [rng.choice(["int", "str", "sym", "flo", "char", "const"]) for _ in range(k)]
    fams = [gen_atom_family(rng, kd, False, small)[0] for kd in kinds]
    pos = rng.randrange(0, k + 1)
    out = []
    for m in members:
        elts = [rng.choice(f) for f in fams]
        elts.insert(pos, m)
        if w == "vec":
            out.append(rng.choice(V.vec_routes(rng, elts)))
        elif w == "list":
            out.append(rng.choice(V.list_routes(rng, elts)))
        elif w == "pair":
            tail = rng.choice(V.list_routes(rng, elts[1:])) if len(elts) > 1 else rng.choice(V.const_routes(rng, ("null",)))
            out.append(rng.choice(V.pair_routes(rng, elts[0], tail)))
        elif w == "dotted":
            a = elts[0]
            b = elts[-1] if len(elts) > 1 else rng.choice(V.int_routes(rng, 7, False))
            out.append(rng.choice(V.pair_routes(rng, a, b)))
        else:
            a = elts[0]
            b = elts[-1] if len(elts) > 1 else rng.choice(V.int_routes(rng, 7, False))
            out.append(rng.choice(V.rec_routes(rng, "ra", [a, b])))
    if w == "rec" and rng.random() < 0.5:
        # the same fields in a different record type
        m = members[0]
        out.append(V.rec_routes(rng, "rb", [m, rng.choice(V.int_routes(rng, 7, False))])[0])
    return out


def gen_group(rng, gid, exotic):
    kind = rng.choice(ATOM_KINDS) if not exotic else "str"
    same, near = gen_atom_family(rng, kind, exotic)
    # at most one exotic *kind* per group keeps signatures unambiguous
    ex = [m for m in same if m.tags]
    plain = [m for m in same if not m.tags]
    rng.shuffle(plain)
    chosen = plain[:rng.choice([2, 3, 4])]
    if ex and exotic:
        tag = rng.choice(sorted({t for m in ex for t in m.tags}))
        cands = [m for m in ex if tag in m.tags]
        rng.shuffle(cands)
        chosen += cands[:rng.choice([1, 2])]
    rng.shuffle(near)
    members = chosen + near[:rng.choice([1, 2, 3])]
    rng.shuffle(members)
    depth = rng.choice([0, 0, 1, 1, 2, 3])
    for _ in range(depth):
        members = wrap_members(rng, members, small=exotic)
    members = members[:8]
    return {"id": gid, "members": members, "kind": kind, "depth": depth, "cyclic": False}


def group_form(g):
    ms = g["members"]
    binds = " ".join("(v%d %s)" % (i, m.expr) for i, m in enumerate(ms))
    chks = " ".join("(let ((x v%d)) %s)" % (i, m.check or "#t") for i, m in enumerate(ms))
    return "(%%case %s (let* (%s) (%%grp (vector %s) (list %s) %s)))" % (
        g["id"], binds, " ".join("v%d" % i for i in range(len(ms))), chks, "#f" if g["cyclic"] else "#t")


# ----------------------------------------------------------------------------------------------
# cyclic data: graphs; node = ('pair', a, b) | ('vec', [..]); child = ('n', idx) | ('a', atom value)

class Graph:
    def __init__(self, nodes, root=0):
        self.nodes = nodes
        self.root = root

    def expr(self):
        binds = []
        sets = []
        for i, nd in enumerate(self.nodes):
            if nd[0] == "pair":
                binds.append("(n%d (cons #f #f))" % i)
                sets.append("(set-car! n%d %s)" % (i, self._c(nd[1])))
                sets.append("(set-cdr! n%d %s)" % (i, self._c(nd[2])))
            else:
                binds.append("(n%d (make-vector %d #f))" % (i, len(nd[1])))
                for j, c in enumerate(nd[1]):
                    sets.append("(vector-set! n%d %d %s)" % (i, j, self._c(c)))
        return "(let (%s) %s n%d)" % (" ".join(binds), " ".join(sets), self.root)

    @staticmethod
    def _c(c):
        if c[0] == "n":
            return "n%d" % c[1]
        return atom_lit(c[1])

    def children(self, i):
        nd = self.nodes[i]
        return [nd[1], nd[2]] if nd[0] == "pair" else list(nd[1])

    def is_cyclic(self):
        color = {}

        def dfs(i):
            color[i] = 1
            for c in self.children(i):
                if c[0] == "n":
                    if color.get(c[1]) == 1:
                        return True
                    if c[1] not in color and dfs(c[1]):
                        return True
            color[i] = 2
            return False
        return dfs(self.root)


def atom_lit(v):
    if v[0] == "int":
        return str(v[1])
    if v[0] == "sym":
        return "'" + v[1]
    if v[0] == "str":
        return "(string-copy %s)" % V.cps_str(v[1])
    if v[0] == "null":
        return "'()"
    if v[0] == "bool":
        return "#t" if v[1] else "#f"
    raise ValueError(v)


def bisimilar(g1, g2):
    """Are the (possibly infinite) unfoldings of the two rooted graphs equal as ordered trees?"""
    assumed = set()
    stack = [(("n", g1.root), ("n", g2.root))]
    while stack:
        a, b = stack.pop()
        if a[0] == "a" or b[0] == "a":
            if a[0] != b[0] or a[1] != b[1]:
                return False
            continue
        key = (a[1], b[1])
        if key in assumed:
            continue
        assumed.add(key)
        na, nb = g1.nodes[a[1]], g2.nodes[b[1]]
        if na[0] != nb[0]:
            return False
        ca, cb = g1.children(a[1]), g2.children(b[1])
        if len(ca) != len(cb):
            return False
        stack.extend(zip(ca, cb))
    return True


def rnd_graph(rng):
    """Small random graph with at least one cycle reachable from the root (most of the time)."""
    shape = rng.choice(["ring", "ring", "vecself", "carcycle", "mutual", "random", "random", "lasso"])
    atoms = [("int", 1), ("int", 2), ("sym", "a"), ("str", (0x61, 0x62)), ("null",), ("int", 1 << 70), ("bool", False)]

    def at():
        return ("a", rng.choice(atoms))
    if shape == "ring":
        p = rng.choice([1, 2, 3, 5])
        return Graph([("pair", at(), ("n", (i + 1) % p)) for i in range(p)])
    if shape == "lasso":
        pre, p = rng.choice([1, 2, 4]), rng.choice([1, 2, 3])
        nodes = [("pair", at(), ("n", i + 1)) for i in range(pre)]
        nodes += [("pair", at(), ("n", pre + (i + 1) % p)) for i in range(p)]
        return Graph(nodes)
    if shape == "vecself":
        n = rng.choice([1, 2, 3])
        ch = [at() for _ in range(n)]
        ch[rng.randrange(n)] = ("n", 0)
        return Graph([("vec", ch)])
    if shape == "carcycle":
        return Graph([("pair", ("n", 0), at())]) if rng.random() < 0.5 else \
            Graph([("pair", ("n", 1), at()), ("pair", at(), ("n", 0))])
    if shape == "mutual":
        return Graph([("vec", [at(), ("n", 1)]), ("pair", ("n", 0), ("n", 1) if rng.random() < 0.5 else at())])
    n = rng.choice([2, 3, 4, 6])
    nodes = []
    for i in range(n):
        def ch():
            return ("n", rng.randrange(n)) if rng.random() < 0.55 else at()
        if rng.random() < 0.6:
            nodes.append(("pair", ch(), ch()))
        else:
            nodes.append(("vec", [ch() for _ in range(rng.choice([1, 2, 3]))]))
    return Graph(nodes)


def unroll(rng, g):
    """A differently shaped graph with the same unfolding: duplicate a node and redirect some edges to the copy."""
    nodes = [(nd[0], nd[1], nd[2]) if nd[0] == "pair" else ("vec", list(nd[1])) for nd in g.nodes]
    for _ in range(rng.choice([1, 1, 2, 3])):
        i = rng.randrange(len(nodes))
        nd = nodes[i]
        new = len(nodes)
        nodes.append((nd[0], nd[1], nd[2]) if nd[0] == "pair" else ("vec", list(nd[1])))
        # redirect a random subset of edges i -> new
        for j in range(len(nodes)):
            x = nodes[j]
            if x[0] == "pair":
                a, b = x[1], x[2]
                if a == ("n", i) and rng.random() < 0.5:
                    a = ("n", new)
                if b == ("n", i) and rng.random() < 0.5:
                    b = ("n", new)
                nodes[j] = ("pair", a, b)
            else:
                nodes[j] = ("vec", [("n", new) if (c == ("n", i) and rng.random() < 0.5) else c for c in x[1]])
    return Graph(nodes, g.root)


def perturb(rng, g):
    """Change one atom or one edge (usually changes the unfolding; the model decides)."""
    nodes = [(nd[0], nd[1], nd[2]) if nd[0] == "pair" else ("vec", list(nd[1])) for nd in g.nodes]
    i = rng.randrange(len(nodes))
    nd = nodes[i]
    newc = ("a", rng.choice([("int", 3), ("sym", "b"), ("null",), ("str", (0x61, 0x63))]))
    if nd[0] == "pair":
        if rng.random() < 0.5:
            nodes[i] = ("pair", newc, nd[2])
        else:
            nodes[i] = ("pair", nd[1], newc if rng.random() < 0.5 else ("n", rng.randrange(len(nodes))))
    else:
        ch = list(nd[1])
        ch[rng.randrange(len(ch))] = newc
        nodes[i] = ("vec", ch)
    return Graph(nodes, g.root)


def gen_cyclic_group(rng, gid):
    g = rnd_graph(rng)
    graphs = [g, unroll(rng, g), unroll(rng, unroll(rng, g)), perturb(rng, g)]
    if rng.random() < 0.5:
        graphs.append(unroll(rng, perturb(rng, g)))
    rng.shuffle(graphs)
    members = [M(x.expr(), ("graph", x), "graph", fresh=True, check="#t") for x in graphs]
    return {"id": gid, "members": members, "kind": "cyclic" if g.is_cyclic() else "dag", "depth": 0, "cyclic": True,
            "graphs": graphs}


def gen_deep_group(rng, gid, quick=True):
    """Deep non-tail nesting around the core equal?'s depth limit (10000) handled by (scheme base) equal?."""
    n = rng.choice([100, 9999, 10000, 10001, 10050] + ([] if quick else [30000]))
    form = rng.choice(["list", "vector"])
    if form == "list":
        mk = "(let lp ((i 0) (acc %s)) (if (= i %d) acc (lp (+ i 1) (cons acc (list 0)))))"
    else:
        mk = "(let lp ((i 0) (acc %s)) (if (= i %d) acc (lp (+ i 1) (vector acc (list 0)))))"
    members = [M(mk % ("1", n), ("deep", form, n, 1), "deep"), M(mk % ("(+ 0 1)", n), ("deep", form, n, 1), "deep"),
               M(mk % ("2", n), ("deep", form, n, 2), "deep"), M(mk % ("1", n + 1), ("deep", form, n + 1, 1), "deep")]
    for m in members:
        m.check = "#t"
    return {"id": gid, "members": members, "kind": "deep-" + form, "depth": n, "cyclic": True, "deep": True}


# ----------------------------------------------------------------------------------------------
# judging groups

def exotic_of(ma, mb, spare_a=0, spare_b=0):
    """-> (route, leaf) of a pair for signatures: the representation class that can explain a disagreement."""
    tags = sorted(ma.tags | mb.tags)
    if tags:
        return "+".join(tags), "string"
    if spare_a >= 1000 or spare_b >= 1000:
        return "unnormalized-fixnum", "bignum"
    if spare_a > 0 or spare_b > 0:
        return "spare-words", "bignum"
    return "plain", toptype(ma) if toptype(ma) == toptype(mb) else "mixed"


def model_pair(g, i, j):
    """-> (equal_model, eqv_model) three-valued."""
    ms = g["members"]
    a, b = ms[i], ms[j]
    if g.get("deep"):
        eq = True if i == j else (a.val == b.val)
        return eq, (True if i == j else False)
    if g["cyclic"]:
        eq = True if i == j else bisimilar(a.val[1], b.val[1])
        return eq, (True if i == j else False)
    eq = V.m_equal(a.val, b.val)
    if i == j and eq is None and not has_nan(a.val):
        eq = True                       # same object: eqv?, hence equal?
    return eq, V.m_eqv(a, b, i == j)


def has_nan(v):
    if v[0] == "flo":
        return V.is_nan(v)
    if v[0] in ("vec",):
        return any(has_nan(x) for x in v[1])
    if v[0] == "rec":
        return any(has_nan(x) for x in v[2])
    if v[0] == "pair":
        while v[0] == "pair":
            if has_nan(v[1]):
                return True
            v = v[2]
        return has_nan(v)
    return False


def toptype(m):
    if m.val[0] in ("graph", "deep"):
        return m.val[0] if m.val[0] == "deep" else "cyclic"
    return V.typename(m.val)


def judge_group(rep, g, res):
    ms = g["members"]
    n = len(ms)
    form = g["form"]
    wit = {"form": form, "members": [{"expr": m.expr[:300], "route": m.route, "tags": sorted(m.tags)} for m in ms]}
    sig0 = {"kind": g["kind"]}
    if res is None or res.status == "missing":
        rep.inconc("no-output", g["id"])
        return
    if res.status == "timeout":
        return "timeout"
    if res.status == "crash":
        wit["detail"] = res.detail
        rep.violation(dict(sig0, check="group", mode="crash"), wit)
        return
    try:
        data = res.data()
        assert len(data) == 1
        obs = data[0]
    except Exception:
        wit["got"] = res.text[:500]
        rep.violation(dict(sig0, check="group", mode="unparsable-output"), wit)
        return
    wit["got"] = res.text.strip()[:1500]
    if isinstance(obs, list) and len(obs) == 2 and obs[0] == Sym("err"):
        rep.violation(dict(sig0, check="group", mode="error"), wit)
        return
    if not (isinstance(obs, list) and len(obs) == 9):
        rep.violation(dict(sig0, check="group", mode="unparsable-output"), wit)
        return
    chks, meq, mcore, meqv, h, dh, sh, sch, spare = obs
    if any(c != 1 for c in chks):
        bad = [ms[i].route for i, c in enumerate(chks) if c != 1]
        rep.inconc("route-miscomputed", {"routes": bad, "form": form[:400]})
        return
    seen = set()

    def viol(sig, extra):
        key = tuple(sorted(sig.items()))
        if key in seen:
            return
        seen.add(key)
        w = dict(wit)
        w.update(extra)
        rep.violation(sig, w)

    mats = [("equal?", meq, 0)]
    if mcore:
        mats.append(("core-equal?", mcore, 0))
    mats.append(("eqv?", meqv, 1))
    for pname, mat, which in mats:
        for i in range(n):
            for j in range(n):
                want = model_pair(g, i, j)[which]
                got = bool(mat[i][j])
                route, leaf = exotic_of(ms[i], ms[j], spare[i], spare[j])
                if want is not None and got != want:
                    viol({"check": pname, "type": toptype(ms[i]) if toptype(ms[i]) == toptype(ms[j]) else "mixed",
                          "leaf": leaf, "route": route, "expected": "#t" if want else "#f", "mode": "wrong-result"},
                         {"pair": [i, j], "routes": [ms[i].route, ms[j].route]})
        # the laws, on what was observed (also covers the unspecified entries)
        for i in range(n):
            if not mat[i][i] and not has_nan_member(ms[i]):
                viol({"check": "reflexivity", "pred": pname, "type": toptype(ms[i])}, {"member": i})
            for j in range(n):
                if mat[i][j] != mat[j][i]:
                    viol({"check": "symmetry", "pred": pname, "type": toptype(ms[i])}, {"pair": [i, j]})
                for k in range(n):
                    if mat[i][j] and mat[j][k] and not mat[i][k]:
                        viol({"check": "transitivity", "pred": pname, "type": toptype(ms[i])}, {"triple": [i, j, k]})
    # hash coherence
    for i in range(n):
        for j in range(i + 1, n):
            want = model_pair(g, i, j)[0]
            eq = (want is True) or bool(meq[i][j]) or bool(mcore and mcore[i][j])
            route, leaf = exotic_of(ms[i], ms[j], spare[i], spare[j])
            if eq:
                if h[i] != h[j]:
                    viol({"check": "hash-coherence", "fn": "hash", "leaf": leaf, "route": route},
                         {"pair": [i, j], "hashes": [h[i], h[j]], "routes": [ms[i].route, ms[j].route]})
                if dh[i] != dh[j]:
                    viol({"check": "hash-coherence", "fn": "default-hash", "leaf": leaf, "route": route},
                         {"pair": [i, j], "hashes": [dh[i], dh[j]], "routes": [ms[i].route, ms[j].route]})
            if ms[i].val[0] == "str" and ms[j].val[0] == "str":
                if ms[i].val == ms[j].val and sh[i] != sh[j]:
                    viol({"check": "hash-coherence", "fn": "string-hash", "leaf": leaf, "route": route},
                         {"pair": [i, j], "hashes": [sh[i], sh[j]], "routes": [ms[i].route, ms[j].route]})
                if V.fold_cps(ms[i].val[1]) == V.fold_cps(ms[j].val[1]) and sch[i] != sch[j]:
                    ascii_only = all(c < 128 for c in ms[i].val[1] + ms[j].val[1])
                    if not ascii_only and ms[i].val != ms[j].val:
                        route = "plain"          # case variants of non-ASCII letters: the folding itself is the cause
                    viol({"check": "hash-coherence", "fn": "string-ci-hash", "leaf": leaf, "route": route,
                          "chars": "ascii" if ascii_only else "non-ascii"},
                         {"pair": [i, j], "hashes": [sch[i], sch[j]], "routes": [ms[i].route, ms[j].route]})
    return None


def has_nan_member(m):
    return m.val[0] not in ("graph", "deep") and has_nan(m.val)


# ----------------------------------------------------------------------------------------------
# part (b): table histories

_T_COMMON = ("(import (scheme base) (scheme write) (scheme char) (scheme process-context) "
             "(rename (only (chibi) equal? bignum? fixnum? ratio? ratio-numerator ratio-denominator) (equal? core-equal?)) "
             "(only (chibi io) utf8->string!) (only (chibi ast) object-size) ")
T_IMPORTS69 = _T_COMMON + "(srfi 69))"
T_IMPORTS125 = _T_COMMON + "(srfi 128) (srfi 125))"

T_HEADER = r"""
;; flush after every observation: a hang or crash is then attributed to the right step
(define (%obs x) (write x) (newline) (flush-output-port))
(define-record-type ra (make-ra p q) ra? (p ra-p) (q ra-q))
""" + SPARE + r"""
(define (%bvl b) (let lp ((i (- (bytevector-length b) 1)) (acc '())) (if (< i 0) acc (lp (- i 1) (cons (bytevector-u8-ref b i) acc)))))
(define (%kidx same? K key)
  (let ((n (vector-length K)))
    (let lp ((i 0)) (cond ((= i n) -1) ((same? (vector-ref K i) key) i) (else (lp (+ i 1)))))))
(define (%insert p ls)
  (cond ((null? ls) (list p))
        ((or (< (car p) (car (car ls))) (and (= (car p) (car (car ls))) (<= (cdr p) (cdr (car ls))))) (cons p ls))
        (else (cons (car ls) (%insert p (cdr ls))))))
(define (%isort ls) (let lp ((ls ls) (acc '())) (if (null? ls) acc (lp (cdr ls) (%insert (car ls) acc)))))
(define (%flat ls) (if (null? ls) '() (cons (car (car ls)) (cons (cdr (car ls)) (%flat (cdr ls))))))
(define (%pairs same? K alist) (%flat (%isort (map (lambda (p) (cons (%kidx same? K (car p)) (cdr p))) alist))))
(define (%dump same? K t) (cons (hash-table-size t) (%pairs same? K (hash-table->alist t))))
(define (%probe K t) (map (lambda (k) (hash-table-ref/default t k -1)) (vector->list K)))
(define (%isort-n ls) (map car (%isort (map (lambda (x) (cons x 0)) ls))))
(define (%mod-hash m) (lambda (k . o) (let ((h (modulo k m))) (if (pair? o) (modulo h (car o)) h))))
(define (%mod-same m) (lambda (a b) (= (modulo a m) (modulo b m))))
(define (%car-hash k . o) (let ((h (car k))) (if (pair? o) (modulo h (car o)) h)))
(define (%car-same a b) (= (car a) (car b)))
"""

FNV = 2166136261


def fix_hash(n, bound):
    return ((FNV ^ ((n << 1) | 1)) & ((1 << 64) - 1)) % bound


def colliding_fixnums(rng, count, modulus=23 * 16):
    """fixnums whose default hash is congruent modulo 23*2^k for k <= 4: they share a bucket through four resizes."""
    n = rng.randrange(1, 1000)
    r = fix_hash(n, modulus)
    out = []
    while len(out) < count:
        if fix_hash(n, modulus) == r:
            out.append(n)
        n += 1
    return out


class Key:
    __slots__ = ("m", "idx", "canon", "cls", "route")

    def __init__(self, m, idx, canon, cls, route):
        self.m = m
        self.idx = idx
        self.canon = canon
        self.cls = cls
        self.route = route


def canon_equal(v):
    return v


def make_pool(rng, equiv, exotic, size):
    """-> list of Key.  Several pool entries share a canonical form (same abstract value, other route)."""
    ms = []

    def add_family(kind, nroutes=2, ex=False):
        same, near = gen_atom_family(rng, kind, ex)
        plain = [m for m in same if not m.tags and (m.fresh or m.val[0] not in V.AGG)]
        exo = [m for m in same if m.tags]
        rng.shuffle(plain)
        got = plain[:nroutes]
        if ex and exo:
            got.append(rng.choice(exo))
        ms.extend(got)
        if near and rng.random() < 0.5:
            cand = [m for m in near if not m.tags and (m.fresh or m.val[0] not in V.AGG)]
            if cand:
                ms.append(rng.choice(cand))

    if equiv in ("string=?", "string-ci=?"):
        while len(ms) < size:
            add_family("str", 2, exotic == "shared-store")
            ms[:] = [m for m in ms if m.val[0] == "str"]
        if exotic != "non-ascii-ci":
            # keep case variants of non-ASCII letters out unless this history is about them
            if equiv == "string-ci=?":
                ms[:] = [m for m in ms if all(c < 128 for c in m.val[1])]
    elif equiv == "eq?":
        while len(ms) < size:
            k = rng.choice(["sym", "const", "str", "bv", "list"])
            if k == "list":
                fam = gen_atom_family(rng, "int", False)[0]
                ms.extend([V.list_routes(rng, [fam[0], fam[1]])[0], V.list_routes(rng, [fam[0], fam[1]])[0]])
            else:
                add_family(k, 2, False)
    elif equiv in ("mod", "car"):
        pass
    else:
        kinds = ["int", "int", "int", "rat", "flo", "str", "sym", "char", "const", "bv"]
        while len(ms) < size:
            k = rng.choice(kinds + (["nested"] if equiv in ("equal?", "core-equal?", "default") else []))
            if k == "nested":
                fam, _ = gen_atom_family(rng, rng.choice(["int", "str", "sym"]), False, small=exotic != "spare-words")
                pl = [m for m in fam if not m.tags]
                picks = [rng.choice(pl), rng.choice(pl)]
                ms.extend(wrap_members(rng, picks, small=exotic != "spare-words"))
            else:
                add_family(k, 3 if exotic == "spare-words" and k in ("int", "rat") else 2,
                           exotic == "shared-store" and k == "str")
        if rng.random() < 0.7:
            for n in colliding_fixnums(rng, rng.choice([6, 12])):
                ms.append(V.int_routes(rng, n, False)[0])
    # no NaN keys (eqv? on NaN is unspecified), no records (equal? on records is unspecified)
    ms = [m for m in ms if not has_nan(m.val) and not contains_rec(m.val)]
    if equiv == "eq?":
        # eq? on numbers and characters is unspecified
        ms = [m for m in ms if m.val[0] in ("sym", "bool", "null", "str", "bv", "vec", "pair")]
    if equiv in ("eq?", "eqv?"):
        # identity of empty strings / bytevectors / vectors is unspecified
        ms = [m for m in ms if not (m.val[0] in ("str", "bv", "vec") and len(m.val[1]) == 0)]
    if exotic != "spare-words":
        # bignums routinely carry spare words (known finding): keep them to the histories that are about them
        ms = [m for m in ms if not contains_big(m.val)]
    if equiv == "default":
        # SRFI 128 default comparator compares numbers with =: keep numbers out of its pools
        ms = [m for m in ms if not contains_num(m.val)]
    rng.shuffle(ms)
    ms = ms[:size + 10]
    keys = []
    for i, m in enumerate(ms):
        v = m.val
        if equiv == "eq?":
            canon = v if v[0] in ("sym", "bool", "null") else ("id", i)
        elif equiv == "eqv?":
            canon = v if v[0] not in V.AGG else ("id", i)
        elif equiv == "string=?":
            canon = v
        elif equiv == "string-ci=?":
            canon = ("str", V.fold_cps(v[1]))
        else:
            canon = v
        route = "+".join(sorted(m.tags)) if m.tags else "plain"
        cls = "string" if m.tags else V.typename(v)
        if equiv == "string-ci=?" and any(c >= 128 for c in v[1]):
            route = "non-ascii-ci" if route == "plain" else route
        keys.append(Key(m, i, canon, cls, route))
    return keys


def contains_big(v):
    if v[0] == "int":
        return not (V.FIXMIN <= v[1] <= V.FIXMAX)
    if v[0] == "rat":
        return not (V.FIXMIN <= v[1] <= V.FIXMAX and v[2] <= V.FIXMAX)
    if v[0] == "vec":
        return any(contains_big(x) for x in v[1])
    if v[0] == "rec":
        return any(contains_big(x) for x in v[2])
    if v[0] == "pair":
        return contains_big(v[1]) or contains_big(v[2])
    return False


def contains_rec(v):
    if v[0] == "rec":
        return True
    if v[0] == "vec":
        return any(contains_rec(x) for x in v[1])
    if v[0] == "pair":
        return contains_rec(v[1]) or contains_rec(v[2])
    return False


def contains_num(v):
    if v[0] in ("int", "rat", "flo"):
        return True
    if v[0] == "vec":
        return any(contains_num(x) for x in v[1])
    if v[0] == "rec":
        return any(contains_num(x) for x in v[2])
    if v[0] == "pair":
        return contains_num(v[1]) or contains_num(v[2])
    return False


def make_custom_pool(rng, equiv, size):
    keys = []
    if equiv == "mod":
        m = rng.choice([7, 16, 23, 46, 101])
        for i in range(size):
            n = rng.choice([rng.randrange(0, 400), rng.randrange(-400, 0), rng.getrandbits(70), -rng.getrandbits(66)])
            mm = V.int_routes(rng, n, False)[0]
            keys.append(Key(mm, i, ("mod", n % m), "integer", "plain"))
        return keys, m
    for i in range(size):
        n = rng.randrange(0, size // 2 + 2)
        mm = M("(list %d %d)" % (n, i), None, "list")
        keys.append(Key(mm, i, ("car", n), "pair", "plain"))
    return keys, None


class TableModel:
    def __init__(self):
        self.d = {}          # canon -> (first pool idx stored, value)

    def copy(self):
        t = TableModel()
        t.d = dict(self.d)
        return t


def first_idx(keys, canon):
    for k in keys:
        if k.canon == canon:
            return k.idx
    return -1


def dump_expected(keys, tm):
    pairs = sorted((first_idx(keys, c), v) for c, (_i, v) in tm.d.items())
    out = [len(tm.d)]
    for i, v in pairs:
        out += [i, v]
    return out


def gen_history(rng, hid, api, nops):
    """-> dict(form, steps=[(opname, key or None, expected datum)], ...)."""
    if api == "srfi69":
        equiv = rng.choice(["default", "equal?", "eqv?", "eq?", "string=?", "string-ci=?", "mod", "car"])
    else:
        equiv = rng.choice(["equal?", "eqv?", "eq?", "string=?", "string-ci=?", "cmp-equal", "cmp-string", "cmp-string-ci",
                            "cmp-default", "cmp-eqv", "mod", "car"])
    base = {"cmp-equal": "equal?", "cmp-string": "string=?", "cmp-string-ci": "string-ci=?", "cmp-default": "default",
            "cmp-eqv": "eqv?", "default": "core-equal?"}.get(equiv, equiv)
    exotic = None
    if rng.random() < 0.25:
        if base in ("equal?", "core-equal?", "eqv?"):
            exotic = rng.choice(["spare-words", "spare-words", "shared-store"]) if base != "eqv?" else "spare-words"
        elif base == "string=?":
            exotic = "shared-store"
        elif base == "string-ci=?":
            exotic = "non-ascii-ci"
    size = rng.choice([8, 20, 40, 70])
    modm = None
    if base in ("mod", "car"):
        keys, modm = make_custom_pool(rng, base, size)
    else:
        keys = make_pool(rng, base, exotic, size)
    if not keys:
        return None
    same = {"equal?": "equal?", "core-equal?": "core-equal?", "eqv?": "eqv?", "eq?": "eq?", "string=?": "string=?",
            "string-ci=?": "string-ci=?", "default": "equal?", "mod": "(%%mod-same %s)" % modm, "car": "%car-same"}[base]
    if api == "srfi69":
        ctor = {"default": "(make-hash-table)", "equal?": "(make-hash-table equal?)", "eqv?": "(make-hash-table eqv?)",
                "eq?": "(make-hash-table eq?)", "string=?": "(make-hash-table string=? string-hash)",
                "string-ci=?": "(make-hash-table string-ci=? string-ci-hash)",
                "mod": "(make-hash-table (%%mod-same %s) (%%mod-hash %s))" % (modm, modm),
                "car": "(make-hash-table %car-same %car-hash)"}[equiv]
    else:
        ctor = {"equal?": "(make-hash-table equal?)", "eqv?": "(make-hash-table eqv?)", "eq?": "(make-hash-table eq?)",
                "string=?": "(make-hash-table string=? string-hash)",
                "string-ci=?": "(make-hash-table string-ci=? string-ci-hash)",
                "cmp-equal": "(make-hash-table equal-comparator)", "cmp-string": "(make-hash-table string-comparator)",
                "cmp-string-ci": "(make-hash-table string-ci-comparator)", "cmp-default": "(make-hash-table default-comparator)",
                "cmp-eqv": "(make-hash-table eqv-comparator)",
                "mod": "(make-hash-table (%%mod-same %s) (%%mod-hash %s))" % (modm, modm),
                "car": "(make-hash-table %car-same %car-hash)"}[equiv]
    tables = [TableModel(), None, None]
    steps = []          # (text, opname, key, expected)
    nextval = [1]
    # hot keys: a subset gets most of the traffic so that hits, updates and deletes of present keys are common
    hot = [rng.choice(keys) for _ in range(max(3, len(keys) // 2))]

    def pick():
        return rng.choice(hot) if rng.random() < 0.6 else rng.choice(keys)

    def kx(k):
        return "(vector-ref K %d)" % k.idx

    def live():
        return [i for i, t in enumerate(tables) if t is not None]

    def emit(text, op, key, expected):
        steps.append((text, op, key, expected))

    grow_bias = rng.choice([0.3, 0.5, 0.7])
    for stepno in range(nops):
        ti = rng.choice(live())
        tm = tables[ti]
        t = "t%d" % ti
        r = rng.random()
        if stepno % 25 == 24:
            for i in live():
                emit("(%%dump same? K t%d)" % i, "dump", None, dump_expected(keys, tables[i]))
                emit("(%%probe K t%d)" % i, "probe", None,
                     [tables[i].d[k.canon][1] if k.canon in tables[i].d else -1 for k in keys])
            continue
        k = pick()
        if r < grow_bias * 0.6:
            v = nextval[0]
            nextval[0] += 1
            if api == "srfi125" and rng.random() < 0.2:
                k2 = pick()
                v2 = nextval[0]
                nextval[0] += 1
                emit("(begin (hash-table-set! %s %s %d %s %d) (hash-table-size %s))" % (t, kx(k), v, kx(k2), v2, t),
                     "set!*", [k, k2], None)
                for kk, vv in ((k, v), (k2, v2)):
                    tm.d[kk.canon] = (tm.d[kk.canon][0] if kk.canon in tm.d else kk.idx, vv)
                steps[-1] = steps[-1][:3] + (len(tm.d),)
                continue
            tm.d[k.canon] = (tm.d[k.canon][0] if k.canon in tm.d else k.idx, v)
            emit("(begin (hash-table-set! %s %s %d) (hash-table-size %s))" % (t, kx(k), v, t), "set!", k, len(tm.d))
        elif r < 0.40:
            exp = tm.d[k.canon][1] if k.canon in tm.d else -1
            which = rng.randrange(4)
            if which == 0:
                emit("(hash-table-ref/default %s %s -1)" % (t, kx(k)), "ref/default", k, exp)
            elif which == 1:
                emit("(hash-table-ref %s %s (lambda () -1))" % (t, kx(k)), "ref", k, exp)
            elif which == 2:
                emit("(hash-table-ref %s %s (lambda () -1) (lambda (v) (+ v 1000000)))" % (t, kx(k)), "ref-succeed", k,
                     exp + 1000000 if exp != -1 else -1)
            else:
                nm = "hash-table-exists?" if (api == "srfi69" or rng.random() < 0.5) else "hash-table-contains?"
                emit("(list (%s %s %s))" % (nm, t, kx(k)), "exists?", k, [k.canon in tm.d])
        elif r < 0.52:
            if api == "srfi125":
                ks = [k] + ([pick()] if rng.random() < 0.3 else [])
                cnt = 0
                for kk in ks:
                    if kk.canon in tm.d:
                        cnt += 1
                        del tm.d[kk.canon]
                emit("(let ((r (hash-table-delete! %s %s))) (list (hash-table-size %s) r))" % (t, " ".join(kx(x) for x in ks), t),
                     "delete!", ks, ("retval", [len(tm.d)], cnt))
            else:
                tm.d.pop(k.canon, None)
                emit("(begin (hash-table-delete! %s %s) (hash-table-size %s))" % (t, kx(k), t), "delete!", k, len(tm.d))
        elif r < 0.60:
            if rng.random() < 0.5:
                old = tm.d[k.canon] if k.canon in tm.d else (k.idx, 0)
                tm.d[k.canon] = (old[0], old[1] + 1)
                emit("(begin (hash-table-update! %s %s (lambda (v) (+ v 1)) (lambda () 0)) (list (hash-table-ref/default %s %s -1) (hash-table-size %s)))"
                     % (t, kx(k), t, kx(k), t), "update!", k, [tm.d[k.canon][1], len(tm.d)])
            else:
                old = tm.d[k.canon] if k.canon in tm.d else (k.idx, 500000)
                tm.d[k.canon] = (old[0], old[1] + 3)
                emit("(begin (hash-table-update!/default %s %s (lambda (v) (+ v 3)) 500000) (list (hash-table-ref/default %s %s -1) (hash-table-size %s)))"
                     % (t, kx(k), t, kx(k), t), "update!/default", k, [tm.d[k.canon][1], len(tm.d)])
        elif r < 0.66:
            which = rng.randrange(6)
            vals = sorted(v for _i, v in tm.d.values())
            if which == 0:
                emit("(hash-table-size %s)" % t, "size", None, len(tm.d))
            elif which == 1:
                emit("(%%isort-n (map (lambda (k) (%%kidx same? K k)) (hash-table-keys %s)))" % t, "keys", None,
                     sorted(first_idx(keys, c) for c in tm.d))
            elif which == 2:
                emit("(%%isort-n (hash-table-values %s))" % t, "values", None, vals)
            elif which == 3:
                emit("(let ((n 0) (s 0)) (hash-table-walk %s (lambda (k v) (set! n (+ n 1)) (set! s (+ s (* v (+ 2 (%%kidx same? K k))))))) (list n s))" % t,
                     "walk", None, [len(tm.d), sum(v * (2 + first_idx(keys, c)) for c, (_i, v) in tm.d.items())])
            elif which == 4:
                if api == "srfi125" and rng.random() < 0.5:
                    emit("(hash-table-fold (lambda (k v acc) (+ acc v (%%kidx same? K k))) 0 %s)" % t, "fold", None,
                         sum(v + first_idx(keys, c) for c, (_i, v) in tm.d.items()))
                else:
                    emit("(hash-table-fold %s (lambda (k v acc) (+ acc v (%%kidx same? K k))) 0)" % t, "fold", None,
                         sum(v + first_idx(keys, c) for c, (_i, v) in tm.d.items()))
            else:
                emit("(%%pairs same? K (hash-table->alist %s))" % t, "->alist", None, dump_expected(keys, tm)[1:])
        elif r < 0.72:
            # copy into a free (or recycled) slot
            free = [i for i in range(3) if i != ti]
            j = rng.choice(free)
            tables[j] = tm.copy()
            cp = "(hash-table-copy %s)" % t if api == "srfi69" else "(hash-table-copy %s #t)" % t
            emit("(begin (set! t%d %s) (hash-table-size t%d))" % (j, cp, j), "copy", None, len(tm.d))
        elif r < 0.76 and len(live()) > 1:
            others = [i for i in live() if i != ti]
            j = rng.choice(others)
            other = tables[j]
            opn = "merge!"
            if api == "srfi125":
                opn = rng.choice(["merge!", "union!", "intersection!", "difference!", "xor!"])
            if opn in ("merge!", "union!"):
                for c, iv in other.d.items():
                    if c not in tm.d:
                        tm.d[c] = iv
            elif opn == "intersection!":
                for c in list(tm.d):
                    if c not in other.d:
                        del tm.d[c]
            elif opn == "difference!":
                for c in list(tm.d):
                    if c in other.d:
                        del tm.d[c]
            else:
                for c, iv in other.d.items():
                    if c in tm.d:
                        del tm.d[c]
                    else:
                        tm.d[c] = iv
            emit("(begin (hash-table-%s %s t%d) (list (hash-table-size %s) (hash-table-size t%d)))" % (opn, t, j, t, j),
                 opn, None, [len(tm.d), len(other.d)])
        elif r < 0.80 and api == "srfi125":
            which = rng.randrange(9)
            if which == 0:
                tm.d.clear()
                emit("(begin (hash-table-clear! %s) (hash-table-size %s))" % (t, t), "clear!", None, 0)
            elif which == 1:
                v = nextval[0]
                nextval[0] += 1
                if k.canon in tm.d:
                    exp = tm.d[k.canon][1]
                else:
                    tm.d[k.canon] = (k.idx, v)
                    exp = v
                emit("(let ((r (hash-table-intern! %s %s (lambda () %d)))) (list r (hash-table-size %s)))" % (t, kx(k), v, t),
                     "intern!", k, [exp, len(tm.d)])
            elif which == 2:
                if tm.d:
                    # the popped entry is the implementation's choice: it is put back at once, the model is unchanged
                    emit("(call-with-values (lambda () (hash-table-pop! %s)) (lambda (k v) (let ((r (list (%%kidx same? K k) v (hash-table-size %s)))) (hash-table-set! %s k v) r)))" % (t, t, t),
                         "pop!", None, ("pop", {first_idx(keys, c): v for c, (_i, v) in tm.d.items()}, len(tm.d) - 1))
                else:
                    emit("(list (hash-table-empty? %s))" % t, "empty?", None, [True])
            elif which == 3:
                emit("(hash-table-count (lambda (k v) (even? v)) %s)" % t, "count", None,
                     sum(1 for _i, v in tm.d.values() if v % 2 == 0))
            elif which == 4:
                for c in list(tm.d):
                    if tm.d[c][1] % 3 == 0:
                        del tm.d[c]
                emit("(begin (hash-table-prune! (lambda (k v) (= 0 (modulo v 3))) %s) (hash-table-size %s))" % (t, t), "prune!",
                     None, len(tm.d))
            elif which == 5:
                for c in list(tm.d):
                    tm.d[c] = (tm.d[c][0], tm.d[c][1] + 7)
                emit("(begin (hash-table-map! (lambda (k v) (+ v 7)) %s) (%%isort-n (hash-table-values %s)))" % (t, t), "map!", None,
                     sorted(v for _i, v in tm.d.values()))
            elif which == 6:
                emit("(%%isort-n (hash-table-map->list (lambda (k v) (+ v (%%kidx same? K k))) %s))" % t, "map->list", None,
                     sorted(v + first_idx(keys, c) for c, (_i, v) in tm.d.items()))
            elif which == 7:
                emit("(list (hash-table-empty? %s))" % t, "empty?", None, [len(tm.d) == 0])
            else:
                others = live()
                j = rng.choice(others)
                emit("(list (hash-table=? (make-equal-comparator) %s t%d))" % (t, j), "hash-table=?", None,
                     [{c: v for c, (_i, v) in tm.d.items()} == {c: v for c, (_i, v) in tables[j].d.items()}])
        else:
            exp = tm.d[k.canon][1] if k.canon in tm.d else -1
            emit("(hash-table-ref/default %s %s -1)" % (t, kx(k)), "ref/default", k, exp)
    for i in live():
        emit("(%%dump same? K t%d)" % i, "dump", None, dump_expected(keys, tables[i]))
    steps.insert(0, ("(map %repr (vector->list K))", "spare", None, ("spare",)))
    kvec = "(vector %s)" % " ".join(k.m.expr for k in keys)
    body = "\n ".join("(%%obs %s)" % s[0] for s in steps)
    form = "(%%case* %s (let* ((K %s) (same? %s) (t0 %s) (t1 #f) (t2 #f))\n %s))" % (hid, kvec, same, ctor, body)
    return {"id": hid, "form": form, "steps": steps, "keys": keys, "api": api, "equiv": equiv, "base": base,
            "exotic": exotic or "none", "tables": tables, "nkeys": len(keys)}


def judge_history(rep, h, res):
    keys = h["keys"]
    sig0 = {"check": "table", "api": h["api"], "equiv": h["equiv"]}
    wit = {"history": h["id"], "api": h["api"], "equiv": h["equiv"], "nkeys": h["nkeys"], "exotic": h["exotic"]}
    if res is None or res.status == "missing":
        rep.inconc("no-output", h["id"])
        return 0
    if res.status == "timeout":
        rep.inconc("timeout", {"history": h["id"], "equiv": h["equiv"]})
        return 0
    try:
        data = res.data()
    except Exception:
        wit["got"] = res.text[:600]
        wit["form"] = h["form"][:3000]
        rep.violation(dict(sig0, mode="unparsable-output"), wit)
        return 0
    steps = h["steps"]
    done = 0
    retval_seen = set()
    spare = data[0] if data and isinstance(data[0], list) and len(data[0]) == len(keys) else [0] * len(keys)
    canon_spare = {}
    for k, sp in zip(keys, spare):
        if isinstance(sp, int) and sp > 0:
            canon_spare[k.canon] = True
            if k.route == "plain":
                k.route, k.cls = ("unnormalized-fixnum" if sp >= 1000 else "spare-words"), "bignum"

    def key_class(key):
        if isinstance(key, list):
            cs = [key_class(k) for k in key]
            ex = [c for c in cs if c[1] != "plain"]
            return ex[0] if ex else cs[0]
        if key is None:
            ex = sorted({(k.cls, k.route) for k in keys if k.route != "plain"})
            return ex[0] if ex else ("-", "-")
        if key.route != "plain":
            return key.cls, key.route
        # a miss on a canonical key can be caused by the stored, equivalent key
        for k in keys:
            if k.canon == key.canon and k.route != "plain":
                return k.cls, k.route
        return key.cls, "plain"
    for i, (text, op, key, exp) in enumerate(steps):
        if i >= len(data):
            break
        got = data[i]
        if isinstance(exp, tuple) and exp[0] == "spare":
            continue
        if isinstance(exp, tuple) and exp[0] == "pop":
            ok = (isinstance(got, list) and len(got) == 3 and got[0] in exp[1] and exp[1][got[0]] == got[1]
                  and got[2] == exp[2])
            if ok:
                done += 1
                continue
            exp = ["<some (idx value) of the table>", "...", exp[2]]
        elif isinstance(exp, tuple) and exp[0] == "retval":
            # state observation first, then the SRFI-specified return value (a wrong return value does not end the history)
            if isinstance(got, list) and len(got) == 2 and same_datum(got[:1], exp[1]):
                if not same_datum(got[1], exp[2]) and (op, "retval") not in retval_seen:
                    retval_seen.add((op, "retval"))
                    rep.violation({"check": "table", "api": h["api"], "op": op, "mode": "return-value"},
                                  dict(wit, step=i, op_text=text, expected_return=exp[2], got=str(got[1])))
                done += 1
                continue
            exp = exp[1] + [exp[2]]
        if not same_datum(got, exp):
            kc, kr = key_class(key)
            sig = dict(sig0, op=op, key=kc, route=kr, mode="wrong-result")
            wit.update({"step": i, "op": text, "expected": exp, "got": got,
                        "key": [k.m.expr[:300] for k in (key if isinstance(key, list) else [key])] if key else None,
                        "prefix": [s[0] for s in steps[max(0, i - 8):i]], "form": h["form"][:6000]})
            rep.violation(sig, wit)
            return done
        done += 1
    if res.status == "crash" or len(data) < len(steps):
        i = min(len(data), len(steps) - 1)
        text, op, key, exp = steps[i]
        wit.update({"step": i, "op": text, "detail": res.detail, "form": h["form"][:6000]})
        kc, kr = key_class(key)
        rep.violation(dict(sig0, op=op, key=kc, route=kr, mode="crash"), wit)
    return done


def same_datum(got, exp):
    if isinstance(exp, bool):
        return isinstance(got, bool) and got == exp
    if isinstance(exp, list):
        return isinstance(got, list) and len(got) == len(exp) and all(same_datum(g, e) for g, e in zip(got, exp))
    if isinstance(exp, int):
        return isinstance(got, int) and not isinstance(got, bool) and got == exp
    return got == exp


# ----------------------------------------------------------------------------------------------

def heap_lines(rep, procs):
    for p in procs:
        for l in p.log_lines("HEAPCHECK-FAIL"):
            rep.violation({"check": "heapcheck", "mode": l.split()[1] if len(l.split()) > 1 else "?"}, {"line": l})
        for d in p.log_kv("HEAPCHECK-SUMMARY"):
            rep.count("heap_checks", d.get("runs", 0))
            rep.count("heap_objects_checked", d.get("objects", 0))


def one_round(rep, real, rng, b, env, quick, rno, n_groups, n_cyc, n_deep, n_hist, tot):
    # ---- part (a)
    groups = []
    for i in range(n_groups):
        g = gen_group(rng, "r%dg%d" % (rno, i), exotic=(rng.random() < 0.35))
        g["form"] = group_form(g)
        groups.append(g)
    cyc = []
    for i in range(n_cyc):
        g = gen_cyclic_group(rng, "r%dc%d" % (rno, i))
        g["form"] = group_form(g)
        cyc.append(g)
    deep = []
    for i in range(n_deep):
        g = gen_deep_group(rng, "r%dd%d" % (rno, i), quick)
        g["form"] = group_form(g)
        deep.append(g)
    res, procs = C.run_batches(b, IMPORTS, HEADER, [(g["id"], g["form"]) for g in groups], batch=150, env_extra=env,
                               timeout=120, heap="64M/512M")
    res2, procs2 = C.run_batches(b, IMPORTS, HEADER, [(g["id"], g["form"]) for g in cyc], batch=40, env_extra=env,
                                 timeout=60, heap="64M/512M")
    res.update(res2)
    procs += procs2
    res2, procs2 = C.run_batches(b, IMPORTS, HEADER, [(g["id"], g["form"]) for g in deep], batch=1, env_extra=env,
                                 timeout=60, heap="64M/512M")
    res.update(res2)
    procs += procs2
    cyc += deep
    pairs = 0
    retry = []
    for g in groups + cyc:
        ms = g["members"]
        pairs += len(ms) * len(ms)
        for i in range(len(ms)):
            for j in range(i, len(ms)):
                rep.case(("pair", g["kind"], g["depth"] if not g["cyclic"] else 0, toptype(ms[i]),
                          tuple(sorted((ms[i].route, ms[j].route)))), n=1 if i == j else 2)
        if judge_group(rep, g, res.get(g["id"])) == "timeout":
            retry.append(g)
    # watchdog fired: re-run each such case alone; a repeat is non-termination
    for g in retry[:20]:
        r1, p1 = C.run_file(b, IMPORTS, HEADER, [(g["id"], g["form"])], env_extra=env, timeout=30, heap="64M/512M")
        procs += p1
        rr = r1.get(g["id"])
        if rr is not None and rr.status == "timeout":
            rep.violation({"check": "termination", "kind": g["kind"]},
                          {"form": g["form"], "note": "timed out in the batch and again alone (30 s)"})
        elif judge_group(rep, g, rr) == "timeout":
            rep.inconc("timeout", g["form"][:300])
    for g in retry[20:]:
        rep.inconc("timeout", g["form"][:300])
    tot["groups"] += len(groups)
    tot["cyc"] += len(cyc)
    tot["pairs"] += pairs
    for g in (groups[:3] + cyc[:2]):
        r = res.get(g["id"])
        rep.sample({"form": g["form"][:700], "observed": r.text.strip()[:400] if r else None})

    # ---- part (b)
    hists = []
    for i in range(n_hist):
        api = "srfi69" if i % 2 == 0 else "srfi125"
        nops = rng.choice([60, 150, 300, 500])
        h = gen_history(rng, "r%dh%d" % (rno, i), api, nops)
        if h:
            hists.append(h)
    ops = 0
    for api, imports in (("srfi69", T_IMPORTS69), ("srfi125", T_IMPORTS125)):
        hs = [h for h in hists if h["api"] == api]
        r3, p3 = C.run_batches(b, imports, T_HEADER, [(h["id"], h["form"]) for h in hs], batch=6, env_extra=env,
                               timeout=120, heap="64M/512M")
        procs += p3
        for h in hs:
            done = judge_history(rep, h, r3.get(h["id"]))
            ops += done
            rep.count("table_ops_" + api, done)
            kinds = {s[1] for s in h["steps"]}
            for kd in kinds:
                rep.case(("table", api, h["equiv"], kd, h["exotic"]), n=0)
            rep.case(None, n=done)
    tot["hists"] += len(hists)
    tot["ops"] += ops
    if hists:
        rep.sample({"history": hists[0]["form"][:900]})
    heap_lines(rep, procs)
    tot["procs"] += len(procs)


class SlimReport:
    """Forwards to the Report but keeps full witnesses only for the first few violations of a signature
    (thorough runs produce tens of thousands of occurrences of a known finding)."""

    def __init__(self, rep, keep=20):
        self._rep = rep
        self._n = {}
        self._keep = keep

    def __getattr__(self, name):
        return getattr(self._rep, name)

    def violation(self, sig, wit):
        key = tuple(sorted((k, str(v)) for k, v in sig.items()))
        self._n[key] = self._n.get(key, 0) + 1
        if self._n[key] > self._keep:
            wit = {"note": "witness omitted: more than %d occurrences of this signature in the run" % self._keep}
        self._rep.violation(sig, wit)


def check(rep, tier, seed, variant="hooks"):
    real = rep
    rep = SlimReport(real)
    rng = random.Random(seed * 104729 + 15)
    b = B.ensure(variant)
    real.builds.add(variant)
    env = {"CHIBI_VERIF_HEAPCHECK": 1}
    quick = tier == "quick"
    # (groups, cyclic groups, deep groups, histories) per round; rounds bound the memory held at any time
    rounds = [(2400, 500, 6, 260)] if quick else [(5500, 600, 3, 1000)] * 16
    tot = {"groups": 0, "cyc": 0, "pairs": 0, "hists": 0, "ops": 0, "procs": 0}
    for rno, (n_groups, n_cyc, n_deep, n_hist) in enumerate(rounds):
        one_round(rep, real, rng, b, env, quick, rno, n_groups, n_cyc, n_deep, n_hist, tot)
    real.extra["value_groups"] = tot["groups"]
    real.extra["cyclic_groups"] = tot["cyc"]
    real.extra["ordered_pairs_compared"] = tot["pairs"]
    real.extra["histories"] = tot["hists"]
    real.extra["table_ops"] = tot["ops"]
    real.extra["processes"] = tot["procs"]
    rep = real
    rep.rule = ("(a) value groups: 4-8 members = the same abstract value by different routes (literal, arithmetic leaving spare "
                "bignum words, parsed, string-set! with and without width change, substring/append/ports/shared byte store, "
                "list/vector/bytevector constructors ...) plus near misses (value +-1, other exactness, other case, one element "
                "changed), wrapped 0-3 levels deep in lists/vectors/pairs/records; all ordered pairs compared with equal? "
                "(scheme base), core equal?, eqv? against a three-valued model, laws checked on the observed matrices, hashes of "
                "equal members compared; cyclic groups: random graphs, unrolled copies (same unfolding) and perturbed copies, "
                "oracle = bisimulation.  distinct = (kind, depth, type, unordered route pair).  (b) table histories of 60-500 "
                "operations on SRFI 69 / SRFI 125 tables (eq?/eqv?/equal?/string=?/string-ci=?/comparators/custom Scheme "
                "procedures), pools of 8-80 keys containing several routes to one value and fixnums that collide modulo 23*2^k, "
                "distinct = (api, equivalence, operation kind, exotic key class)")
    rep.assumptions = ["Python structural equality / dict are correct", "the observation reader (vf/sexpr.py) is correct",
                       "every member carries a self-check (= / string=? / element-wise) so a route that computed a different "
                       "value than intended (an arithmetic or string defect, properties C04/C12) is counted inconclusive, "
                       "not as a C15 violation",
                       "eqv? on NaN, on constants and on empty aggregates, equal? on distinct records: unspecified by R7RS, only "
                       "the equivalence laws are checked there",
                       "table values are distinct integers; keys are observed through their index in the key pool, found with "
                       "the table's own equivalence predicate"]
