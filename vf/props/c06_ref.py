"""Reference model for C06: a definitional CPS interpreter (trampolined) for a core Scheme subset with
the R7RS control model.  It is an oracle only for programs of the C06 generators (vf/props/c06.py).

Dynamic environment of a computation = Dyn(winds, handlers, params, thunks, site):
  winds     tuple of Wind(before, after, dyn-of-the-dynamic-wind-call), outermost first   (R7RS 6.10)
  handlers  tuple of handler procedures, outermost first                                   (R7RS 6.11)
  params    tuple of (Param, value) bindings, innermost last                               (R7RS 4.2.6)
  thunks    tuple of ids of the before/after thunk activations control is inside
  site      label of the construct control is in (body / handler / before / after / conv) -- statistics only

R7RS rules implemented:
  * call/cc captures (continuation, Dyn).  Invoking it from Dyn s unwinds the winds of s that are not a
    prefix-common ancestor of the target, innermost first, each `after` running in the dynamic environment
    of its dynamic-wind call, then rewinds the target's winds outermost first (before thunks likewise).
  * (with-exception-handler h thunk) pushes h for the extent of thunk.  raise / raise-continuable call
    the current handler in the dynamic environment of the raise except that the handler stack is the
    one in effect when the handler was installed.  When a handler returns from `raise`, a secondary
    exception is raised in the handler's dynamic environment.
  * parameterize: converter applied to the new value in the environment of the parameterize form, the
    body runs with the binding added; a parameter object called with no arguments yields the innermost
    binding of the dynamic environment control is in.
  * guard is *expanded* into its R7RS 7.3 reference definition (call/cc + with-exception-handler +
    raise-continuable) and evaluated by the rules above.

R7RS 6.10 leaves "using a captured continuation to enter or exit the dynamic extent of a call to before
or after" unspecified: the model flags such a throw (`unspecified` in the result) and the generators drop
the script.
"""
import sys


class Sym(str):
    __slots__ = ()

    def __repr__(self):
        return str(self)


class Nil:
    def __repr__(self):
        return "()"


NIL = Nil()


class Unspec:
    def __repr__(self):
        return "#<unspec>"


UNSPEC = Unspec()


class Pair:
    __slots__ = ("car", "cdr")

    def __init__(self, a, d):
        self.car = a
        self.cdr = d


class Vector(list):
    pass


class SString:
    def __init__(self, v):
        self.v = v


class Closure:
    __slots__ = ("params", "rest", "body", "env")

    def __init__(self, params, rest, body, env):
        self.params = params
        self.rest = rest
        self.body = body
        self.env = env


class Prim:
    __slots__ = ("name", "fn", "lo", "hi")

    def __init__(self, name, fn, lo, hi):
        self.name = name
        self.fn = fn
        self.lo = lo
        self.hi = hi


class CPrim:
    """control primitive: fn(interp, args, k, dyn) -> thunk"""
    __slots__ = ("name", "fn")

    def __init__(self, name, fn):
        self.name = name
        self.fn = fn


class Cont:
    __slots__ = ("k", "dyn", "exited", "label")

    def __init__(self, k, dyn, label=None):
        self.k = k
        self.dyn = dyn
        self.exited = False      # the call/cc that made it has returned or has been thrown to before
        self.label = label


class Param:
    __slots__ = ("value", "conv")

    def __init__(self, value, conv):
        self.value = value
        self.conv = conv


class ErrObj:
    def __init__(self, msg, irritants):
        self.msg = msg
        self.irritants = irritants


class MultipleValues:
    def __init__(self, vals):
        self.vals = vals


class SchemeError(Exception):
    """primitive-level error -> raised as a Scheme condition"""

    def __init__(self, kind):
        self.kind = kind


class Uncaught(Exception):
    def __init__(self, obj):
        self.obj = obj


class Budget(Exception):
    pass


class Wind:
    __slots__ = ("before", "after", "dyn", "id")

    def __init__(self, before, after, dyn, wid):
        self.before = before
        self.after = after
        self.dyn = dyn
        self.id = wid


class Dyn:
    __slots__ = ("winds", "handlers", "params", "thunks", "site")

    def __init__(self, winds=(), handlers=(), params=(), thunks=(), site="body"):
        self.winds = winds
        self.handlers = handlers
        self.params = params
        self.thunks = thunks
        self.site = site

    def but(self, **kw):
        d = Dyn(self.winds, self.handlers, self.params, self.thunks, self.site)
        for k, v in kw.items():
            setattr(d, k, v)
        return d


def lst(*xs, tail=NIL):
    r = tail
    for x in reversed(xs):
        r = Pair(x, r)
    return r


def to_py(l):
    out = []
    while isinstance(l, Pair):
        out.append(l.car)
        l = l.cdr
    if l is not NIL:
        raise SchemeError("improper-list")
    return out


# ---------------------------------------------------------------- reader / printer
def tokenize(s):
    i, n, out = 0, len(s), []
    while i < n:
        c = s[i]
        if c.isspace():
            i += 1
        elif c == ";":
            while i < n and s[i] != "\n":
                i += 1
        elif c in "()'`":
            out.append(c)
            i += 1
        elif c == ",":
            if s[i:i + 2] == ",@":
                out.append(",@")
                i += 2
            else:
                out.append(",")
                i += 1
        elif c == "#" and s[i:i + 2] == "#(":
            out.append("#(")
            i += 2
        elif c == '"':
            j = i + 1
            while s[j] != '"':
                j += 2 if s[j] == "\\" else 1
            out.append(s[i:j + 1])
            i = j + 1
        else:
            j = i
            while j < n and not s[j].isspace() and s[j] not in "()'`,\"":
                j += 1
            out.append(s[i:j])
            i = j
    return out


def parse(s):
    toks = tokenize(s)
    pos = [0]

    def rd():
        t = toks[pos[0]]
        pos[0] += 1
        if t == "(" or t == "#(":
            items, tail = [], NIL
            while toks[pos[0]] != ")":
                if toks[pos[0]] == ".":
                    pos[0] += 1
                    tail = rd()
                else:
                    items.append(rd())
            pos[0] += 1
            return Vector(items) if t == "#(" else lst(*items, tail=tail)
        if t == "'":
            return lst(Sym("quote"), rd())
        if t == "`":
            return lst(Sym("quasiquote"), rd())
        if t == ",":
            return lst(Sym("unquote"), rd())
        if t == ",@":
            return lst(Sym("unquote-splicing"), rd())
        if t == "#t" or t == "#true":
            return True
        if t == "#f" or t == "#false":
            return False
        if t[0] == '"':
            return SString(t[1:-1])
        try:
            return int(t)
        except ValueError:
            return Sym(t)

    out = []
    while pos[0] < len(toks):
        out.append(rd())
    return out


def show(x):
    if x is True:
        return "#t"
    if x is False:
        return "#f"
    if isinstance(x, int):
        return str(x)
    if isinstance(x, Sym):
        return str(x)
    if isinstance(x, SString):
        return '"' + x.v + '"'
    if x is NIL:
        return "()"
    if isinstance(x, Pair):
        parts = []
        while isinstance(x, Pair):
            parts.append(show(x.car))
            x = x.cdr
        if x is not NIL:
            parts += [".", show(x)]
        return "(" + " ".join(parts) + ")"
    if isinstance(x, Vector):
        return "#(" + " ".join(show(e) for e in x) + ")"
    if isinstance(x, (Closure, Prim, CPrim, Cont, Param)):
        return "#<procedure>"
    if isinstance(x, ErrObj):
        return "#<error>"
    if x is UNSPEC:
        return "#<unspec>"
    return repr(x)


# ---------------------------------------------------------------- environments
class Env:
    __slots__ = ("vars", "parent")

    def __init__(self, parent=None):
        self.vars = {}
        self.parent = parent

    def lookup(self, name):
        e = self
        while e is not None:
            if name in e.vars:
                return e
            e = e.parent
        return None


UNINIT = object()
SPECIAL_MARK = object()
SPECIAL = {}


def special(name):
    def deco(f):
        SPECIAL[name] = f
        return f
    return deco


class Stats:
    """What the model saw while running one script (used for signatures and for the bias measure)."""

    def __init__(self):
        self.throws = []          # (relation, site, reentry?, unwound, rewound)
        self.raises = []          # (kind, site, handler-depth)
        self.unspecified = False  # a throw entered/left a before/after thunk activation (R7RS 6.10: unspecified)
        self.wind_runs = 0        # before/after thunks run because of throws
        self.max_winds = 0
        self.param_reads = 0
        self.conversions = 0

    def rewinding(self):
        return any(t[4] > 0 for t in self.throws)

    def reentry(self):
        return any(t[2] for t in self.throws)

    def features(self):
        f = set()
        for rel, site, re, nu, nr in self.throws:
            f.add("k:%s@%s%s" % (rel, site, "+re" if re else ""))
        for kind, site, depth in self.raises:
            f.add("%s@%s" % (kind, site))
        return f


class Interp:
    def __init__(self, budget=400000):
        self.trace = []
        self.genv = Env()
        self.steps = 0
        self.budget = budget
        self.stats = Stats()
        self.nwind = 0
        self.nthunk = 0
        self.install()

    # -- trampoline
    def run(self, thunk):
        steps = self.steps
        budget = self.budget
        while thunk is not None:
            steps += 1
            if steps > budget:
                self.steps = steps
                raise Budget()
            thunk = thunk()
        self.steps = steps

    def eval_program(self, forms):
        """evaluate forms as one body; returns ('value', v) | ('raised', obj)"""
        result = []

        def top_k(v):
            result.append(("value", v))
            return None

        body = lst(Sym("let"), NIL, *forms) if len(forms) != 1 else forms[0]
        try:
            self.run(lambda: self.ev(body, self.genv, top_k, Dyn()))
        except Uncaught as u:
            return ("raised", u.obj)
        return result[-1]

    # -- eval
    def ev(self, x, env, k, dyn):
        if isinstance(x, Sym):
            e = env.lookup(x)
            if e is None:
                return self.throw_kind("unbound", k, dyn)
            v = e.vars[x]
            if v is UNINIT:
                return self.throw_kind("uninit", k, dyn)
            return lambda: k(v)
        if not isinstance(x, Pair):
            return lambda: k(x)
        head = x.car
        if isinstance(head, Sym):
            e = env.lookup(head)
            if e is not None and e.vars[head] is SPECIAL_MARK:
                return SPECIAL[head](self, x, env, k, dyn)
        # application.  Order of operand evaluation is unspecified; generated programs do not depend on
        # it (at most one operand has effects).  Evaluated right to left here.
        items = to_py(x)
        n = len(items)
        vals = [None] * n

        def step(i):
            if i < 0:
                return lambda: self.apply(vals[0], vals[1:], k, dyn)

            def got(v, i=i):
                vals[i] = v
                return step(i - 1)
            return self.ev(items[i], env, got, dyn)
        return step(n - 1)

    def body(self, forms, env, k, dyn):
        """lambda/let body with internal defines (letrec* semantics)"""
        forms = list(forms)
        defs = []
        i = 0
        de = env.lookup(Sym("define"))
        while (i < len(forms) and isinstance(forms[i], Pair) and forms[i].car == "define"
               and de is not None and de.vars["define"] is SPECIAL_MARK):
            defs.append(forms[i])
            i += 1
        if defs:
            env = Env(env)
            for d in defs:
                target = d.cdr.car
                name = target.car if isinstance(target, Pair) else target
                env.vars[name] = UNINIT
        return self.seq(forms, env, k, dyn)

    def seq(self, forms, env, k, dyn):
        if not forms:
            return lambda: k(UNSPEC)
        if len(forms) == 1:
            return self.ev(forms[0], env, k, dyn)
        return self.ev(forms[0], env, lambda _v: self.seq(forms[1:], env, k, dyn), dyn)

    # -- apply
    def apply(self, f, args, k, dyn):
        if isinstance(f, Closure):
            np = len(f.params)
            if len(args) < np or (f.rest is None and len(args) > np):
                return self.throw_kind("arity", k, dyn)
            env = Env(f.env)
            for p, a in zip(f.params, args):
                env.vars[p] = a
            if f.rest is not None:
                env.vars[f.rest] = lst(*args[np:])
            return self.body(f.body, env, k, dyn)
        if isinstance(f, Prim):
            if len(args) < f.lo or (f.hi is not None and len(args) > f.hi):
                return self.throw_kind("arity", k, dyn)
            try:
                v = f.fn(*args)
            except SchemeError as e:
                return self.throw_kind(e.kind, k, dyn)
            return lambda: k(v)
        if isinstance(f, CPrim):
            return f.fn(self, args, k, dyn)
        if isinstance(f, Cont):
            return self.throw_to(f, args[0] if len(args) == 1 else MultipleValues(list(args)), dyn)
        if isinstance(f, Param):
            if args:
                return self.throw_kind("arity", k, dyn)
            self.stats.param_reads += 1
            for p, v in reversed(dyn.params):
                if p is f:
                    return lambda: k(v)
            return lambda: k(f.value)
        return self.throw_kind("not-procedure", k, dyn)

    # -- continuations & winds
    def throw_to(self, cont, v, dyn, record=True):
        src, dst = dyn.winds, cont.dyn.winds
        i = 0
        while i < len(src) and i < len(dst) and src[i] is dst[i]:
            i += 1
        unwind = list(reversed(src[i:]))
        rewind = list(dst[i:])
        if dyn.thunks != cont.dyn.thunks:
            self.stats.unspecified = True
        if record:
            nu, nr = len(unwind), len(rewind)
            rel = ("same" if nu == 0 and nr == 0 else "ancestor" if nr == 0 else "descendant" if nu == 0 else "cousin")
            self.stats.throws.append((rel, dyn.site, cont.exited, nu, nr))
            self.stats.wind_runs += nu + nr
        cont.exited = True

        def do_unwind(j):
            if j == len(unwind):
                return do_rewind(0)
            w = unwind[j]
            self.nthunk += 1
            d = w.dyn.but(thunks=w.dyn.thunks + (self.nthunk,), site="after")
            return self.apply(w.after, [], lambda _v: do_unwind(j + 1), d)

        def do_rewind(j):
            if j == len(rewind):
                return lambda: cont.k(v)
            w = rewind[j]
            self.nthunk += 1
            d = w.dyn.but(thunks=w.dyn.thunks + (self.nthunk,), site="before")
            return self.apply(w.before, [], lambda _v: do_rewind(j + 1), d)
        return do_unwind(0)

    # -- exceptions
    def throw_kind(self, kind, k, dyn):
        return self.do_raise(ErrObj(kind, NIL), False, k, dyn)

    def do_raise(self, obj, continuable, k, dyn):
        handlers = dyn.handlers
        self.stats.raises.append(("raise-continuable" if continuable else "raise", dyn.site, len(handlers)))
        if not handlers:
            raise Uncaught(obj)
        h = handlers[-1]
        hdyn = dyn.but(handlers=handlers[:-1], site="handler")
        if continuable:
            return self.apply(h, [obj], lambda v: (lambda: k(v)), hdyn)

        def after(_v):
            # R7RS 6.11: "a secondary exception is raised in the same dynamic environment as the handler"
            return self.do_raise(ErrObj("handler-returned", NIL), False, k, hdyn)
        return self.apply(h, [obj], after, hdyn)

    # -- setup
    def install(self):
        g = self.genv.vars
        for name in SPECIAL:
            g[Sym(name)] = SPECIAL_MARK

        def prim(name, fn, lo, hi=-1):
            g[Sym(name)] = Prim(name, fn, lo, lo if hi == -1 else hi)

        def num(x):
            if isinstance(x, bool) or not isinstance(x, int):
                raise SchemeError("type")
            return x
        import functools
        import operator
        prim("+", lambda *a: sum(map(num, a)), 0, None)
        prim("*", lambda *a: functools.reduce(operator.mul, map(num, a), 1), 0, None)
        prim("-", lambda a, *r: -num(a) if not r else num(a) - sum(map(num, r)), 1, None)

        def cmp(op):
            def f(*a):
                a = list(map(num, a))
                return all(op(x, y) for x, y in zip(a, a[1:]))
            return f
        for nm, op in (("=", operator.eq), ("<", operator.lt), (">", operator.gt), ("<=", operator.le),
                       (">=", operator.ge)):
            prim(nm, cmp(op), 1, None)

        def quotient(a, b):
            a, b = num(a), num(b)
            if b == 0:
                raise SchemeError("div0")
            q = abs(a) // abs(b)
            return q if (a < 0) == (b < 0) else -q
        prim("quotient", quotient, 2)
        prim("remainder", lambda a, b: num(a) - num(b) * quotient(a, b), 2)
        prim("cons", lambda a, d: Pair(a, d), 2)

        def car(p):
            if not isinstance(p, Pair):
                raise SchemeError("type")
            return p.car

        def cdr(p):
            if not isinstance(p, Pair):
                raise SchemeError("type")
            return p.cdr
        prim("car", car, 1)
        prim("cdr", cdr, 1)
        prim("list", lambda *a: lst(*a), 0, None)
        prim("null?", lambda x: x is NIL, 1)
        prim("pair?", lambda x: isinstance(x, Pair), 1)
        prim("not", lambda x: x is False, 1)
        prim("zero?", lambda x: num(x) == 0, 1)

        def eqv(a, b):
            if isinstance(a, bool) or isinstance(b, bool):
                return a is b
            if isinstance(a, int) and isinstance(b, int):
                return a == b
            if isinstance(a, Sym) and isinstance(b, Sym):
                return a == b
            return a is b

        def equal(a, b):
            if isinstance(a, Pair) and isinstance(b, Pair):
                return equal(a.car, b.car) and equal(a.cdr, b.cdr)
            if isinstance(a, Vector) and isinstance(b, Vector):
                return len(a) == len(b) and all(map(equal, a, b))
            if isinstance(a, SString) and isinstance(b, SString):
                return a.v == b.v
            return eqv(a, b)
        prim("eq?", eqv, 2)
        prim("eqv?", eqv, 2)
        prim("equal?", equal, 2)
        prim("length", lambda l: len(to_py(l)), 1)
        prim("reverse", lambda l: lst(*reversed(to_py(l))), 1)
        prim("append", lambda *ls: lst(*[x for l in ls[:-1] for x in to_py(l)], tail=ls[-1]) if ls else NIL, 0, None)
        prim("vector", lambda *a: Vector(a), 0, None)

        def vref(v, i):
            if not isinstance(v, Vector):
                raise SchemeError("type")
            if isinstance(i, bool) or not isinstance(i, int):
                raise SchemeError("type")
            if not 0 <= i < len(v):
                raise SchemeError("range")
            return v[i]
        prim("vector-ref", vref, 2)

        def vset(v, i, x):
            vref(v, i)
            v[i] = x
            return UNSPEC
        prim("vector-set!", vset, 3)

        def log(x):
            self.trace.append(show(x))
            return UNSPEC
        prim("log!", log, 1)
        prim("error-object?", lambda x: isinstance(x, ErrObj), 1)
        prim("symbol?", lambda x: isinstance(x, Sym), 1)
        prim("procedure?", lambda x: isinstance(x, (Closure, Prim, CPrim, Cont, Param)), 1)
        prim("environment", lambda *a: UNSPEC, 0, None)

        # control
        def c_apply(s, args, k, dyn):
            try:
                rest = to_py(args[-1])
            except SchemeError as e:
                return s.throw_kind(e.kind, k, dyn)
            return s.apply(args[0], list(args[1:-1]) + rest, k, dyn)
        g[Sym("apply")] = CPrim("apply", c_apply)

        def c_callcc(s, args, k, dyn):
            c = Cont(None, dyn)

            def k2(v):
                c.exited = True
                return k(v)
            c.k = k2
            return s.apply(args[0], [c], k2, dyn)
        g[Sym("call/cc")] = g[Sym("call-with-current-continuation")] = CPrim("call/cc", c_callcc)

        def c_dw(s, args, k, dyn):
            before, thunk, after = args

            def after_before(_v):
                s.nwind += 1
                w = Wind(before, after, dyn, s.nwind)
                d2 = dyn.but(winds=dyn.winds + (w,))
                s.stats.max_winds = max(s.stats.max_winds, len(d2.winds))

                def after_thunk(v):
                    s.nthunk += 1
                    return s.apply(after, [], lambda _v2: (lambda: k(v)),
                                   dyn.but(thunks=dyn.thunks + (s.nthunk,), site="after"))
                return s.apply(thunk, [], after_thunk, d2)
            s.nthunk += 1
            return s.apply(before, [], after_before, dyn.but(thunks=dyn.thunks + (s.nthunk,), site="before"))
        g[Sym("dynamic-wind")] = CPrim("dynamic-wind", c_dw)

        def c_weh(s, args, k, dyn):
            handler, thunk = args
            return s.apply(thunk, [], k, dyn.but(handlers=dyn.handlers + (handler,)))
        g[Sym("with-exception-handler")] = CPrim("with-exception-handler", c_weh)
        g[Sym("raise")] = CPrim("raise", lambda s, a, k, dyn: s.do_raise(a[0], False, k, dyn))
        g[Sym("raise-continuable")] = CPrim("raise-continuable", lambda s, a, k, dyn: s.do_raise(a[0], True, k, dyn))
        g[Sym("error")] = CPrim("error", lambda s, a, k, dyn: s.do_raise(
            ErrObj(a[0].v if isinstance(a[0], SString) else show(a[0]), lst(*a[1:])), False, k, dyn))

        def c_values(s, args, k, dyn):
            return lambda: k(args[0] if len(args) == 1 else MultipleValues(list(args)))
        g[Sym("values")] = CPrim("values", c_values)

        def c_cwv(s, args, k, dyn):
            producer, consumer = args

            def got(v):
                vs = list(v.vals) if isinstance(v, MultipleValues) else [v]
                return s.apply(consumer, vs, k, dyn)
            return s.apply(producer, [], got, dyn)
        g[Sym("call-with-values")] = CPrim("call-with-values", c_cwv)

        def c_make_param(s, args, k, dyn):
            conv = args[1] if len(args) > 1 else None
            if conv is None:
                return lambda: k(Param(args[0], None))
            s.stats.conversions += 1
            return s.apply(conv, [args[0]], lambda v: (lambda: k(Param(v, conv))), dyn.but(site="conv"))
        g[Sym("make-parameter")] = CPrim("make-parameter", c_make_param)

        def c_eval(s, args, k, dyn):
            # (eval datum env): the generated programs only use environments in which the datum means
            # what it means at top level, and data that mention no local variable.
            return s.ev(args[0], s.genv, k, dyn)
        g[Sym("eval")] = CPrim("eval", c_eval)
        g[Sym("%env")] = UNSPEC


# ---------------------------------------------------------------- special forms
@special("quote")
def _quote(s, x, env, k, dyn):
    v = x.cdr.car
    return lambda: k(v)


@special("if")
def _if(s, x, env, k, dyn):
    parts = to_py(x.cdr)

    def got(v):
        if v is not False:
            return s.ev(parts[1], env, k, dyn)
        if len(parts) > 2:
            return s.ev(parts[2], env, k, dyn)
        return lambda: k(UNSPEC)
    return s.ev(parts[0], env, got, dyn)


@special("lambda")
def _lambda(s, x, env, k, dyn):
    params, rest, p = [], None, x.cdr.car
    while isinstance(p, Pair):
        params.append(p.car)
        p = p.cdr
    if p is not NIL:
        rest = p
    c = Closure(params, rest, to_py(x.cdr.cdr), env)
    return lambda: k(c)


@special("define")
def _define(s, x, env, k, dyn):
    target = x.cdr.car
    if isinstance(target, Pair):
        name = target.car
        lam = Pair(Sym("lambda"), Pair(target.cdr, x.cdr.cdr))

        def got(v):
            env.vars[name] = v
            return lambda: k(UNSPEC)
        return _lambda(s, lam, env, got, dyn)

    def got(v):
        env.vars[target] = v
        return lambda: k(UNSPEC)
    return s.ev(x.cdr.cdr.car, env, got, dyn)


@special("set!")
def _set(s, x, env, k, dyn):
    name = x.cdr.car

    def got(v):
        e = env.lookup(name)
        if e is None:
            return s.throw_kind("unbound", k, dyn)
        e.vars[name] = v
        return lambda: k(UNSPEC)
    return s.ev(x.cdr.cdr.car, env, got, dyn)


@special("begin")
def _begin(s, x, env, k, dyn):
    return s.seq(to_py(x.cdr), env, k, dyn)


class MixEnv(Env):
    """env for the initial call of a named let: operator from the loop env, operands from the outer env"""

    def __init__(self, inner, outer, name):
        self.vars = {name: inner.vars[name]}
        self.parent = outer


@special("let")
def _let(s, x, env, k, dyn):
    if isinstance(x.cdr.car, Sym):   # named let
        name, bindings, body = x.cdr.car, to_py(x.cdr.cdr.car), x.cdr.cdr.cdr
        env2 = Env(env)
        env2.vars[name] = UNINIT
        lam = Pair(Sym("lambda"), Pair(lst(*[b.car for b in bindings]), body))

        def got(f):
            env2.vars[name] = f
            return s.ev(Pair(name, lst(*[b.cdr.car for b in bindings])), MixEnv(env2, env, name), k, dyn)
        return _lambda(s, lam, env2, got, dyn)
    bindings, body = to_py(x.cdr.car), to_py(x.cdr.cdr)
    vals = {}

    def step(i):
        if i < 0:
            env2 = Env(env)
            env2.vars.update(vals)
            return s.body(body, env2, k, dyn)
        b = bindings[i]

        def got(v):
            vals[b.car] = v
            return step(i - 1)
        return s.ev(b.cdr.car, env, got, dyn)
    return step(len(bindings) - 1)


@special("let*")
def _letstar(s, x, env, k, dyn):
    bindings, body = to_py(x.cdr.car), to_py(x.cdr.cdr)

    def step(i, e):
        if i == len(bindings):
            return s.body(body, Env(e), k, dyn)
        b = bindings[i]

        def got(v):
            e2 = Env(e)
            e2.vars[b.car] = v
            return step(i + 1, e2)
        return s.ev(b.cdr.car, e, got, dyn)
    return step(0, env)


def _letrec_common(s, x, env, k, dyn):
    bindings, body = to_py(x.cdr.car), to_py(x.cdr.cdr)
    env2 = Env(env)
    for b in bindings:
        env2.vars[b.car] = UNINIT

    def step(i):
        if i == len(bindings):
            return s.body(body, env2, k, dyn)
        b = bindings[i]

        def got(v):
            env2.vars[b.car] = v
            return step(i + 1)
        return s.ev(b.cdr.car, env2, got, dyn)
    return step(0)


SPECIAL["letrec"] = _letrec_common
SPECIAL["letrec*"] = _letrec_common


@special("and")
def _and(s, x, env, k, dyn):
    parts = to_py(x.cdr)
    if not parts:
        return lambda: k(True)

    def step(i):
        if i == len(parts) - 1:
            return s.ev(parts[i], env, k, dyn)
        return s.ev(parts[i], env, lambda v: (lambda: k(v)) if v is False else step(i + 1), dyn)
    return step(0)


@special("or")
def _or(s, x, env, k, dyn):
    parts = to_py(x.cdr)
    if not parts:
        return lambda: k(False)

    def step(i):
        if i == len(parts) - 1:
            return s.ev(parts[i], env, k, dyn)
        return s.ev(parts[i], env, lambda v: (lambda: k(v)) if v is not False else step(i + 1), dyn)
    return step(0)


@special("when")
def _when(s, x, env, k, dyn):
    return s.ev(x.cdr.car, env,
                lambda v: s.seq(to_py(x.cdr.cdr), env, k, dyn) if v is not False else (lambda: k(UNSPEC)), dyn)


@special("unless")
def _unless(s, x, env, k, dyn):
    return s.ev(x.cdr.car, env,
                lambda v: s.seq(to_py(x.cdr.cdr), env, k, dyn) if v is False else (lambda: k(UNSPEC)), dyn)


def _clauses(s, clauses, env, k, dyn, fallthrough):
    """cond-style clause evaluation (also used by the expansion of guard)"""
    def step(i):
        if i == len(clauses):
            return fallthrough()
        c = clauses[i]
        if c.car == "else":
            return s.seq(to_py(c.cdr), env, k, dyn)

        def got(v):
            if v is False:
                return step(i + 1)
            if c.cdr is NIL:
                return lambda: k(v)
            if c.cdr.car == "=>":
                return s.ev(c.cdr.cdr.car, env, lambda f: s.apply(f, [v], k, dyn), dyn)
            return s.seq(to_py(c.cdr), env, k, dyn)
        return s.ev(c.car, env, got, dyn)
    return step(0)


@special("cond")
def _cond(s, x, env, k, dyn):
    return _clauses(s, to_py(x.cdr), env, k, dyn, lambda: (lambda: k(UNSPEC)))


@special("parameterize")
def _parameterize(s, x, env, k, dyn):
    bindings, body = to_py(x.cdr.car), to_py(x.cdr.cdr)
    pairs = []

    def step(i):
        if i == len(bindings):
            d2 = dyn.but(params=dyn.params + tuple(pairs))
            return s.body(body, Env(env), k, d2)
        b = bindings[i]

        def gotp(p):
            def gotv(v):
                if p.conv is None:
                    pairs.append((p, v))
                    return step(i + 1)
                s.stats.conversions += 1

                def gotc(cv):
                    pairs.append((p, cv))
                    return step(i + 1)
                return s.apply(p.conv, [v], gotc, dyn.but(site="conv"))
            return s.ev(b.cdr.car, env, gotv, dyn)
        return s.ev(b.car, env, gotp, dyn)
    return step(0)


_gensym = [0]


def _gs(base):
    _gensym[0] += 1
    return Sym("%%%s.%d" % (base, _gensym[0]))


def _q(name):
    """reference to a global control procedure that generated programs never shadow"""
    return Sym(name)


@special("guard")
def _guard(s, x, env, k, dyn):
    """R7RS 7.3 derived-expression definition of guard, expanded literally:
      ((call/cc (lambda (guard-k)
         (with-exception-handler
           (lambda (condition)
             ((call/cc (lambda (handler-k)
                (guard-k (lambda () (let ((var condition))
                   (guard-aux (handler-k (lambda () (raise-continuable condition))) clause ...))))))))
           (lambda ()
             (call-with-values (lambda () e1 e2 ...)
               (lambda args (guard-k (lambda () (apply values args))))))))))))
    guard-aux is cond over the clauses with the reraise thunk call as the fall-through."""
    spec = x.cdr.car
    var, clauses = spec.car, to_py(spec.cdr)
    body = x.cdr.cdr
    gk, hk, cond_, args = _gs("guard-k"), _gs("handler-k"), _gs("condition"), _gs("args")
    L = Sym("lambda")
    reraise = lst(hk, lst(L, NIL, lst(_q("raise-continuable"), cond_)))
    has_else = bool(clauses) and clauses[-1].car == "else"
    cl = list(clauses) if has_else else list(clauses) + [lst(Sym("else"), reraise)]
    aux = Pair(Sym("cond"), lst(*cl))
    handler = lst(L, lst(cond_),
                  lst(lst(_q("call/cc"),
                          lst(L, lst(hk),
                              lst(gk, lst(L, NIL, lst(Sym("let"), lst(lst(var, cond_)), aux)))))))
    thunk = lst(L, NIL,
                lst(_q("call-with-values"), Pair(L, Pair(NIL, body)),
                    lst(L, args, lst(gk, lst(L, NIL, lst(_q("apply"), _q("values"), args))))))
    form = lst(lst(_q("call/cc"), lst(L, lst(gk), lst(_q("with-exception-handler"), handler, thunk))))
    return s.ev(form, env, k, dyn)


class Result:
    __slots__ = ("trace", "kind", "value", "stats", "steps")

    def __init__(self, trace, kind, value, stats, steps):
        self.trace = trace        # list of printed event texts
        self.kind = kind          # value | raised | budget
        self.value = value        # printed text of the value (kind == value)
        self.stats = stats
        self.steps = steps


def run_program(text, budget=400000):
    """Evaluate the program text (one or more forms, as one body); return a Result."""
    if sys.getrecursionlimit() < 20000:
        sys.setrecursionlimit(20000)
    it = Interp(budget)
    forms = parse(text)
    try:
        kind, v = it.eval_program(forms)
    except Budget:
        return Result(it.trace, "budget", None, it.stats, it.steps)
    return Result(it.trace, kind, show(v) if kind == "value" else None, it.stats, it.steps)


if __name__ == "__main__":
    r = run_program(sys.stdin.read())
    print("(" + " ".join(r.trace) + ")", r.kind, r.value)
    print(sorted(r.stats.features()), "unspecified" if r.stats.unspecified else "")
