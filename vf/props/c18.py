"""C18 -- sorting and container libraries conform to their abstract data types (DESIGN.md section 3, C18).

Sorts: every input (length 0-2000, dense 0..40, six shapes) is sorted by every algorithm of one library in
one case; elements are (key . tag) pairs with unique tags, so the printed tag list shows the permutation and
stability.  Oracle: Python `sorted` (stable); for the SRFI 132 procedures that may be unstable only
"ordered by key and a permutation".
Containers: per library operation histories (<= 200 ops, 4 live objects) against Python list / set / dict /
Counter models (c18_libs.py); after every step the result is printed in a canonical form together with a
checksum of every live object, so a change to an object that was not an operand (a disturbed persistent
version) is seen at the step that caused it.
One case-file group per library: a library that fails to load cannot mask the others.
"""
import random
from fractions import Fraction

from .. import build as B
from .. import cases as C
from ..sexpr import Sym, Vec, Dotted
from . import c18_libs as L

# ----------------------------------------------------------------------------------------------
# sorts

SHAPES = ["sorted", "reversed", "organ-pipe", "constant", "few-distinct", "random"]


def len_class(n):
    if n <= 1:
        return str(n)
    if n <= 3:
        return "2-3"
    for lo, hi in ((4, 7), (8, 15), (16, 40), (41, 200), (201, 2000)):
        if n <= hi:
            return "%d-%d" % (lo, hi)
    return ">2000"


def make_keys(rng, n, shape):
    if shape == "sorted":
        return list(range(n))
    if shape == "reversed":
        return list(range(n, 0, -1))
    if shape == "organ-pipe":
        return list(range(n // 2)) + list(range(n - n // 2, 0, -1))
    if shape == "constant":
        return [7] * n
    if shape == "few-distinct":
        return [rng.randrange(0, 3) for _ in range(n)]
    return [rng.randrange(0, max(2, n // 2 + 1)) for _ in range(n)]


def sort_inputs(rng, tier):
    out = []
    lens = list(range(0, 41))
    if tier == "quick":
        extra = [47, 63, 64, 65, 100, 127, 128, 129, 255, 256, 257, 500, 1000, 1023, 1025, 2000]
        reps = 1
    else:
        extra = list(range(41, 300, 7)) + [500, 511, 512, 513, 1000, 1023, 1024, 1025, 1500, 2000] * 3
        reps = 8
    for _ in range(reps):
        for n in lens + extra:
            shapes = SHAPES if (n <= 40 and tier != "quick") else [rng.choice(SHAPES), rng.choice(SHAPES)]
            if n <= 8 and tier == "quick":
                shapes = SHAPES[:]
            for sh in shapes:
                out.append((n, sh, make_keys(rng, n, sh)))
    return out


def pairs_lit(keys):
    return "(" + " ".join("(%d . %d)" % (k, i) for i, k in enumerate(keys)) + ")"


SORT_HEADER = r"""
(define (klt a b) (< (car a) (car b)))
(define (kgt a b) (> (car a) (car b)))
(define (tags x) (map cdr (if (vector? x) (vector->list x) x)))
(define (lcopy l) (map (lambda (x) x) l))
(define (vcopy l) (list->vector l))
(define (strs l) (map (lambda (p) (cons (number->string (+ 100000 (car p))) (cdr p))) l))
(define (slt a b) (string<? (car a) (car b)))
"""

# (name, expression over `l` (fresh-consing helpers only), oracle kind)
#   stable: must equal Python's stable sort; any: sorted by key and a permutation
SORT95 = [
    ("sort", "list", "procedure", "(tags (sort (lcopy l) klt))", "asc", "stable"),
    ("sort", "vector", "procedure", "(tags (sort (vcopy l) klt))", "asc", "stable"),
    ("sort!", "list", "procedure", "(tags (sort! (lcopy l) klt))", "asc", "stable"),
    ("sort!", "vector", "procedure", "(tags (sort! (vcopy l) klt))", "asc", "stable"),
    ("sort", "list", "procedure>", "(tags (sort (lcopy l) kgt))", "desc", "stable"),
    ("sort", "vector", "procedure>", "(tags (sort (vcopy l) kgt))", "desc", "stable"),
    ("sort", "list", "opcode<+key", "(tags (sort (lcopy l) < car))", "asc", "stable"),
    ("sort", "vector", "opcode<+key", "(tags (sort (vcopy l) < car))", "asc", "stable"),
    ("sort", "list", "opcode>+key", "(tags (sort (lcopy l) > car))", "desc", "stable"),
    ("sort!", "vector", "opcode<+key", "(tags (sort! (vcopy l) < car))", "asc", "stable"),
    ("sort", "list", "string-procedure", "(tags (sort (strs l) slt))", "asc", "stable"),
    ("sort", "vector", "string-procedure", "(tags (sort (vcopy (strs l)) slt))", "asc", "stable"),
    ("sort-in-place", "vector", "procedure", "(let ((v (vcopy l))) (sort! v klt) (tags v))", "asc", "stable-inplace"),
    ("sort-in-place", "list", "procedure", "(let ((v (lcopy l))) (sort! v klt) (tags v))", "asc", "stable-inplace"),
    ("sorted?", "list", "procedure", "(list (sorted? l klt) (sorted? (sort (lcopy l) klt) klt))", "asc", "sorted?"),
    ("sorted?", "vector", "procedure", "(list (sorted? (vcopy l) klt) (sorted? (list->vector (sort (lcopy l) klt)) klt))", "asc", "sorted?"),
    ("sorted?", "list", "opcode<+key", "(list (sorted? l < car) #t)", "asc", "sorted?"),
]
SORT95_NUM = [
    ("sort", "list", "opcode<", "(sort (lcopy nums) <)", "asc"),
    ("sort", "vector", "opcode<", "(vector->list (sort (vcopy nums) <))", "asc"),
    ("sort!", "list", "opcode<", "(sort! (lcopy nums) <)", "asc"),
    ("sort!", "vector", "opcode<", "(vector->list (sort! (vcopy nums) <))", "asc"),
    ("sort", "list", "opcode>", "(sort (lcopy nums) >)", "desc"),
    ("sort", "vector", "opcode>", "(vector->list (sort (vcopy nums) >))", "desc"),
    ("sort", "list", "procedure-num", "(sort (lcopy nums) (lambda (a b) (< a b)))", "asc"),
]
SORT132 = [
    ("list-sort", "list", "procedure", "(tags (list-sort klt (lcopy l)))", "asc", "any"),
    ("list-stable-sort", "list", "procedure", "(tags (list-stable-sort klt (lcopy l)))", "asc", "stable"),
    ("list-sort!", "list", "procedure", "(tags (list-sort! klt (lcopy l)))", "asc", "any"),
    ("list-stable-sort!", "list", "procedure", "(tags (list-stable-sort! klt (lcopy l)))", "asc", "stable"),
    ("vector-sort", "vector", "procedure", "(tags (vector-sort klt (vcopy l)))", "asc", "any"),
    ("vector-stable-sort", "vector", "procedure", "(tags (vector-stable-sort klt (vcopy l)))", "asc", "stable"),
    ("vector-sort!", "vector", "procedure", "(let ((v (vcopy l))) (vector-sort! klt v) (tags v))", "asc", "any"),
    ("vector-stable-sort!", "vector", "procedure", "(let ((v (vcopy l))) (vector-stable-sort! klt v) (tags v))", "asc", "stable"),
    ("list-stable-sort", "list", "procedure>", "(tags (list-stable-sort kgt (lcopy l)))", "desc", "stable"),
    ("list-sorted?", "list", "procedure", "(list (list-sorted? klt l) (list-sorted? klt (list-stable-sort klt (lcopy l))))", "asc", "sorted?"),
    ("vector-sorted?", "vector", "procedure", "(list (vector-sorted? klt (vcopy l)) (vector-sorted? klt (vector-stable-sort klt (vcopy l))))", "asc", "sorted?"),
]


def py_sorted(keys, direction):
    idx = list(range(len(keys)))
    if direction == "asc":
        return sorted(idx, key=lambda i: keys[i])
    return sorted(idx, key=lambda i: -keys[i])


def is_sorted_strict_pred(keys, direction):
    """SRFI 95 sorted?: no adjacent pair with (less next prev)."""
    if direction == "asc":
        return all(not (keys[i + 1] < keys[i]) for i in range(len(keys) - 1))
    return all(not (keys[i + 1] > keys[i]) for i in range(len(keys) - 1))


def num_elems(rng, n, shape):
    """numbers with ties between exact and inexact representations (stability is visible in the exactness)"""
    keys = make_keys(rng, n, shape)
    out = []
    for k in keys:
        r = rng.random()
        if r < 0.55:
            out.append(k)
        elif r < 0.8:
            out.append(float(k))
        elif r < 0.9:
            out.append(Fraction(2 * k + 1, 2))
        else:
            out.append(k + 0.5)
    return out


def num_lit(x):
    if isinstance(x, float):
        return repr(x)
    if isinstance(x, Fraction):
        return "%d/%d" % (x.numerator, x.denominator)
    return str(x)


def same_num(got, exp):
    if isinstance(exp, float):
        return isinstance(got, float) and got == exp
    if isinstance(got, (float, bool)) or not isinstance(got, (int, Fraction)):
        return False
    return Fraction(got) == Fraction(exp)


def run_sorts(rep, b, env, rng, tier):
    all_inputs = sort_inputs(rng, tier)
    procs_all = []
    rep.extra["sort_inputs"] = len(all_inputs)
    for off in range(0, len(all_inputs), 400):         # chunks bound the memory held at any time
        heap_lines(rep, run_sort_chunk(rep, b, env, rng, all_inputs[off:off + 400], off))
    return procs_all


def run_sort_chunk(rep, b, env, rng, inputs, off):
    procs_all = []
    for lib, imports, table in (("srfi95", "(import (scheme base) (scheme write) (scheme process-context) (srfi 95))", SORT95),
                                ("srfi132", "(import (scheme base) (scheme write) (scheme process-context) (srfi 132))", SORT132)):
        cases = []
        meta = {}
        for ci, (n, shape, keys) in enumerate(inputs):
            cid = "%s-s%d" % (lib, off + ci)
            exprs = [t[3] for t in table]
            extra = ""
            if lib == "srfi95":
                nums = num_elems(rng, n, shape)
                extra = " (nums (list %s))" % " ".join(num_lit(x) for x in nums)
                exprs += [t[3] for t in SORT95_NUM]
                # merge of two sorted halves (stable: ties take the first list's element first)
                a = sorted(range(0, n, 2), key=lambda i: keys[i])
                bb = sorted(range(1, n, 2), key=lambda i: keys[i])
                la = "(" + " ".join("(%d . %d)" % (keys[i], i) for i in a) + ")"
                lb = "(" + " ".join("(%d . %d)" % (keys[i], i) for i in bb) + ")"
                exprs.append("(tags (merge (lcopy '%s) (lcopy '%s) klt))" % (la, lb))
                exprs.append("(tags (merge! (lcopy '%s) (lcopy '%s) klt))" % (la, lb))
                meta[cid] = (n, shape, keys, nums, a, bb)
            else:
                a = sorted(range(0, n, 2), key=lambda i: keys[i])
                bb = sorted(range(1, n, 2), key=lambda i: keys[i])
                la = "(" + " ".join("(%d . %d)" % (keys[i], i) for i in a) + ")"
                lb = "(" + " ".join("(%d . %d)" % (keys[i], i) for i in bb) + ")"
                exprs.append("(tags (list-merge klt (lcopy '%s) (lcopy '%s)))" % (la, lb))
                exprs.append("(tags (vector-merge klt (vcopy '%s) (vcopy '%s)))" % (la, lb))
                # ranges
                s = rng.randrange(0, n + 1)
                e = rng.randrange(s, n + 1)
                exprs.append("(tags (vector-sort klt (vcopy l) %d %d))" % (s, e))
                exprs.append("(let ((v (vcopy l))) (vector-stable-sort! klt v %d %d) (tags v))" % (s, e))
                exprs.append("(tags (list-delete-neighbor-dups (lambda (a b) (= (car a) (car b))) l))")
                exprs.append("(tags (vector-delete-neighbor-dups (lambda (a b) (= (car a) (car b))) (vcopy l)))")
                exprs.append("(let* ((v (vcopy l)) (e (vector-delete-neighbor-dups! (lambda (a b) (= (car a) (car b))) v %d %d))) (cons e (tags (vector-copy v %d e))))" % (s, e, s))
                k = rng.randrange(0, n) if n else 0
                exprs.append("(if (= %d 0) -1 (car (vector-select! klt (vcopy l) %d)))" % (n, k))
                exprs.append("(if (= %d 0) '() (let ((v (vcopy l))) (vector-separate! klt v %d) (map car (vector->list v))))" % (n, k))
                exprs.append("(vector-find-median < (list->vector (map car l)) -1)")
                meta[cid] = (n, shape, keys, None, a, bb, s, e, k)
            form = "(%%case %s (let ((l '%s)%s) (list %s)))" % (
                cid, pairs_lit(keys), extra, "\n  ".join("(%%try (lambda () %s))" % e for e in exprs))
            cases.append((cid, form))
        res, procs = C.run_batches(b, imports, SORT_HEADER, cases, batch=40, env_extra=env, timeout=120, heap="64M/512M")
        procs_all += procs
        nops = 0
        for cid, form in cases:
            nops += judge_sort(rep, lib, table, meta[cid], res.get(cid), form)
        rep.count("ops_" + lib, nops)
        procs_all = [p for p in procs_all]
    return procs_all


def judge_sort(rep, lib, table, meta, res, form):
    n, shape, keys = meta[0], meta[1], meta[2]
    lc = len_class(n)
    sig0 = {"lib": lib, "len": lc}
    wit = {"form": form[:1500] if n <= 40 else form[:300] + " ...", "n": n, "shape": shape}
    if res is None or res.status == "missing":
        rep.inconc("no-output", lib)
        return 0
    if res.status == "timeout":
        rep.inconc("timeout", wit)
        return 0
    if res.status == "crash":
        wit["detail"] = res.detail
        rep.violation(dict(sig0, op="sort-case", mode="crash"), wit)
        return 0
    try:
        data = res.data()
        assert len(data) == 1
        obs = data[0]
    except Exception:
        wit["got"] = res.text[:500]
        rep.violation(dict(sig0, op="sort-case", mode="unparsable-output"), wit)
        return 0
    if isinstance(obs, list) and len(obs) == 2 and obs[0] == Sym("err"):
        wit["got"] = res.text[:300]
        rep.violation(dict(sig0, op="sort-case", mode="error"), wit)
        return 0
    done = 0
    seen = set()

    def viol(sig, extra):
        key = tuple(sorted(sig.items()))
        if key in seen:
            return
        seen.add(key)
        rep.violation(sig, dict(wit, **extra))

    def is_err(x):
        return isinstance(x, list) and len(x) == 2 and x[0] == Sym("err")

    pos = 0
    for (op, seq, less, expr, direction, kind) in table:
        got = obs[pos]
        pos += 1
        done += 1
        rep.case((lib, op, seq, less, shape, lc), n=1)
        sig = dict(sig0, op=op, seq=seq, less=less)
        if kind == "sorted?":
            exp = [is_sorted_strict_pred(keys, direction), True]
            if got != exp:
                viol(dict(sig, mode="wrong-result"), {"expr": expr, "expected": exp, "got": got})
            continue
        exp = py_sorted(keys, direction)
        check_perm(viol, sig, expr, got, exp, keys, direction, kind)
    if lib == "srfi95":
        nums = meta[3]
        for (op, seq, less, expr, direction) in SORT95_NUM:
            got = obs[pos]
            pos += 1
            done += 1
            rep.case((lib, op, seq, less, shape, lc), n=1)
            sig = dict(sig0, op=op, seq=seq, less=less)
            exp = sorted(nums, key=lambda x: Fraction(x) if direction == "asc" else -Fraction(x))
            ok = isinstance(got, list) and len(got) == len(exp) and all(same_num(g, e) for g, e in zip(got, exp))
            if not ok:
                vals_ok = isinstance(got, list) and len(got) == len(exp) and all(
                    isinstance(g, (int, float, Fraction)) and not isinstance(g, bool) and Fraction(g) == Fraction(e)
                    for g, e in zip(got, exp))
                viol(dict(sig, mode="unstable" if vals_ok else "wrong-result"),
                     {"expr": expr, "expected": [num_lit(x) for x in exp][:60], "got": str(got)[:400]})
        a, bb = meta[4], meta[5]
        expm = sorted(a + bb, key=lambda i: (keys[i], 0 if i in set(a) else 1))
        # stable merge: by key; ties: all of list 1 before list 2, each in its own order
        expm = merge_model(a, bb, keys)
        for op in ("merge", "merge!"):
            got = obs[pos]
            pos += 1
            done += 1
            rep.case((lib, op, "list", "procedure", shape, lc), n=1)
            if got != expm:
                viol(dict(sig0, op=op, seq="list", less="procedure", mode=classify(got, expm, keys, "asc")),
                     {"expected": expm[:80], "got": str(got)[:400]})
    else:
        a, bb, s, e, k = meta[4], meta[5], meta[6], meta[7], meta[8]
        expm = merge_model(a, bb, keys)
        for op, seq in (("list-merge", "list"), ("vector-merge", "vector")):
            got = obs[pos]
            pos += 1
            done += 1
            rep.case((lib, op, seq, "procedure", shape, lc), n=1)
            if got != expm:
                viol(dict(sig0, op=op, seq=seq, less="procedure", mode=classify(got, expm, keys, "asc")),
                     {"expected": expm[:80], "got": str(got)[:400]})
        rlc = len_class(e - s)
        # vector-sort with range -> the sorted slice
        got = obs[pos]
        pos += 1
        done += 1
        rep.case((lib, "vector-sort-range", "vector", "procedure", shape, rlc), n=1)
        exp = sorted(range(s, e), key=lambda i: keys[i])
        check_perm(viol, dict(sig0, op="vector-sort-range", seq="vector", less="procedure", len=rlc), "vector-sort range",
                   got, exp, keys, "asc", "any")
        got = obs[pos]
        pos += 1
        done += 1
        rep.case((lib, "vector-stable-sort!-range", "vector", "procedure", shape, rlc), n=1)
        exp = list(range(0, s)) + sorted(range(s, e), key=lambda i: keys[i]) + list(range(e, n))
        if got != exp:
            viol(dict(sig0, op="vector-stable-sort!-range", seq="vector", less="procedure", len=rlc,
                      mode=classify(got, exp, keys, "asc") if s == 0 and e == n else "wrong-result"),
                 {"range": [s, e], "expected": exp[:80], "got": str(got)[:400]})
        # neighbor dups: first of every run
        runs = [i for i in range(n) if i == 0 or keys[i] != keys[i - 1]]
        for op in ("list-delete-neighbor-dups", "vector-delete-neighbor-dups"):
            got = obs[pos]
            pos += 1
            done += 1
            rep.case((lib, op, "-", "-", shape, lc), n=1)
            if got != runs:
                viol(dict(sig0, op=op, mode="wrong-result"), {"expected": runs[:80], "got": str(got)[:400]})
        got = obs[pos]
        pos += 1
        done += 1
        rep.case((lib, "vector-delete-neighbor-dups!", "-", "-", shape, rlc), n=1)
        rr = [i for i in range(s, e) if i == s or keys[i] != keys[i - 1]]
        exp = Dotted([], None)
        ok = isinstance(got, (list, Dotted))
        if isinstance(got, Dotted):
            gl = got.items + ([got.tail] if got.tail != [] else [])
        else:
            gl = got
        if not ok or gl != [s + len(rr)] + rr:
            viol(dict(sig0, op="vector-delete-neighbor-dups!", len=rlc, mode="wrong-result"),
                 {"range": [s, e], "expected": [s + len(rr)] + rr[:60], "got": str(got)[:400]})
        # select / separate / median
        sk = sorted(keys)
        got = obs[pos]
        pos += 1
        done += 1
        rep.case((lib, "vector-select!", "-", "-", shape, lc), n=1)
        exp = sk[k] if n else -1
        if got != exp:
            viol(dict(sig0, op="vector-select!", mode="wrong-result"), {"k": k, "expected": exp, "got": str(got)[:100]})
        got = obs[pos]
        pos += 1
        done += 1
        rep.case((lib, "vector-separate!", "-", "-", shape, lc), n=1)
        ok = isinstance(got, list) and sorted(got) == sk and (n == 0 or (sorted(got[:k]) == sk[:k]))
        if not ok:
            viol(dict(sig0, op="vector-separate!", mode="wrong-result"), {"k": k, "got": str(got)[:300]})
        got = obs[pos]
        pos += 1
        done += 1
        rep.case((lib, "vector-find-median", "-", "-", shape, lc), n=1)
        if n == 0:
            exp = -1
        elif n % 2:
            exp = sk[n // 2]
        else:
            exp = Fraction(sk[n // 2 - 1] + sk[n // 2], 2)
        if not (isinstance(got, (int, Fraction)) and not isinstance(got, bool) and Fraction(got) == Fraction(exp)):
            viol(dict(sig0, op="vector-find-median", mode="wrong-result"), {"expected": str(exp), "got": str(got)[:100]})
    return done


def merge_model(a, b, keys):
    out = []
    i = j = 0
    while i < len(a) or j < len(b):
        if j >= len(b) or (i < len(a) and not (keys[b[j]] < keys[a[i]])):
            out.append(a[i])
            i += 1
        else:
            out.append(b[j])
            j += 1
    return out


def classify(got, exp, keys, direction):
    if isinstance(got, list) and len(got) == 2 and got[0] == Sym("err"):
        return "error"
    if not isinstance(got, list) or any(not isinstance(x, int) or isinstance(x, bool) for x in got):
        return "wrong-result"
    if sorted(got) != sorted(exp):
        return "not-a-permutation"
    ks = [keys[i] for i in got]
    if any((ks[i + 1] < ks[i]) if direction == "asc" else (ks[i + 1] > ks[i]) for i in range(len(ks) - 1)):
        return "not-sorted"
    return "unstable"


def check_perm(viol, sig, expr, got, exp, keys, direction, kind):
    if got == exp:
        return
    mode = classify(got, exp, keys, direction)
    if mode == "unstable" and kind == "any":
        return
    viol(dict(sig, mode=mode), {"expr": expr, "expected": exp[:80], "got": str(got)[:400]})


# ----------------------------------------------------------------------------------------------
# container histories

def ck(lst):
    acc = len(lst)
    for x in lst:
        acc = (acc * 31 + (x % 1000003) + 1) % 1000000007
    return acc


ENGINE_HEADER = r"""
;; flush after every observation: a hang or crash is then attributed to the right step
(define (%obs x) (write x) (newline) (flush-output-port))
(define (%ck ls)
  (let lp ((ls ls) (acc (length ls)))
    (if (null? ls) acc (lp (cdr ls) (modulo (+ (* acc 31) (modulo (car ls) 1000003) 1) 1000000007)))))
(define (%ins x ls) (cond ((null? ls) (list x)) ((<= x (car ls)) (cons x ls)) (else (cons (car ls) (%ins x (cdr ls))))))
(define (%sorted ls) (let lp ((ls ls) (acc '())) (if (null? ls) acc (lp (cdr ls) (%ins (car ls) acc)))))
(define (%b x) (if x 1 0))
"""


def gen_history(lib, rng, hid, nops):
    h = L.Hist(lib, rng)
    steps = []
    tries = 0
    while len(steps) < nops and tries < nops * 5:
        tries += 1
        op = lib.pick(rng)
        r = op(h, rng)
        if r is None:
            continue
        name, code, expected = r[:3]
        pure = len(r) > 3 and r[3] == "pure"
        cks = [ck(lib.canon(m)) for m in h.m]
        steps.append((name, code, [expected] + cks, [lib.size(m) for m in h.m], pure, dict(h.sig_extra)))
    binds = " ".join("(o%d %s)" % (i, e) for i, e in enumerate(h.init_exprs))
    body = "\n ".join("(%%obs (let* ((r %s)) (list r %s)))" % (s[1], " ".join("(%%ck (%%canon o%d))" % i for i in range(len(h.m))))
                      for s in steps)
    form = "(%%case* %s (let* (%s)\n %s))" % (hid, binds, body)
    return {"id": hid, "form": form, "steps": steps, "lib": lib.name}


def norm(x):
    """observations: ints, bools, nested lists; Dotted/Vec are normalised to lists"""
    if isinstance(x, Vec):
        return [norm(y) for y in x]
    if isinstance(x, Dotted):
        return [norm(y) for y in x.items] + [Sym(".")] + [norm(x.tail)]
    if isinstance(x, list):
        return [norm(y) for y in x]
    return x


def same(got, exp):
    if isinstance(exp, bool):
        return isinstance(got, bool) and got == exp
    if isinstance(exp, list):
        return isinstance(got, list) and len(got) == len(exp) and all(same(g, e) for g, e in zip(got, exp))
    if isinstance(exp, int):
        return isinstance(got, int) and not isinstance(got, bool) and got == exp
    if isinstance(exp, Fraction):
        return isinstance(got, (int, Fraction)) and not isinstance(got, bool) and Fraction(got) == exp
    return got == exp


def judge_history(rep, h, res):
    lib = h["lib"]
    wit = {"history": h["id"], "lib": lib}
    if res is None or res.status == "missing":
        rep.inconc("no-output", h["id"])
        return 0
    if res.status == "timeout":
        rep.inconc("timeout", {"history": h["id"], "lib": lib})
        return 0
    try:
        data = [norm(x) for x in res.data()]
    except Exception:
        wit["got"] = res.text[-600:]
        rep.violation({"lib": lib, "op": "history", "mode": "unparsable-output"}, wit)
        return 0
    steps = h["steps"]
    done = 0
    reported = set()
    for i, (name, code, exp, sizes, pure, sx) in enumerate(steps):
        if i >= len(data):
            break
        got = data[i]
        if not (isinstance(got, list) and len(got) == len(exp)):
            wit.update({"step": i, "op": code, "got": str(got)[:400], "prefix": [s[1] for s in steps[max(0, i - 6):i]],
                        "form": h["form"][:5000]})
            rep.violation(dict({"lib": lib, "op": name, "mode": "unparsable-output"}, **sx), wit)
            return done
        if not same(got[0], exp[0]) and pure and got[1:] == exp[1:]:
            # a pure query: the state is still in step with the model, report and go on
            if name not in reported:
                reported.add(name)
                iserr = isinstance(got[0], list) and len(got[0]) == 2 and got[0][0] == Sym("err")
                rep.violation(dict({"lib": lib, "op": name, "mode": "error" if iserr else "wrong-result"}, **sx),
                              dict(wit, step=i, op=code, expected=str(exp[0])[:600], got=str(got[0])[:600],
                                   prefix=[s[1] for s in steps[max(0, i - 6):i]], form=h["form"][:5000]))
            done += 1
            continue
        if not same(got[0], exp[0]):
            wit.update({"step": i, "op": code, "expected": str(exp[0])[:600], "got": str(got[0])[:600],
                        "prefix": [s[1] for s in steps[max(0, i - 6):i]], "form": h["form"][:5000]})
            rep.violation(dict({"lib": lib, "op": name, "mode": "wrong-result"}, **sx), wit)
            return done
        if got[1:] != exp[1:]:
            bad = [j for j in range(len(exp) - 1) if got[1 + j] != exp[1 + j]]
            wit.update({"step": i, "op": code, "objects": bad, "prefix": [s[1] for s in steps[max(0, i - 6):i]],
                        "form": h["form"][:5000]})
            rep.violation(dict({"lib": lib, "op": name, "mode": "object-state-differs"}, **sx), wit)
            return done
        done += 1
        rep.case((lib, name), n=1)
        rep.maxi("max_size_" + lib, max(sizes))
    if res.status == "crash" or len(data) < len(steps):
        i = min(len(data), len(steps) - 1)
        wit.update({"step": i, "op": steps[i][1], "detail": res.detail, "prefix": [s[1] for s in steps[max(0, i - 6):i]],
                    "form": h["form"][:5000]})
        rep.violation(dict({"lib": lib, "op": steps[i][0], "mode": "crash"}, **steps[i][5]), wit)
    return done


class SlimReport:
    """Forwards to the Report but keeps full witnesses only for the first few violations of a signature."""

    def __init__(self, rep, keep=20):
        self._rep = rep
        self._n = {}
        self._keep = keep

    def __getattr__(self, name):
        return getattr(self._rep, name)

    def violation(self, sig, wit):
        key = tuple(sorted((k, str(v)) for k, v in sig.items()))
        self._n[key] = self._n.get(key, 0) + 1
        if self._n[key] > self._keep:
            wit = {"note": "witness omitted: more than %d occurrences of this signature in the run" % self._keep}
        self._rep.violation(sig, wit)


def heap_lines(rep, procs):
    for p in procs:
        for l in p.log_lines("HEAPCHECK-FAIL"):
            rep.violation({"lib": "heapcheck", "mode": l.split()[1] if len(l.split()) > 1 else "?"}, {"line": l})
        for d in p.log_kv("HEAPCHECK-SUMMARY"):
            rep.count("heap_checks", d.get("runs", 0))
            rep.count("heap_objects_checked", d.get("objects", 0))
    rep.count("processes", len(procs))


def check(rep, tier, seed, variant="hooks"):
    real = rep
    rep = SlimReport(real)
    rng = random.Random(seed * 130003 + 18)
    b = B.ensure(variant)
    real.builds.add(variant)
    env = {"CHIBI_VERIF_HEAPCHECK": 1}
    quick = tier == "quick"
    heap_lines(rep, run_sorts(rep, b, env, rng, tier))
    nh = 45 if quick else 2000
    for lib in L.LIBS:
        hs = []
        for i in range(nh):
            nops = rng.choice([40, 100, 200]) if quick else rng.choice([60, 120, 200])
            hs.append(gen_history(lib, rng, "%s-h%d" % (lib.name, i), nops))
        res, ps = C.run_batches(b, lib.imports, ENGINE_HEADER + lib.header, [(h["id"], h["form"]) for h in hs], batch=5,
                                env_extra=env, timeout=20, heap="64M/512M")
        heap_lines(rep, ps)
        ops = 0
        for h in hs:
            ops += judge_history(rep, h, res.get(h["id"]))
        rep.extra["ops_" + lib.name] = ops
        rep.extra["histories_" + lib.name] = len(hs)
        rep.extra["op_kinds_" + lib.name] = len({s[0] for h in hs for s in h["steps"]})
        if hs:
            rep.sample({"lib": lib.name, "history": hs[0]["form"][:500]})
    rep = real
    rep.rule = ("sorts: every length 0..40 and selected lengths up to 2000 x shapes sorted/reversed/organ-pipe/constant/"
                "few-distinct/random, elements (key . unique tag), every algorithm of (srfi 95) and (srfi 132) on lists and "
                "vectors with opcode and Scheme-procedure orderings, key argument, ranges; distinct = (library, procedure, "
                "sequence type, ordering kind, shape, length class).  containers: random operation histories of 40-200 steps "
                "over 4 live objects per library, results and checksums of all live objects compared with Python models after "
                "every step; distinct = (library, operation)")
    rep.assumptions = ["Python sorted/list/set/dict/Counter are correct", "the observation reader (vf/sexpr.py) is correct",
                       "orderings and predicates passed to the libraries are total, consistent and never raise",
                       "linear-update (!) procedures are applied to fresh copies or their argument is dropped afterwards, as the "
                       "SRFIs allow them to destroy it; results whose order the SRFI leaves open are compared as sorted lists"]
