"""C06 -- continuations, dynamic-wind, parameters and exceptions follow the R7RS model (DESIGN.md 3, C06).

Oracle: vf/props/c06_ref.py, a definitional CPS interpreter with the R7RS control model.  Every case is
one *control script*: a single top-level form that logs events (symbols pushed by before/after thunks,
handlers, body steps, observed parameter values, converter calls, returned values) into a list and
prints `(events value)`; the model computes the expected print-out when the script is generated.

Families
  enum-k    exhaustive: every script tree over {dynamic-wind, capture k0/k1, throw k0/k1, (+ 1 _), begin-pair}
            up to a size bound (wind depth <= 2, <= 2 continuations) that captures and throws at least once
  enum-x    exhaustive: small trees over {dynamic-wind, returning handler, guard (match / no match),
            parameterize, capture, throw} with leaves {value, raise, raise-continuable, parameter read}
  rand      seeded, *biased* sampling above the bound: wind depth <= 4, 3 continuations each thrown to 0-2
            times from inside / a sibling extent / after exit / a handler / a guard clause; parameterize
            with a logging converter; handlers that return, escape, re-raise; all guard shapes
  pingpong  generator-style re-entry: producer and consumer coroutines through two stored continuations,
            each side inside its own winds / parameterize / handlers
  eval      the raise / continuation invocation happens in code run by (eval ... env) inside the extent;
            every case in its own process, own signature {kind: nested-loop-escape, via: eval}

Soundness: R7RS 6.10 leaves entering/leaving a before/after thunk by a continuation unspecified, so no
generated script does that (the generators avoid it by construction and the model flags it as a safety
net: flagged scripts are dropped and counted).  At most one operand of an application has effects.
Loops terminate by construction: a continuation slot is thrown to at most twice (counter checked before
the throw), raises are finite, coroutines perform a fixed number of resumptions.
"""
import concurrent.futures
import os
import random

from .. import build as B
from .. import cases as C
from .. import run as R
from .. import sexpr
from . import c06_ref as M

IMPORTS = "(import (scheme base) (scheme write) (scheme eval) (scheme process-context))"
HEADER = r"""
(define %trace '())
(define (log! x) (set! %trace (cons x %trace)))
(define %env (environment '(scheme base)))
(define-syntax %c6
  (syntax-rules ()
    ((_ id script)
     (let ()
       (newline) (display "#") (display 'id) (newline)
       (set! %trace '())
       (let ((r script))
         (%obs (list (reverse %trace) r)))
       (flush-output-port)))))
"""
NK = 3           # continuation slots k0..k2
MAXTHROW = 2     # each slot is thrown to at most twice


# ------------------------------------------------------------------------------------------------
# script trees -> Scheme text
# ------------------------------------------------------------------------------------------------
class Render:
    """Renders a script tree; numbers the constructs in preorder so that every log label is unique."""

    def __init__(self):
        self.n = 0

    def fresh(self):
        self.n += 1
        return self.n

    def throw(self, j, v, fallback):
        return "(if (and k%d (< c%d %d)) (begin (set! c%d (+ c%d 1)) (k%d %d)) %s)" % (j, j, MAXTHROW, j, j, j, v, fallback)

    def thunk(self, tag, n, extra):
        """body of a before/after thunk: logs, never leaves or enters by a continuation"""
        if extra is None:
            return "(log! '%s%d)" % (tag, n)
        if extra == "pref":
            return "(log! (list '%s%d (p)))" % (tag, n)
        if extra == "qref":
            return "(log! (list '%s%d (q)))" % (tag, n)
        if extra == "rc":      # continuable raise answered by a *returning* handler (checked by the generator)
            return "(log! (list '%s%d (raise-continuable 't%d)))" % (tag, n, n)
        if extra == "cc":      # a continuation used entirely inside the thunk
            return "(log! (list '%s%d (+ 1 (call/cc (lambda (k) (+ 10 (k %d)))))))" % (tag, n, n % 7)
        raise ValueError(extra)

    def ex(self, t):
        op = t[0]
        if op == "val":
            return str(t[1])
        n = self.fresh()
        if op == "log":
            return "(begin (log! 's%d) %s)" % (n, self.ex(t[1]))
        if op == "seq":
            a = self.ex(t[1])
            return "(begin %s %s)" % (a, self.ex(t[2]))
        if op == "plus":
            return "(+ 1 %s)" % self.ex(t[1])
        if op == "local":
            return "(let ((x%d %d)) (let ((r%d %s)) (log! (list 'x%d x%d)) r%d))" % (n, t[1], n, self.ex(t[2]), n, n, n)
        if op == "wind":
            e, bx, ax = t[1], t[2], t[3]
            return "(dynamic-wind (lambda () %s) (lambda () %s) (lambda () %s))" % (
                self.thunk("in", n, bx), self.ex(e), self.thunk("out", n, ax))
        if op == "cap":
            return "(call/cc (lambda (k) (set! k%d k) %s))" % (t[1], self.ex(t[2]))
        if op == "thr":
            return self.throw(t[1], t[2], self.ex(t[3]))
        if op == "weh":
            hk, harg, e = t[1], t[2], t[3]
            if hk == "ret":
                hb = "%d" % harg
            elif hk == "esc":
                hb = self.throw(harg[0], harg[1], "%d" % harg[2])
            elif hk == "reraise":
                hb = "(raise 'd%d)" % n
            elif hk == "rc":
                hb = "(+ 1 (raise-continuable 'd%d))" % n
            elif hk == "pref":
                hb = "(p)"
            elif hk == "nest":           # an arbitrary sub-script runs inside the handler
                hb = self.ex(harg)
            else:
                raise ValueError(hk)
            return ("(with-exception-handler (lambda (e) (log! (list 'h%d (if (symbol? e) e 'err))) %s) (lambda () %s))"
                    % (n, hb, self.ex(e)))
        if op == "raise":
            return "(begin (log! 'r%d) (raise 'c%d))" % (n, n)
        if op == "raisec":
            return "(+ 1 (raise-continuable 'c%d))" % n
        if op == "err":
            return "(begin (log! 'r%d) (error \"boom\" %d))" % (n, n)
        if op == "guard":
            gk, garg, e = t[1], t[2], t[3]
            body = self.ex(e)
            if gk == "match":
                cl = "((symbol? e) (log! (list 'g%d e)) %d)" % (n, garg)
            elif gk == "nomatch":
                cl = "((eq? e 'zz) 0)"
            elif gk == "else":
                cl = "(#f 0) (else (log! (list 'g%d (if (symbol? e) e 'err))) %d)" % (n, garg)
            elif gk == "arrow":
                cl = "((and (symbol? e) %d) => (lambda (x) (log! (list 'g%d e x)) (+ x 1)))" % (garg, n)
            elif gk == "test":
                cl = "((eq? e 'zz)) ((and (symbol? e) %d))" % garg
            elif gk == "reraise":
                cl = "((symbol? e) (log! (list 'g%d e)) (raise 'd%d))" % (n, n)
            elif gk == "rc":
                cl = "((symbol? e) (log! (list 'g%d e)) (+ 1 (raise-continuable 'd%d)))" % (n, n)
            elif gk == "throw":
                cl = "((symbol? e) (log! (list 'g%d e)) %s)" % (n, self.throw(garg[0], garg[1], "%d" % garg[2]))
            elif gk == "pref":
                cl = "((symbol? e) (log! (list 'g%d e (p))) 3)" % n
            elif gk == "nest":           # an arbitrary sub-script runs as the clause body (in the guard's extent)
                cl = "((symbol? e) (log! (list 'g%d e)) %s)" % (n, self.ex(garg))
            else:
                raise ValueError(gk)
            return "(guard (e %s) %s)" % (cl, body)
        if op == "param":
            return "(parameterize ((%s %d)) %s)" % (t[1], t[2], self.ex(t[3]))
        if op == "param2":
            return "(parameterize ((p %d) (q %d)) %s)" % (t[1], t[2], self.ex(t[3]))
        if op == "pref":
            return "(begin (log! (list '%s (%s))) %s)" % (t[1], t[1], self.ex(t[2]))
        if op == "evraise":     # eval family: the raise happens in code run by eval
            return "(begin (log! 'r%d) (eval '(%s 'c%d) %%env))" % (n, t[1], n)
        if op == "evthr":       # eval family: the continuation is invoked by a procedure compiled by eval
            j = t[1]
            return ("(if (and k%d (< c%d %d)) (begin (set! c%d (+ c%d 1)) ((eval '(lambda (k v) (+ 1 (k v))) %%env) k%d %d)) %s)"
                    % (j, j, MAXTHROW, j, j, j, t[2], self.ex(t[3])))
        if op == "evbody":      # eval family: a whole thunk compiled by eval calls back into the script
            return "((eval '(lambda (f) (+ 1 (f))) %%env) (lambda () %s))" % self.ex(t[1])
        raise ValueError(op)


def script_text(segments, conv_logs=True):
    """segments: list of trees; each is evaluated in a value-logging non-tail position"""
    r = Render()
    body = " ".join("(log! (list 'v%d %s))" % (i, r.ex(t)) for i, t in enumerate(segments))
    decl = " ".join("(define k%d #f) (define c%d 0)" % (j, j) for j in range(NK))
    conv = "(lambda (x) (log! (list 'cv x)) (+ x 100))" if conv_logs else "(lambda (x) (+ x 100))"
    return ("(call/cc (lambda (top) (with-exception-handler "
            "(lambda (e) (log! (list 'uncaught (if (symbol? e) e 'err))) (top 'aborted)) "
            "(lambda () %s (define p (make-parameter 0 %s)) (define q (make-parameter 1)) %s 'done))))"
            % (decl, conv, body))


# ------------------------------------------------------------------------------------------------
# exhaustive enumeration
# ------------------------------------------------------------------------------------------------
def _trees(size, unary, binary, leaves, memo):
    """all trees with exactly `size` internal+leaf nodes"""
    if size in memo:
        return memo[size]
    out = []
    if size == 1:
        out = list(leaves)
    else:
        for u in unary:
            for c in _trees(size - 1, unary, binary, leaves, memo):
                out.append(u + (c,))
        for b in binary:
            for ls in range(1, size - 1):
                for a in _trees(ls, unary, binary, leaves, memo):
                    for c in _trees(size - 1 - ls, unary, binary, leaves, memo):
                        out.append(b + (a, c))
    memo[size] = out
    return out


def _preorder(t):
    yield t
    for c in t[1:]:
        if isinstance(c, tuple) and c and isinstance(c[0], str) and c[0] in OPS:
            yield from _preorder(c)


OPS = {"val", "log", "seq", "plus", "local", "wind", "cap", "thr", "weh", "raise", "raisec", "err", "guard", "param",
       "param2", "pref", "evraise", "evthr", "evbody"}


def _wind_depth(t):
    d = max([_wind_depth(c) for c in t[1:] if isinstance(c, tuple) and c and c[0] in OPS] or [0])
    return d + (1 if t[0] == "wind" else 0)


def _canon_k(t):
    """k0 must be the first slot captured in preorder; every thrown slot must be captured somewhere"""
    caps = [n[1] for n in _preorder(t) if n[0] == "cap"]
    thrs = [n[1] for n in _preorder(t) if n[0] == "thr"]
    if not caps or not thrs:
        return False
    if caps[0] != 0:
        return False
    return all(j in caps for j in thrs)


def _fix(t):
    """enumeration templates carry placeholders; make them concrete trees"""
    op = t[0]
    if op == "wind":
        return ("wind", _fix(t[1]), None, None)
    if op == "thr":
        return ("thr", t[1], 5 + t[1], _fix(t[2]))
    if op == "cap":
        return ("cap", t[1], _fix(t[2]))
    if op == "weh":
        return ("weh", t[1], t[2], _fix(t[3]))
    if op == "guard":
        return ("guard", t[1], t[2], _fix(t[3]))
    if op == "param":
        return ("param", "p", t[1], _fix(t[2]))
    if op == "pref":
        return ("pref", "p", _fix(t[1]))
    if op in ("plus", "log"):
        return (op, _fix(t[1]))
    if op == "seq":
        return ("seq", _fix(t[1]), _fix(t[2]))
    return t


def enum_k(maxsize):
    unary = [("wind",), ("cap", 0), ("cap", 1), ("thr", 0), ("thr", 1), ("plus",)]
    binary = [("seq",)]
    leaves = [("val", 1)]
    memo = {}
    out = []
    for size in range(3, maxsize + 1):
        for t in _trees(size, unary, binary, leaves, memo):
            if _wind_depth(t) <= 2 and _canon_k(t):
                out.append(_fix(t))
    return out


def enum_x(maxsize):
    unary = [("wind",), ("weh", "ret", 7), ("guard", "match", 3), ("guard", "nomatch", 0), ("param", 5), ("pref",),
             ("cap", 0), ("thr", 0)]
    binary = [("seq",)]
    leaves = [("val", 1), ("raise",), ("raisec",)]
    memo = {}
    out = []
    for size in range(2, maxsize + 1):
        for t in _trees(size, unary, binary, leaves, memo):
            nodes = [n[0] for n in _preorder(t)]
            if _wind_depth(t) > 2:
                continue
            if "raise" not in nodes and "raisec" not in nodes:
                continue
            if ("thr" in nodes) != ("cap" in nodes):
                continue
            if not ({"weh", "guard"} & set(nodes)) and "cap" not in nodes:
                continue                  # a bare raise to the top handler: one such script is enough
            out.append(_fix(t))
    return out


# ------------------------------------------------------------------------------------------------
# biased random generator
# ------------------------------------------------------------------------------------------------
class Gen:
    def __init__(self, rng, profile):
        self.r = rng
        self.profile = profile
        self.captured = []       # slots captured earlier in program order (bias: throw to those)
        self.windd = 0

    def val(self):
        return self.r.randrange(0, 50)

    def pick_slot_for_throw(self):
        if self.captured and self.r.random() < 0.9:
            return self.r.choice(self.captured)
        return self.r.randrange(NK)

    def thunk_extra(self, hret):
        x = self.r.random()
        if x < 0.6:
            return None
        if x < 0.75:
            return "pref"
        if x < 0.8:
            return "qref"
        if x < 0.9:
            return "cc"
        return "rc" if hret else None

    def expr(self, d, hret=False):
        """hret: the innermost enclosing handler is of the returning kind (so a continuable raise in a
        before/after thunk comes back without any continuation leaving the thunk)"""
        r = self.r
        if d <= 0 or r.random() < 0.06:
            return ("val", self.val())
        w = dict(self.profile)
        if self.windd >= 4:
            w["wind"] = 0
        ops = list(w)
        op = r.choices(ops, [w[o] for o in ops])[0]
        if op == "log":
            return ("log", self.expr(d - 1, hret))
        if op == "seq":
            a = self.expr(d - 1, hret)
            return ("seq", a, self.expr(d - 1, hret))
        if op == "plus":
            return ("plus", self.expr(d - 1, hret))
        if op == "local":
            return ("local", self.val(), self.expr(d - 1, hret))
        if op == "wind":
            bx, ax = self.thunk_extra(hret), self.thunk_extra(hret)
            self.windd += 1
            e = self.expr(d - 1, hret)
            self.windd -= 1
            return ("wind", e, bx, ax)
        if op == "cap":
            j = r.randrange(NK)
            e = self.expr(d - 1, hret)
            self.captured.append(j)       # usable by later siblings (after exit -> re-entry / cousin)
            return ("cap", j, e)
        if op == "thr":
            j = self.pick_slot_for_throw()
            return ("thr", j, self.val(), self.expr(d - 1, hret))
        if op == "weh":
            hk = r.choices(["ret", "esc", "reraise", "rc", "pref", "nest"], [5, 3, 2, 1, 1, 2])[0]
            harg = self.val() if hk == "ret" else (self.pick_slot_for_throw(), self.val(), self.val()) if hk == "esc" else None
            if hk == "nest":
                # the handler body runs with the handler stack of the installation point: same `hret` as here
                harg = self.expr(min(d - 1, 2), hret)
            return ("weh", hk, harg, self.expr(d - 1, hk in ("ret", "pref")))
        if op == "raise":
            return ("raise",)
        if op == "raisec":
            return ("raisec",)
        if op == "err":
            return ("err",)
        if op == "guard":
            gk = r.choices(["match", "nomatch", "else", "arrow", "test", "reraise", "rc", "throw", "pref", "nest"],
                           [4, 4, 2, 2, 1, 2, 1, 2, 1, 2])[0]
            garg = (self.pick_slot_for_throw(), self.val(), self.val()) if gk == "throw" else self.val()
            if gk == "nest":
                garg = self.expr(min(d - 1, 2), hret)
            return ("guard", gk, garg, self.expr(d - 1, False))
        if op == "param":
            if r.random() < 0.2:
                return ("param2", self.val(), self.val(), self.expr(d - 1, hret))
            return ("param", r.choice(["p", "p", "q"]), self.val(), self.expr(d - 1, hret))
        if op == "pref":
            return ("pref", r.choice(["p", "p", "q"]), self.expr(d - 1, hret))
        raise ValueError(op)


PROFILES = {
    # weights of the constructs; "reentry" is the biased one (capture under winds, throw from a later sibling)
    "reentry": {"log": 1, "seq": 5, "plus": 1, "local": 1, "wind": 6, "cap": 4, "thr": 5, "weh": 1, "raise": 0.3,
                "raisec": 0.5, "guard": 1, "param": 2, "pref": 1.5},
    "exc": {"log": 1, "seq": 3, "plus": 1, "local": 0.5, "wind": 3, "cap": 1.5, "thr": 2, "weh": 4, "raise": 2,
            "raisec": 2, "err": 0.5, "guard": 4, "param": 1.5, "pref": 1.5},
    "mixed": {"log": 1, "seq": 3, "plus": 1, "local": 1, "wind": 3, "cap": 2, "thr": 3, "weh": 2, "raise": 1,
              "raisec": 1, "err": 0.3, "guard": 2, "param": 2, "pref": 2},
}


def chain(g, inner, depth, hret=False):
    """wrap `inner` in `depth` random extents (winds, parameterize, handlers, guards, non-tail contexts)"""
    r = g.r
    t = inner
    for _ in range(depth):
        c = r.random()
        if c < 0.45 and _wind_depth(t) < 4:
            t = ("wind", t, g.thunk_extra(False), g.thunk_extra(False))
        elif c < 0.58:
            t = ("param", r.choice(["p", "p", "q"]), g.val(), t)
        elif c < 0.66:
            t = ("plus", t)
        elif c < 0.72:
            t = ("local", g.val(), t)
        elif c < 0.78:
            t = ("weh", "ret", g.val(), t)
        elif c < 0.84:
            t = ("guard", r.choice(["nomatch", "match", "else"]), g.val(), t)
        elif c < 0.92:
            t = ("seq", g.expr(2), t)
        else:
            t = ("seq", t, g.expr(2))
    return t


def thrower(g, j):
    """a subtree that throws to slot j: directly, from a handler, or from a guard clause"""
    r = g.r
    c = r.random()
    if c < 0.7:
        return ("thr", j, g.val(), g.expr(1))
    if c < 0.85:
        return ("weh", "esc", (j, g.val(), g.val()), chain(g, r.choice([("raise",), ("raisec",)]), r.randrange(0, 2)))
    return ("guard", "throw", (j, g.val(), g.val()), chain(g, ("raise",), r.randrange(0, 2)))


def planned_script(rng):
    """scripts built so that a continuation is thrown to after its extent was left (re-entry) or from a sibling
    extent (cousin): the capture sits under some extents, the throw under others"""
    g = Gen(rng, PROFILES["mixed"])
    pat = rng.choices(["reenter", "cousin", "two", "deep"], [4, 3, 2, 1])[0]
    if pat == "reenter":
        j = rng.randrange(NK)
        segs = [chain(g, ("cap", j, g.expr(rng.randrange(0, 3))), rng.randrange(1, 5))]
        g.captured.append(j)
        if rng.random() < 0.3:
            segs.append(g.expr(3))
        segs.append(chain(g, thrower(g, j), rng.randrange(0, 4)))
    elif pat == "cousin":
        j = rng.randrange(NK)
        a = chain(g, ("cap", j, g.expr(rng.randrange(0, 2))), rng.randrange(1, 3))
        g.captured.append(j)
        b = chain(g, thrower(g, j), rng.randrange(1, 3))
        segs = [chain(g, ("seq", a, b), rng.randrange(0, 3))]
        if rng.random() < 0.3:
            segs.append(g.expr(3))
    elif pat == "two":
        a = chain(g, ("cap", 0, g.expr(1)), rng.randrange(1, 4))
        g.captured.append(0)
        b = chain(g, ("seq", ("cap", 1, g.expr(1)), thrower(g, 0)), rng.randrange(1, 4))
        g.captured.append(1)
        c = chain(g, thrower(g, 1), rng.randrange(0, 3))
        segs = [a, b, c]
    else:
        j = rng.randrange(NK)
        inner = ("cap", j, g.expr(1))
        g.captured.append(j)
        t = ("seq", chain(g, inner, rng.randrange(2, 5)), chain(g, thrower(g, j), rng.randrange(2, 5)))
        segs = [t]
    segs = [s for s in segs if _wind_depth(s) <= 4]
    return "planned-" + pat, segs or [("val", 1)]


def rand_script(rng):
    if rng.random() < 0.5:
        return planned_script(rng)
    prof = rng.choices(["reentry", "exc", "mixed"], [3, 4, 3])[0]
    g = Gen(rng, PROFILES[prof])
    nseg = rng.randrange(1, 4)
    d = rng.randrange(3, 7)
    segs = [g.expr(d) for _ in range(nseg)]
    return prof, segs


# ------------------------------------------------------------------------------------------------
# generator-style ping-pong
# ------------------------------------------------------------------------------------------------
def pingpong_text(rng):
    """A producer yields values to a consumer through two stored continuations; each side sits in its own
    winds / parameterize / returning handler, so every resumption leaves one nest and re-enters the other."""
    n = [0]

    def fresh():
        n[0] += 1
        return n[0]

    def wrap(core, depth, side):
        for _ in range(depth):
            i = fresh()
            c = rng.random()
            if c < 0.5:
                ext = rng.choice(["", "", " (p)", " (q)"])
                lg_in = "(log! (list '%sin%d%s))" % (side, i, ext) if ext else "(log! '%sin%d)" % (side, i)
                lg_out = "(log! (list '%sout%d%s))" % (side, i, ext) if ext else "(log! '%sout%d)" % (side, i)
                core = "(dynamic-wind (lambda () %s) (lambda () %s) (lambda () %s))" % (lg_in, core, lg_out)
            elif c < 0.75:
                core = "(parameterize ((%s %d)) %s)" % (rng.choice(["p", "q"]), rng.randrange(1, 40), core)
            elif c < 0.9:
                core = ("(with-exception-handler (lambda (e) (log! (list '%sh%d e (p))) %d) (lambda () %s))"
                        % (side, i, rng.randrange(1, 9), core))
            else:
                core = "(+ 1 %s)" % core
        return core

    nyield = rng.randrange(1, 5)
    steps = []
    for y in range(nyield):
        x = rng.random()
        item = "(yield %d)" % (10 + y)
        if x < 0.25:
            item = "(yield (+ (p) %d))" % y
        elif x < 0.4:
            item = "(yield (raise-continuable 'pc%d))" % y
        elif x < 0.55:
            item = wrap("(yield %d)" % (20 + y), rng.randrange(1, 3), "p")
        steps.append("(log! (list 'resumed %s))" % item)
    pbody = wrap("(begin %s 0)" % " ".join(steps), rng.randrange(0, 4), "p")
    nnext = rng.randrange(1, 7)
    csteps = []
    for c in range(nnext):
        item = "(log! (list 'got (next %d)))" % c
        if rng.random() < 0.4:
            item = wrap("(begin %s 0)" % item, rng.randrange(1, 3), "c")
        csteps.append(item)
    cbody = wrap("(begin %s 0)" % " ".join(csteps), rng.randrange(0, 3), "c")
    return ("(call/cc (lambda (top) (with-exception-handler "
            "(lambda (e) (log! (list 'uncaught (if (symbol? e) e 'err))) (top 'aborted)) "
            "(lambda () (define p (make-parameter 0 (lambda (x) (log! (list 'cv x)) (+ x 100)))) (define q (make-parameter 1)) "
            "(define prod-k #f) (define cons-k #f) "
            "(define (next v) (call/cc (lambda (ret) (set! cons-k ret) (if prod-k (prod-k v) (producer)))))"
            "(define (yield v) (call/cc (lambda (resume) (set! prod-k resume) (cons-k v))))"
            "(define (producer) %s (let loop () (yield 'eof) (loop)))"
            " %s 'done))))" % (pbody, cbody))


# ------------------------------------------------------------------------------------------------
# eval family
# ------------------------------------------------------------------------------------------------
def eval_scripts(rng, n):
    out = []
    shapes = [
        lambda v: [("guard", "match", v, ("wind", ("plus", ("evraise", "raise")), None, None))],
        lambda v: [("guard", "nomatch", v, ("weh", "ret", v, ("wind", ("plus", ("evraise", "raise-continuable")), None, None)))],
        lambda v: [("weh", "ret", v, ("wind", ("plus", ("evraise", "raise-continuable")), "pref", None))],
        lambda v: [("wind", ("cap", 0, ("val", v)), None, None), ("wind", ("evthr", 0, v + 1, ("val", 2)), None, None)],
        lambda v: [("plus", ("cap", 0, ("val", v))), ("param", "p", v, ("wind", ("evthr", 0, v + 1, ("val", 2)), None, "pref"))],
        lambda v: [("evbody", ("wind", ("cap", 0, ("val", v)), None, None)), ("evthr", 0, 3, ("val", 1))],
        lambda v: [("guard", "else", v, ("evbody", ("wind", ("raise",), None, None)))],
        lambda v: [("evbody", ("guard", "match", v, ("wind", ("evraise", "raise"), None, None)))],
        lambda v: [("cap", 1, ("val", 0)), ("guard", "throw", (1, v, 4), ("wind", ("evraise", "raise"), None, None))],
    ]
    for i in range(n):
        sh = shapes[i % len(shapes)]
        out.append(("shape%d" % (i % len(shapes)), sh(rng.randrange(1, 30))))
    return out


# ------------------------------------------------------------------------------------------------
# model evaluation (parallel) and judging
# ------------------------------------------------------------------------------------------------
def _model_one(item):
    cid, fam, text = item
    r = M.run_program(text)
    st = r.stats
    if r.kind != "value":
        return (cid, fam, text, None, r.kind, None)
    exp = "((%s) %s)" % (" ".join(r.trace), r.value)
    feats = sorted(st.features())
    info = {"unspecified": st.unspecified, "rewinding": st.rewinding(), "reentry": st.reentry(),
            "throws": len(st.throws), "raises": len(st.raises), "trace_len": len(r.trace), "max_winds": st.max_winds,
            "wind_runs": st.wind_runs, "rels": sorted({t[0] for t in st.throws}), "steps": r.steps}
    return (cid, fam, text, exp, feats, info)


def _model_chunk(items):
    return [_model_one(it) for it in items]


def model_all(items, jobs):
    """items: [(id, family, text)] -> list of model results in order"""
    if len(items) < 400 or jobs <= 1:
        return _model_chunk(items)
    chunks = [items[i:i + 250] for i in range(0, len(items), 250)]
    out = []
    with concurrent.futures.ProcessPoolExecutor(max_workers=jobs) as ex:
        for res in ex.map(_model_chunk, chunks):
            out.extend(res)
    return out


def event_class(ev):
    """class of one trace event, for violation signatures (stable across label numbers)"""
    if ev is None:
        return "END"
    if isinstance(ev, list):
        ev = ev[0] if ev else "()"
    s = str(ev)
    return s.rstrip("0123456789") or "num"


def first_diff(exp, got):
    """-> (class of expected event, class of observed event) at the first divergence of the traces"""
    et, gt = exp[0], got[0]
    for i in range(max(len(et), len(gt))):
        a = et[i] if i < len(et) else None
        b = gt[i] if i < len(gt) else None
        if a != b:
            return event_class(a), event_class(b)
    return "value", "value"


class Case:
    __slots__ = ("id", "fam", "text", "exp", "feats", "info", "tree")

    def __init__(self, cid, fam, text, exp, feats, info, tree=None):
        self.id, self.fam, self.text, self.exp, self.feats, self.info, self.tree = cid, fam, text, exp, feats, info, tree


def judge(rep, c, res, sig_extra=None):
    base = dict(sig_extra or {"kind": "control-trace"})
    base["family"] = c.fam.split(":")[0]
    wit = {"form": c.text, "expected": c.exp, "features": c.feats}
    if res is None or res.status == "missing":
        rep.inconc("no-output", c.id)
        return False
    if res.status == "timeout":
        # termination is by construction (the model finished): a hang is a refutation, not a slow run
        wit["detail"] = res.detail
        rep.violation(dict(base, mode="hang"), wit)
        return False
    if res.status == "crash":
        wit["detail"] = res.detail
        wit["got"] = res.text[:600]
        rep.violation(dict(base, mode="crash"), wit)
        return False
    try:
        got = res.data()
        exp = sexpr.parse(c.exp)
    except Exception:
        wit["got"] = res.text[:800]
        rep.violation(dict(base, mode="unparsable-output"), wit)
        return False
    wit["got"] = res.text.strip()[:1500]
    if len(got) != 1 or not isinstance(got[0], list) or len(got[0]) != 2 or not isinstance(got[0][0], list):
        rep.violation(dict(base, mode="unparsable-output"), wit)
        return False
    got = got[0]
    if got == exp:
        return True
    a, b = first_diff(exp, got)
    rep.violation(dict(base, mode="trace-mismatch", expected_event=a, observed_event=b), wit)
    return False


# ------------------------------------------------------------------------------------------------
# shrinking a refuted script (triage aid: the witness then also carries a minimal script)
# ------------------------------------------------------------------------------------------------
def _paths(t, path=()):
    yield path, t
    for i, c in enumerate(t):
        if i > 0 and isinstance(c, tuple) and c and isinstance(c[0], str) and c[0] in OPS:
            yield from _paths(c, path + (i,))


def _replace(t, path, new):
    if not path:
        return new
    i = path[0]
    return t[:i] + (_replace(t[i], path[1:], new),) + t[i + 1:]


def _disagrees(b, env, segs):
    text = script_text(segs)
    cid, fam, text, exp, feats, info = _model_one(("shr", "shrink", text))
    if exp is None or info["unspecified"]:
        return None
    r1, _p = C.run_file(b, IMPORTS, HEADER, [("shr", "(%%c6 shr %s)" % text)], env_extra=env, timeout=20, heap="16M/256M")
    r = r1.get("shr")
    if r is None or r.status == "missing":
        return None
    if r.status in ("crash", "timeout"):
        return (text, exp, r.status)
    try:
        got = r.data()
        if len(got) == 1 and got[0] == sexpr.parse(exp):
            return None
    except Exception:
        pass
    return (text, exp, r.text.strip()[:600])


def shrink(b, env, segs, budget=45):
    """greedy: replace a subtree by one of its own subtrees or by a constant while chibi and the model still disagree"""
    segs = list(segs)
    best = _disagrees(b, env, segs)
    if best is None:
        return None
    budget -= 1
    progress = True
    while progress and budget > 0:
        progress = False
        cands = []
        if len(segs) > 1:
            for i in range(len(segs)):
                cands.append(segs[:i] + segs[i + 1:])
        for si, seg in enumerate(segs):
            for path, node in _paths(seg):
                if node[0] == "val":
                    continue
                subs = [c for c in node[1:] if isinstance(c, tuple) and c and isinstance(c[0], str) and c[0] in OPS]
                for new in subs + [("val", 1)]:
                    cands.append(segs[:si] + [_replace(seg, path, new)] + segs[si + 1:])
        for cand in cands:
            if budget <= 0:
                break
            budget -= 1
            d = _disagrees(b, env, cand)
            if d is not None:
                segs, best, progress = cand, d, True
                break
    return {"form": best[0], "expected": best[1], "got": best[2]}


def iter_items(tier, seed):
    """yields (id, family, script text) for the whole workload of the tier, in a reproducible order"""
    rng = random.Random(seed * 7919 + 6)
    quick = tier == "quick"
    for i, t in enumerate(enum_k(7 if quick else 8)):
        yield ("ek%d" % i, "enum-k", script_text([t]), [t])
    for i, t in enumerate(enum_x(4 if quick else 5)):
        yield ("ex%d" % i, "enum-x", script_text([t]), [t])
    for i in range(6000 if quick else 150000):
        prof, segs = rand_script(rng)
        yield ("r%d" % i, "rand:" + prof, script_text(segs), segs)
    for i in range(600 if quick else 6000):
        yield ("pp%d" % i, "pingpong", pingpong_text(rng), None)


def chunks(it, n):
    buf = []
    for x in it:
        buf.append(x)
        if len(buf) >= n:
            yield buf
            buf = []
    if buf:
        yield buf


class Tally:
    def __init__(self):
        self.generated = 0
        self.dropped = {"unspecified": 0, "budget": 0, "raised": 0}
        self.thinned = 0
        self.fam_n = {}
        self.fam_rew = {}
        self.reentry = 0
        self.ran = 0
        self.agree = 0
        self.feat = {}
        self.rerun = 0
        self.shrunk = 0
        self.samples = {}


def select_cases(modelled, seed, k, tally):
    """drop what the model could not decide; thin the non-rewinding random scripts (bias)"""
    cases = []
    for cid, fam, text, exp, feats, info in modelled:
        if exp is None:
            tally.dropped[feats] = tally.dropped.get(feats, 0) + 1      # feats holds the kind here
            continue
        if info["unspecified"]:
            tally.dropped["unspecified"] += 1
            continue
        cases.append(Case(cid, fam, text, exp, feats, info))
    # bias: keep every rewinding random script, thin out the others so that >= 40 % of the random family
    # re-enters an exited extent or jumps between cousin extents
    rnd = [c for c in cases if c.fam.startswith("rand")]
    rew = [c for c in rnd if c.info["rewinding"]]
    non = [c for c in rnd if not c.info["rewinding"]]
    keep_non = min(len(non), int(len(rew) * 1.5))
    random.Random(seed * 31 + 7 + k).shuffle(non)
    drop_ids = {c.id for c in non[keep_non:]}
    tally.thinned += len(drop_ids)
    return [c for c in cases if c.id not in drop_ids]


def run_chunk(rep, b, env, cases, tally, procs_acc):
    res, procs = C.run_batches(b, IMPORTS, HEADER, [(c.id, "(%%c6 %s %s)" % (c.id, c.text)) for c in cases],
                               batch=400, env_extra=env, timeout=60, heap="16M/256M")
    # a watchdog on a file of 400 scripts says little about one script: re-run the blamed script alone
    # (a script takes milliseconds; alone, 60 s of silence is a hang, which the model excludes by construction)
    slow = [c for c in cases if c.id in res and res[c.id].status == "timeout"]

    def rerun(c):
        r1, p1 = C.run_file(b, IMPORTS, HEADER, [(c.id, "(%%c6 %s %s)" % (c.id, c.text))], env_extra=env, timeout=60,
                            heap="16M/256M")
        return c, r1, p1
    for c, r1, p1 in R.pmap(rerun, slow[:30]):
        procs.extend(p1)
        if c.id in r1:
            res[c.id] = r1[c.id]
    for c in slow[30:]:
        res[c.id] = C.CaseResult("missing")
    tally.rerun += len(slow)
    for c in cases:
        fam = c.fam.split(":")[0]
        tally.fam_n[fam] = tally.fam_n.get(fam, 0) + 1
        if c.info["rewinding"]:
            tally.fam_rew[fam] = tally.fam_rew.get(fam, 0) + 1
        if c.info["reentry"]:
            tally.reentry += 1
        nontrivial = c.info["throws"] + c.info["raises"] > 0
        rep.case((fam, tuple(c.feats)) if nontrivial else None)
        tally.ran += 1
        nviol = len(rep.violations)
        if judge(rep, c, res.get(c.id)):
            tally.agree += 1
        elif len(rep.violations) > nviol and c.tree is not None and tally.shrunk < 3:
            tally.shrunk += 1
            try:
                m = shrink(b, env, c.tree)
            except Exception as ex:           # triage aid only
                m = {"shrink-failed": repr(ex)}
            rep.violations[-1][1]["shrunk"] = m
        rep.maxi("max_trace_len", c.info["trace_len"])
        rep.maxi("max_wind_list_length", c.info["max_winds"])
        rep.count("continuation_invocations", c.info["throws"])
        rep.count("raises", c.info["raises"])
        rep.count("wind_thunks_run_by_throws", c.info["wind_runs"])
        for f in c.feats:
            tally.feat[f] = tally.feat.get(f, 0) + 1
        key = fam + ("+rewinding" if c.info["rewinding"] else "")
        if len(tally.samples.get(key, [])) < 2:
            r = res.get(c.id)
            tally.samples.setdefault(key, []).append(
                {"family": c.fam, "form": c.text, "expected": c.exp, "observed": r.text.strip()[:400] if r is not None else None,
                 "features": c.feats})
    if "__ghost__" in res:
        rep.violation({"kind": "control-trace", "mode": "output-after-end"}, {"text": res["__ghost__"].text})
    _heap(rep, procs)
    procs_acc[0] += len(procs)


def _heap(rep, procs):
    for p in procs:
        for l in p.log_lines("HEAPCHECK-FAIL"):
            rep.violation({"kind": "heapcheck", "mode": l.split()[1] if len(l.split()) > 1 else "?"}, {"line": l})
        for d in p.log_kv("HEAPCHECK-SUMMARY"):
            rep.count("heap_checks", d.get("runs", 0))
            rep.count("heap_objects_checked", d.get("objects", 0))


def check(rep, tier, seed, variant="hooks"):
    b = B.ensure(variant)
    rep.builds.add(variant)
    jobs = R.JOBS
    env = {"CHIBI_VERIF_HEAPCHECK": 1}
    tally = Tally()
    nproc = [0]
    for k, items in enumerate(chunks(iter_items(tier, seed), 24000)):      # bounded memory in the thorough tier
        tally.generated += len(items)
        trees = {it[0]: it[3] for it in items}
        cases = select_cases(model_all([it[:3] for it in items], jobs), seed, k, tally)
        for c in cases:
            c.tree = trees.get(c.id)
        del trees
        run_chunk(rep, b, env, cases, tally, nproc)
    # ---- eval family: own processes, own signature
    rng = random.Random(seed * 7919 + 66)
    ev_items = [("ev%d" % i, "eval:" + name, script_text(segs))
                for i, (name, segs) in enumerate(eval_scripts(rng, 18 if tier == "quick" else 90))]
    ev_cases = [Case(cid, fam, text, exp, feats, info) for cid, fam, text, exp, feats, info in _model_chunk(ev_items)
                if exp is not None and not info["unspecified"]]

    def run_one(c):
        return c, C.run_file(b, IMPORTS, HEADER, [(c.id, "(%%c6 %s %s)" % (c.id, c.text))], env_extra=env, timeout=30,
                             heap="16M/256M")
    ev_agree = 0
    ev_procs = []
    for c, (r1, p1) in R.pmap(run_one, ev_cases):
        ev_procs.extend(p1)
        rep.case(("eval", c.fam, tuple(c.feats)))
        if "__ghost__" in r1:
            rep.violation({"kind": "nested-loop-escape", "via": "eval", "mode": "output-after-end", "shape": c.fam},
                          {"form": c.text, "text": r1["__ghost__"].text})
            continue
        if judge(rep, c, r1.get(c.id), {"kind": "nested-loop-escape", "via": "eval", "shape": c.fam}):
            ev_agree += 1
    _heap(rep, ev_procs)
    for key in sorted(tally.samples):
        for smp in tally.samples[key][:1]:
            rep.sample(smp)
    for c in ev_cases[:2]:
        rep.sample({"family": c.fam, "form": c.text, "expected": c.exp, "observed": "(own process; agreed)" if ev_agree == len(ev_cases) else "(own process)",
                    "features": c.feats})
    rnd_n = tally.fam_n.get("rand", 0)
    rep.extra["generated"] = tally.generated
    rep.extra["dropped_by_model"] = tally.dropped
    rep.extra["thinned_non_rewinding"] = tally.thinned
    rep.extra["scripts_per_family"] = tally.fam_n
    rep.extra["scripts_agreeing"] = tally.agree
    rep.extra["scripts_rerun_alone_after_watchdog"] = tally.rerun
    rep.extra["eval_family_scripts"] = len(ev_cases)
    rep.extra["eval_family_agreeing"] = ev_agree
    rep.extra["rewinding_fraction_random_family"] = round(tally.fam_rew.get("rand", 0) / rnd_n, 3) if rnd_n else None
    rep.extra["rewinding_scripts_per_family"] = tally.fam_rew
    rep.extra["rewinding_fraction_all"] = round(sum(tally.fam_rew.values()) / max(1, tally.ran), 3)
    rep.extra["reentry_fraction_all"] = round(tally.reentry / max(1, tally.ran), 3)
    rep.extra["scripts_per_feature"] = dict(sorted(tally.feat.items()))
    rep.extra["processes"] = nproc[0] + len(ev_procs)
    rep.rule = ("one case = one control script (a single top-level form); families: exhaustive trees over "
                "{dynamic-wind, capture/throw of 2 continuations, non-tail context, sequencing} and over {wind, handler, "
                "guard, parameterize, raise kinds} below a size bound, seeded biased sampling above it (wind depth <= 4, 3 "
                "continuations x <= 2 throws, handlers that return/escape/re-raise, all guard shapes, parameterize with "
                "converter), coroutine ping-pong, and a separately judged eval family; a script is non-trivial when the "
                "model executed at least one continuation invocation or raise; distinct = (family, set of "
                "{relation of source and target extent (same/ancestor/descendant/cousin) @ invocation site (+re = the "
                "continuation had been exited), raise kind @ site} the model observed); 'rewinding' = some throw had "
                "to run before thunks (re-entry of an exited extent or jump between cousin extents)")
    rep.assumptions = ["the reference interpreter vf/props/c06_ref.py implements the R7RS control model (it is the oracle)",
                       "the observation reader (vf/sexpr.py) is correct",
                       "R7RS 6.10: entering/leaving a before/after thunk by a continuation is unspecified and is never generated",
                       "write of symbols, small integers and lists is used to observe traces"]


def replay(path):
    """./check C06 --replay FILE: re-run the witnesses of a replay file on the current tree; exit 1 if any still disagrees"""
    import json
    with open(path) as fh:
        d = json.load(fh)
    b = B.ensure("hooks")
    env = {"CHIBI_VERIF_HEAPCHECK": 1}
    bad = 0
    for i, w in enumerate(d.get("witnesses", [])):
        form, exp = w.get("form"), w.get("expected")
        if not form or not exp:
            continue
        r1, _p = C.run_file(b, IMPORTS, HEADER, [("rp%d" % i, "(%%c6 rp%d %s)" % (i, form))], env_extra=env, timeout=30,
                            heap="16M/256M")
        r = r1.get("rp%d" % i)
        got = r.text.strip() if r is not None else None
        try:
            same = r is not None and r.status == "ok" and sexpr.parse(got) == sexpr.parse(exp)
        except Exception:
            same = False
        print("witness %d: %s\n  expected %s\n  observed %s (%s)" % (i, "agrees now" if same else "STILL DISAGREES", exp, got,
                                                                   r.status if r is not None else "no result"))
        if not same:
            bad += 1
    if bad:
        print("VIOLATION property=C06 replay=%s" % path)
    return 1 if bad else 0
