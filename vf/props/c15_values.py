"""C15 helper: abstract values, computation routes to them, and the equal?/eqv? model.

An abstract value is a hashable tagged tuple:
  ('int', n) ('rat', num, den) ('flo', bits:int) ('str', (cp,...)) ('sym', name) ('char', cp)
  ('bool', b) ('null',) ('bv', (b,...)) ('vec', (v,...)) ('pair', car, cdr) ('rec', typename, (v,...))
A *member* is a Scheme expression that evaluates to such a value, with bookkeeping:
  expr    Scheme source text
  val     abstract value
  route   name of the top-level route
  tags    frozenset of *exotic* route tags anywhere inside (routes designed to leave a non-canonical
          in-memory representation: spare-words, shared-store, width-change ...)
  fresh   True when the top-level object is newly allocated by the expression (not a literal constant)
  check   Scheme expression over variable `x` that is #t when the route computed what the model thinks
          (guards the C15 oracle against arithmetic/string defects that belong to other properties)
"""
import struct
from fractions import Fraction

from ..sexpr import scm_str

FIXMAX = (1 << 62) - 1
FIXMIN = -(1 << 62)


class M:
    __slots__ = ("expr", "val", "route", "tags", "fresh", "check", "leaf")

    def __init__(self, expr, val, route, tags=(), fresh=True, check=None, leaf=None):
        self.expr = expr
        self.val = val
        self.route = route
        self.tags = frozenset(tags)
        self.fresh = fresh
        self.check = check
        self.leaf = leaf          # type name of the exotic leaf (for signatures)


def typename(v):
    t = v[0]
    if t == "int":
        return "fixnum" if FIXMIN <= v[1] <= FIXMAX else "bignum"
    return {"rat": "ratio", "flo": "flonum", "str": "string", "sym": "symbol", "char": "char", "bool": "boolean",
            "null": "null", "bv": "bytevector", "vec": "vector", "pair": "pair", "rec": "record"}[t]


def fbits(x):
    return struct.unpack("<Q", struct.pack("<d", x))[0]


def bits2f(b):
    return struct.unpack("<d", struct.pack("<Q", b))[0]


def is_nan(v):
    return v[0] == "flo" and bits2f(v[1]) != bits2f(v[1])


# ----------------------------------------------------------------------------------------------
# the model: three-valued (True / False / None = unspecified by R7RS)

def m_eqv_atom(a, b):
    """eqv? of two abstract values that are not aggregates (numbers, chars, symbols, booleans, '())."""
    if a[0] != b[0]:
        return False
    if a[0] == "flo":
        if is_nan(a) or is_nan(b):
            return None if (is_nan(a) and is_nan(b)) else False
        return a[1] == b[1]
    return a == b


AGG = ("str", "bv", "vec", "pair", "rec")


def m_equal(a, b):
    if a[0] != b[0]:
        return False
    t = a[0]
    if t not in AGG:
        return m_eqv_atom(a, b)
    if t in ("str", "bv"):
        return a[1] == b[1]
    if t == "rec":
        # R7RS: equal? on distinct records "may return either #t or #f"
        return None
    if t == "vec":
        if len(a[1]) != len(b[1]):
            return False
        return and3(m_equal(x, y) for x, y in zip(a[1], b[1]))
    if t == "pair":
        # iterate along the cdr chain (long lists)
        res = True
        while True:
            r = m_equal(a[1], b[1])
            if r is False:
                return False
            if r is None:
                res = None
            a, b = a[2], b[2]
            if a[0] != "pair" or b[0] != "pair":
                r = m_equal(a, b)
                if r is False:
                    return False
                return None if (r is None or res is None) else True
    raise ValueError(t)


def and3(it):
    res = True
    for r in it:
        if r is False:
            return False
        if r is None:
            res = None
    return res


def m_eqv(ma, mb, same_object):
    """eqv? of two members (same_object: the very same binding)."""
    a, b = ma.val, mb.val
    if a[0] != b[0]:
        return False
    if a[0] not in AGG:
        if same_object and not is_nan(a):
            return True
        return m_eqv_atom(a, b)
    if same_object:
        return True
    if not (ma.fresh and mb.fresh):
        return None                       # constants may be shared
    if a[0] in ("str", "bv", "vec") and (len(a[1]) == 0 or len(b[1]) == 0):
        return None                       # empty objects have no locations
    if a[0] == "rec" and (len(a[2]) == 0 or len(b[2]) == 0):
        return None
    return False


# ----------------------------------------------------------------------------------------------
# routes

def int_lit(n):
    return str(n)


def chk_num(n_text):
    return "(and (exact? x) (= x %s))" % n_text


def int_routes(rng, n, allow_exotic=True):
    """Scheme expressions evaluating to the exact integer n."""
    lit = int_lit(n)
    big = not (FIXMIN <= n <= FIXMAX)
    leaf = "bignum" if big else "fixnum"
    outs = []
    outs.append(M(lit, ("int", n), "literal", fresh=False))
    k = rng.choice([1, 7, 1 << 61, (1 << 62) + 5, 1 << 64, (1 << 130) + 12345, 10 ** 30])
    outs.append(M("(+ %d %d)" % (n - k, k), ("int", n), "sum"))
    d = rng.choice([3, 10, 1 << 32, (1 << 64) - 1, 10 ** 19])
    q, r = divmod(n, d)
    outs.append(M("(+ (* %d %d) %d)" % (q, d, r), ("int", n), "product"))
    outs.append(M('(string->number "%d")' % n, ("int", n), "parsed"))
    outs.append(M('(string->number "%s%x" 16)' % ("-" if n < 0 else "", abs(n)), ("int", n), "parsed-hex"))
    outs.append(M("(- %d)" % (-n), ("int", n), "negate"))
    if n >= 0:
        outs.append(M("(abs %d)" % (-n), ("int", n), "abs"))
    if allow_exotic:
        kk = rng.choice([1 << 64, 1 << 128, 1 << 200, 3 ** 60, 10 ** 40])
        outs.append(M("(quotient %d %d)" % (n * kk, kk), ("int", n), "quotient"))
        kk = rng.choice([1 << 130, 1 << 200, (1 << 260) + 99])
        outs.append(M("(- (+ %d %d) %d)" % (n, kk, kk), ("int", n), "sub-cancel"))
        if n >= 0:
            outs.append(M("(call-with-values (lambda () (exact-integer-sqrt %d)) (lambda (s r) s))" % (n * n + (n and 1)),
                          ("int", n), "isqrt"))
        outs.append(M("(remainder %d %d)" % (n + (1 if n >= 0 else -1) * (abs(n) + 1 + (1 << 190)) * 5, (abs(n) + 1 + (1 << 190))),
                      ("int", n), "remainder"))
    for m in outs:
        m.check = chk_num(lit)
    return outs


def rat_routes(rng, f, allow_exotic=True):
    n, d = f.numerator, f.denominator
    v = ("rat", n, d)
    lit = "%d/%d" % (n, d)
    outs = [M(lit, v, "literal", fresh=False),
            M("(/ %d %d)" % (n, d), v, "division"),
            M("(/ %d %d)" % (n * 6, d * 6), v, "unreduced-division"),
            M('(string->number "%s")' % lit, v, "parsed"),
            M("(+ %d/%d %d)" % (n - 5 * d, d, 5), v, "sum")]
    if allow_exotic:
        kk = 1 << 128
        outs.append(M("(/ (quotient %d %d) (quotient %d %d))" % (n * kk, kk, d * kk, kk), v, "quotient-parts"))
    for m in outs:
        m.check = chk_num(lit)
    return outs


def flo_lit(x):
    if x != x:
        return "+nan.0"
    if x == float("inf"):
        return "+inf.0"
    if x == float("-inf"):
        return "-inf.0"
    return repr(x)


def flo_routes(rng, x):
    """x: a double that is m * 2^k with a short decimal expansion (the reader's rounding is C08's business)."""
    v = ("flo", fbits(x))
    outs = []
    if x != x:
        outs = [M("+nan.0", v, "literal", fresh=False), M("(/ 0. 0.)", v, "nan-div"), M("(- +inf.0 +inf.0)", v, "nan-sub"),
                M('(string->number "+nan.0")', v, "parsed")]
        for m in outs:
            m.check = "(not (= x x))"
        return outs
    if x in (float("inf"), float("-inf")):
        s = "+" if x > 0 else "-"
        outs = [M(s + "inf.0", v, "literal", fresh=False), M("(/ %s1. 0.)" % s, v, "inf-div"),
                M("(* %s1e200 1e200)" % s, v, "overflow")]
        for m in outs:
            m.check = "(= x %sinf.0)" % s
        return outs
    if x == 0.0:
        neg = fbits(x) != 0
        if neg:
            outs = [M("-0.0", v, "literal", fresh=False), M("(- 0.0)", v, "negate"), M("(* -1.0 0.0)", v, "product"),
                    M("(/ -1.0 +inf.0)", v, "underflow"), M('(string->number "-0.0")', v, "parsed")]
        else:
            outs = [M("0.0", v, "literal", fresh=False), M("(- 1.5 1.5)", v, "difference"), M("(* 1.0 0.0)", v, "product"),
                    M("(inexact 0)", v, "inexact"), M("(+ -0.0 0.0)", v, "sum")]
        for m in outs:
            m.check = "(and (inexact? x) (= x 0.0) (%s (/ 1.0 x) 0.0))" % ("<" if neg else ">")
        return outs
    fr = Fraction(x)
    lit = flo_lit(x)
    outs = [M(lit, v, "literal", fresh=False),
            M("(inexact %d/%d)" % (fr.numerator, fr.denominator) if fr.denominator != 1 else
              "(inexact %d)" % fr.numerator, v, "inexact"),
            M("(* 1.0 %s)" % lit, v, "product"),
            M("(- (- %s))" % lit, v, "negate"),
            M("(/ %s 2.0)" % flo_lit(x * 2), v, "halve"),
            M('(string->number "%s")' % lit, v, "parsed")]
    for m in outs:
        m.check = "(and (inexact? x) (= x %s))" % (
            "%d/%d" % (fr.numerator, fr.denominator) if fr.denominator != 1 else "%d" % fr.numerator)
    return outs


def cps_str(cps):
    return scm_str("".join(chr(c) for c in cps))


def char_lit(c):
    return "#\\x%x" % c


def u8len(c):
    return 1 if c < 0x80 else 2 if c < 0x800 else 3 if c < 0x10000 else 4


OTHERW = {1: [0x3bb, 0x20ac, 0x1f600], 2: [0x78, 0x20ac, 0x1f600], 3: [0x79, 0xe9, 0x1f600], 4: [0x7a, 0xe9, 0x20ac]}
SAMEW = {1: [0x71, 0x5a], 2: [0xe9, 0x3c9], 3: [0x20ac, 0x4e2d], 4: [0x1f600, 0x10348]}


def str_routes(rng, cps, allow_exotic=True):
    cps = tuple(cps)
    v = ("str", cps)
    lit = cps_str(cps)
    n = len(cps)
    outs = [M(lit, v, "literal", fresh=False),
            M("(string-copy %s)" % lit, v, "copy")]
    cut = rng.randrange(0, n + 1)
    outs.append(M("(string-append %s %s)" % (cps_str(cps[:cut]), cps_str(cps[cut:])), v, "append"))
    pre = (0x78, 0x3bb)[:rng.randrange(0, 3)]
    post = (0x79, 0x20ac)[:rng.randrange(0, 3)]
    outs.append(M("(substring %s %d %d)" % (cps_str(pre + cps + post), len(pre), len(pre) + n), v, "substring"))
    outs.append(M("(string-copy %s %d)" % (cps_str(pre + cps), len(pre)), v, "copy-from"))
    outs.append(M("(list->string (list %s))" % " ".join(char_lit(c) for c in cps), v, "list->string"))
    outs.append(M("(string %s)" % " ".join(char_lit(c) for c in cps), v, "string"))
    outs.append(M("(let ((p (open-output-string))) (write-string %s p) (get-output-string p))" % lit, v, "string-port"))
    outs.append(M("(read-string %d (open-input-string %s))" % (max(n, 1), cps_str(cps + (0x21, 0x21))) if n else
                  '(string-copy "")', v, "read-string"))
    u8 = "".join(chr(c) for c in cps).encode("utf-8")
    outs.append(M("(utf8->string (bytevector %s))" % " ".join(str(b) for b in u8), v, "utf8->string"))
    if n:
        i = rng.randrange(n)
        w = u8len(cps[i])
        other = [c for c in SAMEW[w] if c != cps[i]][0]
        tmp = cps[:i] + (other,) + cps[i + 1:]
        outs.append(M("(let ((s (string-copy %s))) (string-set! s %d %s) s)" % (cps_str(tmp), i, char_lit(cps[i])), v,
                      "string-set!"))
        other = rng.choice(OTHERW[w])
        tmp = cps[:i] + (other,) + cps[i + 1:]
        outs.append(M("(let ((s (string-copy %s))) (string-set! s %d %s) s)" % (cps_str(tmp), i, char_lit(cps[i])), v,
                      "string-set!-width-change"))
        if all(c == cps[0] for c in cps):
            outs.append(M("(make-string %d %s)" % (n, char_lit(cps[0])), v, "make-string"))
    if allow_exotic:
        a, b = rng.randrange(0, 4), rng.randrange(0, 4)
        store = b"x" * a + u8 + b"y" * b
        outs.append(M("(utf8->string! (bytevector %s) %d %d)" % (" ".join(str(x) for x in store), a, a + len(u8)), v,
                      "utf8->string!", tags=["shared-store"], leaf="string"))
    for m in outs:
        m.check = "(and (string? x) (string=? x %s) (= (string-length x) %d))" % (lit, n)
    return outs


SYMSAFE = "abcdefghijklmnopqrstuvwxyzABCDEFGHIJKLMNOPQRSTUVWXYZ0123456789-*!?<>=/+"


def sym_routes(rng, name):
    v = ("sym", name)
    bar = "|%s|" % name.replace("\\", "\\\\").replace("|", "\\|")
    plain = all(ch in SYMSAFE for ch in name) and name and not name[0].isdigit() and name[0] not in "+-" \
        and name.lower() == name
    lit = name if plain else bar
    outs = [M("'%s" % lit, v, "literal", fresh=False),
            M("(string->symbol %s)" % scm_str(name), v, "string->symbol"),
            M("(string->symbol (string-append %s %s))" % (scm_str(name[:1]), scm_str(name[1:])), v, "string->symbol-append"),
            M("(car (list '%s))" % lit, v, "car"),
            M("(string->symbol (symbol->string '%s))" % lit, v, "roundtrip")]
    for m in outs:
        m.check = "(and (symbol? x) (string=? (symbol->string x) %s))" % scm_str(name)
    return outs


def char_routes(rng, c):
    v = ("char", c)
    outs = [M(char_lit(c), v, "literal", fresh=False),
            M("(integer->char %d)" % c, v, "integer->char"),
            M("(string-ref %s 1)" % cps_str((0x3bb, c)), v, "string-ref"),
            M("(car (string->list %s))" % cps_str((c,)), v, "string->list")]
    for m in outs:
        m.check = "(and (char? x) (= (char->integer x) %d))" % c
    return outs


def const_routes(rng, v):
    if v == ("null",):
        outs = [M("'()", v, "literal", fresh=False), M("(list)", v, "list"), M("(cdr (list 1))", v, "cdr"),
                M("(vector->list (vector))", v, "vector->list")]
        chk = "(null? x)"
    elif v == ("bool", True):
        outs = [M("#t", v, "literal", fresh=False), M("(not #f)", v, "not"), M("(= 1 1)", v, "compare"),
                M("(null? '())", v, "predicate")]
        chk = "(eq? x #t)"
    else:
        outs = [M("#f", v, "literal", fresh=False), M("(not 1)", v, "not"), M("(= 1 2)", v, "compare"),
                M("(memq 'a '(b))", v, "memq")]
        chk = "(eq? x #f)"
    for m in outs:
        m.check = chk
    return outs


def bv_routes(rng, bs):
    bs = tuple(bs)
    v = ("bv", bs)
    n = len(bs)
    sp = " ".join(str(b) for b in bs)
    outs = [M("#u8(%s)" % sp, v, "literal", fresh=False),
            M("(bytevector %s)" % sp, v, "bytevector"),
            M("(bytevector-copy (bytevector 9 %s 7 7) 1 %d)" % (sp, n + 1), v, "copy-range"),
            M("(bytevector-copy #u8(%s))" % sp, v, "copy")]
    cut = rng.randrange(0, n + 1)
    outs.append(M("(bytevector-append (bytevector %s) (bytevector %s))" % (" ".join(map(str, bs[:cut])),
                                                                          " ".join(map(str, bs[cut:]))), v, "append"))
    outs.append(M("(let ((b (make-bytevector %d 255))) %s b)" % (n, " ".join("(bytevector-u8-set! b %d %d)" % (i, x)
                                                                              for i, x in enumerate(bs))), v, "set!"))
    outs.append(M("(let ((p (open-output-bytevector))) (write-bytevector (bytevector %s) p) (get-output-bytevector p))" % sp,
                  v, "bytevector-port"))
    if n and all(0 < b < 128 for b in bs):
        outs.append(M("(string->utf8 %s)" % cps_str(bs), v, "string->utf8"))
    if n:
        outs.append(M("(read-bytevector %d (open-input-bytevector (bytevector %s 1 2)))" % (n, sp), v, "read-bytevector"))
    for m in outs:
        m.check = "(and (bytevector? x) (= (bytevector-length x) %d) (equal? (%%bvl x) '(%s)))" % (n, sp)
    return outs


def combine(ms):
    tags = frozenset().union(*[m.tags for m in ms]) if ms else frozenset()
    leaf = None
    for m in ms:
        if m.leaf:
            leaf = m.leaf
    return tags, leaf


def elt_checks(ms, accessor):
    cs = []
    for i, m in enumerate(ms):
        if m.check:
            cs.append("(let ((x %s)) %s)" % (accessor(i), m.check))
    return cs


def vec_routes(rng, ms):
    """ms: element members."""
    v = ("vec", tuple(m.val for m in ms))
    tags, leaf = combine(ms)
    es = [m.expr for m in ms]
    n = len(ms)
    sp = " ".join(es)
    outs = [M("(vector %s)" % sp, v, "vector"),
            M("(list->vector (list %s))" % sp, v, "list->vector"),
            M("(vector-copy (vector 'pad %s 'pad 'pad) 1 %d)" % (sp, n + 1), v, "copy-range"),
            M("(vector-map (lambda (e) e) (vector %s))" % sp, v, "vector-map"),
            M("(let ((v (make-vector %d #f))) %s v)" % (n, " ".join("(vector-set! v %d %s)" % (i, e) for i, e in enumerate(es))),
              v, "set!")]
    cut = rng.randrange(0, n + 1)
    outs.append(M("(vector-append (vector %s) (vector %s))" % (" ".join(es[:cut]), " ".join(es[cut:])), v, "append"))
    cs = elt_checks(ms, lambda i: "(vector-ref x %d)" % i)
    for m in outs:
        m.tags, m.leaf = tags, leaf
        m.check = "(and (vector? x) (= (vector-length x) %d) %s)" % (n, " ".join("(let ((x %s)) %s)" % ("(vector-ref x %d)" % i, mm.check)
                                                                              for i, mm in enumerate(ms) if mm.check))
    return outs


def list_val(vals, tail=("null",)):
    v = tail
    for x in reversed(vals):
        v = ("pair", x, v)
    return v


def list_routes(rng, ms):
    v = list_val([m.val for m in ms])
    tags, leaf = combine(ms)
    es = [m.expr for m in ms]
    n = len(ms)
    sp = " ".join(es)
    outs = [M("(list %s)" % sp, v, "list")]
    if n:
        outs.append(M("(cons %s (list %s))" % (es[0], " ".join(es[1:])), v, "cons"))
        cut = rng.randrange(0, n + 1)
        outs.append(M("(append (list %s) (list %s))" % (" ".join(es[:cut]), " ".join(es[cut:])), v, "append"))
        outs.append(M("(reverse (list %s))" % " ".join(reversed(es)), v, "reverse"))
        outs.append(M("(vector->list (vector %s))" % sp, v, "vector->list"))
        outs.append(M("(list-copy (list %s))" % sp, v, "list-copy"))
        outs.append(M("(map (lambda (e) e) (list %s))" % sp, v, "map"))
        outs.append(M("`(%s)" % " ".join("," + e for e in es), v, "quasiquote"))
        outs.append(M("(list-tail (list 'pad %s) 1)" % sp, v, "list-tail"))
    chk = "(and (list? x) (= (length x) %d) %s)" % (n, " ".join("(let ((x (list-ref x %d))) %s)" % (i, mm.check)
                                                                for i, mm in enumerate(ms) if mm.check))
    for m in outs:
        m.tags, m.leaf = tags, leaf
        m.check = chk
    return outs


def pair_routes(rng, ma, mb):
    v = ("pair", ma.val, mb.val)
    tags, leaf = combine([ma, mb])
    outs = [M("(cons %s %s)" % (ma.expr, mb.expr), v, "cons"),
            M("(let ((p (cons #f #f))) (set-car! p %s) (set-cdr! p %s) p)" % (ma.expr, mb.expr), v, "set-car!"),
            M("(car (list (cons %s %s)))" % (ma.expr, mb.expr), v, "nested-cons")]
    chk = "(and (pair? x) (let ((x (car x))) %s) (let ((x (cdr x))) %s))" % (ma.check or "#t", mb.check or "#t")
    for m in outs:
        m.tags, m.leaf = tags, leaf
        m.check = chk
    return outs


def rec_routes(rng, tname, ms):
    """record types %ra (2 fields) and %rb (2 fields) are defined in the case-file header."""
    v = ("rec", tname, tuple(m.val for m in ms))
    tags, leaf = combine(ms)
    outs = [M("(make-%s %s)" % (tname, " ".join(m.expr for m in ms)), v, "constructor")]
    for m in outs:
        m.tags, m.leaf = tags, leaf
        m.check = "(%s? x)" % tname
    return outs


# ----------------------------------------------------------------------------------------------
# random abstract atoms and near misses

INTS = [0, 1, -1, 2, 255, FIXMAX, FIXMIN, FIXMAX + 1, FIXMIN - 1, 1 << 62, 1 << 63, (1 << 64) - 1, 1 << 64, -(1 << 64),
        (1 << 100), (1 << 128) - 1, 1 << 128, (1 << 192) + 1, -(1 << 200), 10 ** 40, (1 << 64) * 3, 12345678901234567890]
FLOS = [0.0, -0.0, 1.0, -1.0, 0.5, 1.5, -2.25, 0.375, 1e10, 1024.0, 3.0, 0.1, 1e22, 4.5e15, 2.0 ** 70, 2.0 ** -30,
        float("inf"), float("-inf"), float("nan")]
ALPHA = [0x61, 0x62, 0x63, 0x7a, 0x41, 0x42, 0x5a, 0x30, 0x20, 0xe4, 0xc4, 0xe9, 0xc9, 0x3bb, 0x39b, 0x434, 0x414,
         0x20ac, 0x4e2d, 0x1f600, 0x10348]
SYMS = ["a", "b", "abc", "x1", "hello", "lambda", "a-rather-long-symbol-name-that-is-not-immediate", "Hello", "hello world",
        "+", "...", "a.b", "λ", "1+", "UPPER"]


def rnd_int(rng):
    r = rng.random()
    if r < 0.4:
        return rng.choice(INTS) + rng.choice([0, 0, 1, -1])
    bits = rng.choice([4, 16, 40, 61, 62, 63, 64, 65, 100, 128, 129, 200, 300])
    v = rng.getrandbits(bits)
    return -v if rng.random() < 0.4 else v


def rnd_cps(rng, maxlen=8):
    n = rng.choice([0, 1, 1, 2, 3, 5, maxlen])
    if rng.random() < 0.5:
        return tuple(rng.choice(ALPHA[:9]) for _ in range(n))
    return tuple(rng.choice(ALPHA) for _ in range(n))


def fold_cp(c):
    """simple per-character case folding, valid for ALPHA (no special-casing characters in the alphabet)."""
    return ord(chr(c).lower())


def fold_cps(cps):
    return tuple(fold_cp(c) for c in cps)
