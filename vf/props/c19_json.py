"""C19, (chibi json): value classes, generators and judges.  Oracle: Python's json module (both directions)."""
import json
from fractions import Fraction

from ..sexpr import Sym, Str
from .c19_common import Case, text_lit, dbl_expr, is_err, err_msg, as_text, as_float, show

FIXMAX = (1 << 62) - 1

# ---------------------------------------------------------------------------------------------
# atoms: (class, python value).  class names are the stable part of violation signatures.
# ---------------------------------------------------------------------------------------------
STR_ATOMS = [
    ("str-plain", ""), ("str-plain", "a"), ("str-plain", "hello world"), ("str-plain", "Key_9"),
    ("str-quote", 'q"x'), ("str-quote", '"'),
    ("str-backslash", "a\\b"), ("str-backslash", "\\"),
    ("str-slash", "a/b"),
    ("str-bs", "\b"), ("str-ff", "x\fy"), ("str-lf", "line1\nline2"), ("str-cr", "a\rb"), ("str-tab", "\t"),
    ("str-ctrl", "\x01"), ("str-ctrl", "a\x1fz"), ("str-ctrl", "\x0b"),
    ("str-nul", "\x00"), ("str-nul", "a\x00b"),
    ("str-del", "\x7f"),
    ("str-latin1", "é"), ("str-latin1", "ÿ\u0080"),
    ("str-bmp", "日本"), ("str-bmp", "€"), ("str-bmp", "\u2028"), ("str-bmp", "\uffff"),
    ("str-astral", "\U0001F600"), ("str-astral", "\U00010000"), ("str-astral", "\U0010FFFF"), ("str-astral", "a\U0001F600b"),
]
for _n in (120, 123, 124, 125, 126, 127, 128, 129, 130, 131, 132, 250, 252, 253, 254, 255, 256, 257, 600, 5000):
    STR_ATOMS.append(("str-long", ("abcdefghij" * (_n // 10 + 1))[:_n]))
    STR_ATOMS.append(("str-long", ("abcé日" * (_n // 5 + 1))[:_n]))
    STR_ATOMS.append(("str-long", "x" * (_n - 1) + "\U0001F600"))

NUM_ATOMS = [
    ("int-small", 0), ("int-small", 1), ("int-small", -1), ("int-small", 42), ("int-small", -17), ("int-small", 1 << 31),
    ("int-small", -(1 << 31)), ("int-small", (1 << 52) + 12345),
    ("int-near-2^53", (1 << 53) - 1), ("int-near-2^53", (1 << 53) - 3), ("int-near-2^53", -(1 << 53) + 1),
    ("int-2^53..fixmax", (1 << 53) + 1), ("int-2^53..fixmax", (1 << 61) + 3), ("int-2^53..fixmax", FIXMAX),
    ("int-2^53..fixmax", -(1 << 62) + 1), ("int-2^53..fixmax", 1234567890123456789),
    ("int-fixmax..2^64", (1 << 62) + 1), ("int-fixmax..2^64", (1 << 63) + 1), ("int-fixmax..2^64", -(1 << 63) - 1),
    ("int-fixmax..2^64", (1 << 64) - 1),
    ("int>=2^64", (1 << 64) + 1), ("int>=2^64", 10 ** 30 + 7), ("int>=2^64", -(1 << 70) - 1),
    # doubles, by the shape of their decimal text (Python repr / C %.10G)
    ("float-short", 1.5), ("float-short", -0.25), ("float-short", 0.1), ("float-short", 123.456), ("float-short", 3.0),
    ("float-short", 1234567.0), ("float-short", 0.001),
    ("float-big-plain", 1e10), ("float-big-plain", 2.5e12), ("float-big-plain", 1e15),
    ("float-exp-nofrac", 1e100), ("float-exp-nofrac", 1e22), ("float-exp-nofrac", -3e-5), ("float-exp-nofrac", 7e-10),
    ("float-frac-exp", 1.5e-7), ("float-frac-exp", 2.5e-5), ("float-frac-exp", 1.25e+30),
    ("float-long", 0.30000000000000004), ("float-long", 1234567890123.0), ("float-long", 3.141592653589793),
    ("float-long", 0.1 + 0.7), ("float-long", 123456.78901234),
    ("float-long-exp", 1.7976931348623157e308), ("float-long-exp", 2.2250738585072014e-308), ("float-frac-exp", 6.02214076e23),
    ("float-subnormal", 5e-324), ("float-subnormal", 1e-310),
    ("float-negzero", -0.0),
]
LIT_ATOMS = [("lit-true", True), ("lit-false", False), ("lit-null", None)]
ATOMS = STR_ATOMS + NUM_ATOMS + LIT_ATOMS
BORING = [a for a in ATOMS if a[0] in ("str-plain", "int-small", "float-short", "lit-true", "lit-false", "lit-null")]

# JSON texts json.dumps never produces: (class, text, expected value)
RAW_TEXTS = [
    ("num-frac-exp", "[1.5e3]", [1500.0]), ("num-frac-exp", "[2.5E-1]", [0.25]), ("num-frac-exp", "1.25e2", 125.0),
    ("num-upper-E", "[1E5]", [100000.0]), ("num-upper-E", "[2E-2]", [0.02]),
    ("num-exp-plus", "[1e+5]", [100000.0]), ("num-exp-lower", "[1e5]", [100000.0]), ("num-exp-lower", "[25e-1]", [2.5]),
    ("num-negzero-int", "[-0]", [0]),
    ("esc-slash", '["a\\/b"]', ["a/b"]), ("esc-u-ascii", '["\\u0041\\u005a"]', ["AZ"]),
    ("esc-u-latin1", '["\\u00e9"]', ["é"]), ("esc-u-upper-hex", '["\\u00E9\\u20AC"]', ["é€"]),
    ("esc-u-nul", '["a\\u0000b"]', ["a\x00b"]),
    ("esc-surrogate-pair", '["\\ud83d\\ude00"]', ["\U0001F600"]), ("esc-surrogate-pair", '["\\uD83D\\uDE00x"]', ["\U0001F600x"]),
    ("esc-quote", '["\\""]', ['"']), ("esc-backslash", '["\\\\"]', ["\\"]),
    ("esc-b", '["\\b"]', ["\b"]), ("esc-f", '["\\f"]', ["\f"]), ("esc-n", '["\\n"]', ["\n"]), ("esc-r", '["\\r"]', ["\r"]),
    ("esc-t", '["\\t"]', ["\t"]),
    ("ws", " [ 1 , 2 ,\n\t3 ] ", [1, 2, 3]), ("ws", '{ "a" : 1 ,\r\n "b" : [ ] }', {"a": 1, "b": []}),
    ("ws", '\n{"a":{}}\n', {"a": {}}),
    ("dup-keys", '{"a":1,"a":2}', [("a", 1), ("a", 2)]),
    ("top-scalar", "42", 42), ("top-scalar", '"s"', "s"), ("top-scalar", "true", True), ("top-scalar", "null", None),
    ("top-scalar", "-1.5", -1.5),
    ("empty", "[]", []), ("empty", "{}", {}), ("empty", "[[],{}]", [[], {}]), ("empty", '{"":""}', {"": ""}),
]


# ---------------------------------------------------------------------------------------------
# Python value -> Scheme expression building chibi's representation
# ---------------------------------------------------------------------------------------------
def to_scheme(v):
    if v is None:
        return "'null"
    if v is True:
        return "#t"
    if v is False:
        return "#f"
    if isinstance(v, str):
        return text_lit(v)
    if isinstance(v, int):
        return str(v)
    if isinstance(v, float):
        return dbl_expr(v)
    if isinstance(v, list):
        return "(vector %s)" % " ".join(to_scheme(x) for x in v)
    if isinstance(v, dict):
        if not v:
            return "'()"
        return "(list %s)" % " ".join("(cons (string->symbol %s) %s)" % (text_lit(k), to_scheme(x)) for k, x in v.items())
    raise TypeError(v)


def veq(a, v):
    """Deep equality of a json.loads result with the original value; numbers compare numerically (JSON has one
    number type) and exactly; bool/None are not numbers."""
    if v is None or isinstance(v, bool):
        return a is v
    if isinstance(v, str):
        return isinstance(a, str) and a == v
    if isinstance(v, (int, float)):
        if isinstance(a, bool) or not isinstance(a, (int, float)):
            return False
        if isinstance(a, float) and (a != a or a in (float("inf"), float("-inf"))):
            return False
        return Fraction(a) == Fraction(v)
    if isinstance(v, list):
        return isinstance(a, list) and len(a) == len(v) and all(veq(x, y) for x, y in zip(a, v))
    if isinstance(v, dict):
        return isinstance(a, list) and len(a) == len(v) and all(
            isinstance(p, tuple) and p[0] == k and veq(p[1], x) for p, (k, x) in zip(a, v.items()))
    return False


def loads_pairs(text):
    """json.loads keeping objects as ordered lists of (key, value) pairs"""
    return json.loads(text, object_pairs_hook=lambda ps: list(ps))


def jeq(o, v):
    """Does the observation (jobs form) of a value read by chibi equal the Python value v?
    v may use a list of (key, value) tuples for an object (duplicate keys)."""
    if v is None:
        return o == Sym("null")
    if isinstance(v, bool):
        return o is v
    if isinstance(v, str):
        t = as_text(o)
        return t is not None and t[1] == v.encode("utf-8", "surrogatepass")
    if isinstance(v, (int, float)):
        if isinstance(o, list) and len(o) == 2 and o[0] == Sym("i") and isinstance(o[1], int) and not isinstance(o[1], bool):
            return Fraction(o[1]) == Fraction(v)
        f = as_float(o)
        if f == "negzero":
            return Fraction(v) == 0
        if isinstance(f, Fraction):
            return f == Fraction(v)
        return False
    if isinstance(v, dict):
        return _jobj(o, list(v.items()))
    if isinstance(v, list) and v and isinstance(v[0], tuple):
        return _jobj(o, v)
    if isinstance(v, list):
        return isinstance(o, list) and o[:1] == [Sym("a")] and len(o) - 1 == len(v) and all(jeq(x, y) for x, y in zip(o[1:], v))
    return False


def _jobj(o, pairs):
    if not (isinstance(o, list) and o[:1] == [Sym("o")] and len(o) - 1 == len(pairs)):
        return False
    for p, (k, x) in zip(o[1:], pairs):
        if not (isinstance(p, list) and len(p) == 2):
            return False
        kk = p[0]
        if not (isinstance(kk, list) and len(kk) == 2 and kk[0] == Sym("y") and isinstance(kk[1], Str)
                and bytes.fromhex(str(kk[1])) == k.encode("utf-8", "surrogatepass")):
            return False
        if not jeq(p[1], x):
            return False
    return True


def leaf_classes(v, acc=None):
    acc = set() if acc is None else acc
    if isinstance(v, list):
        for x in v:
            leaf_classes(x, acc)
    elif isinstance(v, dict):
        for k, x in v.items():
            acc.add(str_class(k))
            leaf_classes(x, acc)
    elif isinstance(v, str):
        acc.add(str_class(v))
    elif v is None or isinstance(v, bool):
        acc.add("lit-null" if v is None else "lit-true" if v else "lit-false")
    else:
        acc.add(num_class(v))
    return acc


_CLS_OF = {}
for _c, _v in ATOMS:
    _CLS_OF.setdefault((type(_v).__name__, repr(_v)), _c)


def str_class(s):
    return _CLS_OF.get(("str", repr(s)), "str-plain")


def num_class(x):
    return _CLS_OF.get((type(x).__name__, repr(x)), "int-small" if isinstance(x, int) else "float-short")


# ---------------------------------------------------------------------------------------------
# cases
# ---------------------------------------------------------------------------------------------
def write_case(v, cls, shape):
    """chibi writes v: the text must be JSON (json.loads accepts it) and denote v; chibi must read its own text back to v."""
    form = ("(let* ((v %s) (t (%%t (json->string v)))) (list (obe t) (if (string? t) (%%t (jobs (string->json t))) 'skipped)))"
            % to_scheme(v))

    def judge(o):
        out = []
        wit = {"form": form, "value": show(v, 200)}
        if not (isinstance(o, list) and len(o) == 2):
            return [({"codec": "json", "dir": "write", "class": cls, "mode": "unparsable-observation"}, dict(wit, got=show(o)))]
        t, back = o
        if is_err(t):
            return [({"codec": "json", "dir": "write", "class": cls, "mode": "error"}, dict(wit, error=err_msg(t)))]
        tt = as_text(t)
        if tt is None or tt[0] is None:
            return [({"codec": "json", "dir": "write", "class": cls, "mode": "not-utf8-text"}, dict(wit, got=show(t)))]
        text = tt[0]
        wit["chibi_text"] = text[:300]
        try:
            py = loads_pairs(text)
        except ValueError as ex:
            out.append(({"codec": "json", "dir": "write", "class": cls, "mode": "invalid-json"}, dict(wit, python_says=str(ex)[:120])))
            py = None
        else:
            if not veq(py, v):
                out.append(({"codec": "json", "dir": "write", "class": cls, "mode": "wrong-value"}, dict(wit, python_reads=show(py, 200))))
        if not out and not (not is_err(back) and jeq(back, v)):
            # text is right (Python agrees) but chibi's own reader does not return the value
            out.append(({"codec": "json", "dir": "roundtrip", "class": cls, "mode": "error" if is_err(back) else "wrong-value"},
                        dict(wit, chibi_reads_back=show(back))))
        return out
    return Case(form, ("json", "write", cls, shape), judge, info={"leafs": sorted(leaf_classes(v)), "dir": "write"})


def read_case(text, v, cls, shape):
    """chibi reads a JSON text produced by Python (or hand-written): the value must be v."""
    # wrapped in a list: a bare #t / #f line would be taken for a case marker by the case-file splitter
    form = "(list (%%t (jobs (string->json %s))))" % text_lit(text)

    def judge(o):
        wit = {"form": form, "json_text": text[:300], "expected": show(v, 200)}
        if not (isinstance(o, list) and len(o) == 1):
            return [({"codec": "json", "dir": "read", "class": cls, "mode": "unparsable-observation"}, dict(wit, got=show(o)))]
        o = o[0]
        if is_err(o):
            return [({"codec": "json", "dir": "read", "class": cls, "mode": "error"}, dict(wit, error=err_msg(o)))]
        if not jeq(o, v):
            return [({"codec": "json", "dir": "read", "class": cls, "mode": "wrong-value"}, dict(wit, chibi_reads=show(o)))]
        return []
    lv = v
    if isinstance(v, list) and v and isinstance(v[0], tuple):
        lv = {k: x for k, x in v}
    return Case(form, ("json", "read", cls, shape), judge, info={"leafs": sorted(leaf_classes(lv)), "dir": "read"})


def gen_value(rng, depth, hostile):
    r = rng.random()
    if depth <= 0 or r < 0.35:
        pool = ATOMS if hostile and rng.random() < 0.5 else BORING
        return rng.choice(pool)[1]
    if r < 0.7:
        n = rng.choice([0, 1, 2, 3, 4]) if rng.random() < 0.97 else rng.choice([200, 1000])
        if n > 10:
            return [rng.randrange(-1000, 1000) for _ in range(n)]
        return [gen_value(rng, depth - 1, hostile) for _ in range(n)]
    n = rng.choice([0, 1, 2, 3, 4])
    d = {}
    for i in range(n):
        if hostile and rng.random() < 0.3:
            k = rng.choice(STR_ATOMS[:30])[1]
        else:
            k = rng.choice(["a", "b", "key", "x y", "K%d" % i, "id", ""])
        if k in d:
            k = k + str(i)
        d[k] = gen_value(rng, depth - 1, hostile)
    return d


def depth_of(v):
    if isinstance(v, list):
        return 1 + max([depth_of(x) for x in v] or [0])
    if isinstance(v, dict):
        return 1 + max([depth_of(x) for x in v.values()] or [0])
    return 0


def make_cases(rng, n_composite):
    cases = []
    # atomic classes, both directions, three positions (array element, object value, object key for strings)
    for cls, a in ATOMS:
        cases.append(write_case([a], cls, "atom-in-array"))
        if cls != "str-long" or len(a) < 200:
            cases.append(write_case({"k": a}, cls, "atom-as-member"))
        if isinstance(a, str) and len(a) < 200:
            cases.append(write_case({a: 1}, cls, "atom-as-key"))
        for ea in (True, False):
            if not ea and (not isinstance(a, str) or all(ord(c) < 128 for c in a)):
                continue
            rcls = cls + (":escaped" if ea else ":raw") if isinstance(a, str) and any(ord(c) >= 128 for c in a) else cls
            cases.append(read_case(json.dumps([a], ensure_ascii=ea), [a], rcls, "atom-in-array"))
            if isinstance(a, str) and len(a) < 200:
                cases.append(read_case(json.dumps({a: [a]}, ensure_ascii=ea), {a: [a]}, rcls, "atom-as-key"))
    for cls, text, v in RAW_TEXTS:
        cases.append(read_case(text, v, cls, "raw-text"))
    return cases + composite_cases(rng, n_composite)


def composite_cases(rng, n_composite):
    cases = []
    for i in range(n_composite):
        hostile = rng.random() < 0.3
        v = gen_value(rng, rng.choice([1, 2, 3, 4, 5, 6, 8]), hostile)
        if not isinstance(v, (list, dict)):
            v = [v]
        shape = "composite-d%d%s" % (min(depth_of(v), 8), "-hostile-leafs" if hostile else "")
        if rng.random() < 0.5:
            cases.append(write_case(v, "composite", shape))
        else:
            style = rng.randrange(3)
            text = json.dumps(v, ensure_ascii=rng.random() < 0.5, indent=(None, 1, "\t")[style],
                              separators=((",", ":") if style == 0 else None))
            cases.append(read_case(text, v, "composite", shape))
    return cases
