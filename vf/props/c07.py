"""C07 -- macro expansion is hygienic and referentially transparent (DESIGN.md section 3, C07).

Metamorphic oracle: a program and every *admissible consistent renaming* of its user-bound variables must print the
same result (and, as a second line of defence, the hand-derived value of its macro shape).

Programs are written in an abstract syntax (Scheme text read by vf/sexpr.py) in which
    ?x                 is an occurrence (binding or reference) of the user binder with identity x,
    (%scope (?x ..) f ..)  says that the forms f.. are the region where those binders are visible (the wrapper
                       disappears when the program is printed; macro uses that bind user-supplied names declare the
                       region the same way),
    !tmp               inside a macro definition is an identifier the macro itself introduces or a pattern variable
                       (printed as tmp; never a reference to a user binding),
    every other symbol is a plain symbol: user-written code refers with it to whatever is visible there.
A renaming assigns a name to every binder identity, so it is consistent by construction.  It is *admissible* iff
ordinary lexical scoping of the user-written text still resolves every ?x occurrence to its own binder and no plain
symbol of user-written code lies in the region of a binder that now carries that name.  References that arise only from
macro expansion (template text outside the region) are not looked at: protecting them is what hygiene is about.
Top-level (and internal-definition) user binders are renamed only to fresh names or to names macros introduce locally.
"""
import random
import re

from .. import build as B
from .. import cases as C
from .. import sexpr
from ..sexpr import Sym, Vec, Dotted

IMPORTS = ("(import (scheme base) (scheme write) (scheme process-context) (scheme case-lambda) (scheme lazy) "
           "(only (chibi) er-macro-transformer sc-macro-transformer rsc-macro-transformer make-syntactic-closure))")

KEYWORDS = ["if", "let", "begin", "quote", "else", "=>", "_", "...", "lambda", "define", "set!", "cond", "case", "and",
            "or", "when", "unless", "do", "let*", "letrec", "quasiquote", "unquote", "define-syntax", "let-syntax",
            "letrec-syntax", "syntax-rules"]
STDPROCS = ["list", "car", "cdr", "cons", "+", "-", "*", "=", "<", "not", "null?", "pair?", "vector", "apply", "map",
            "reverse", "append", "eq?", "eqv?", "equal?", "cadr", "cddr", "assq", "length", "values"]
FRESH = ["zq1", "zq2", "zq3", "zq4"]

# ---------------------------------------------------------------------------------------------------------------
# macro library (text per transformer kind).  S = syntax-rules, ER / SC / RSC = explicit renaming, syntactic closures.

MY_OR = {
    "S": """(define-syntax my-or (syntax-rules () ((_) #f) ((_ !e) !e)
              ((_ !e !r ...) (let ((!tmp !e)) (if !tmp !tmp (my-or !r ...))))))""",
    "ER": """(define-syntax my-or (er-macro-transformer (lambda (form rename compare)
              (cond ((null? (cdr form)) #f)
                    ((null? (cddr form)) (cadr form))
                    (else (list (rename 'let) (list (list (rename '!tmp) (cadr form)))
                                (list (rename 'if) (rename '!tmp) (rename '!tmp)
                                      (cons (rename 'my-or) (cddr form)))))))))""",
    "SC": """(define-syntax my-or (sc-macro-transformer (lambda (form env)
              (cond ((null? (cdr form)) #f)
                    ((null? (cddr form)) (make-syntactic-closure env '() (cadr form)))
                    (else (list 'let (list (list '!tmp (make-syntactic-closure env '() (cadr form))))
                                (list 'if '!tmp '!tmp
                                      (cons 'my-or (map (lambda (x1) (make-syntactic-closure env '() x1))
                                                        (cddr form))))))))))""",
    "RSC": """(define-syntax my-or (rsc-macro-transformer (lambda (form env)
              (let ((r1 (lambda (s1) (make-syntactic-closure env '() s1))))
                (cond ((null? (cdr form)) #f)
                      ((null? (cddr form)) (cadr form))
                      (else (let ((t1 (r1 '!tmp)))
                              (list (r1 'let) (list (list t1 (cadr form)))
                                    (list (r1 'if) t1 t1 (cons (r1 'my-or) (cddr form)))))))))))""",
}
SWAP = {
    "S": "(define-syntax swap! (syntax-rules () ((_ !a !b) (let ((!tmp !a)) (set! !a !b) (set! !b !tmp)))))",
    "ER": """(define-syntax swap! (er-macro-transformer (lambda (form rename compare)
              (let ((a1 (cadr form)) (b1 (car (cddr form))))
                (list (rename 'let) (list (list (rename '!tmp) a1))
                      (list (rename 'set!) a1 b1) (list (rename 'set!) b1 (rename '!tmp)))))))""",
    "SC": """(define-syntax swap! (sc-macro-transformer (lambda (form env)
              (let ((a1 (make-syntactic-closure env '() (cadr form)))
                    (b1 (make-syntactic-closure env '() (car (cddr form)))))
                (list 'let (list (list '!tmp a1)) (list 'set! a1 b1) (list 'set! b1 '!tmp))))))""",
    "RSC": """(define-syntax swap! (rsc-macro-transformer (lambda (form env)
              (let ((a1 (cadr form)) (b1 (car (cddr form)))
                    (r1 (lambda (s1) (make-syntactic-closure env '() s1))))
                (let ((t1 (r1 '!tmp)))
                  (list (r1 'let) (list (list t1 a1)) (list (r1 'set!) a1 b1) (list (r1 'set!) b1 t1)))))))""",
}
WHILE = {
    "S": """(define-syntax my-while (syntax-rules ()
              ((_ !c !body ...) (let !loop () (if !c (begin !body ... (!loop)) #f)))))""",
    "ER": """(define-syntax my-while (er-macro-transformer (lambda (form rename compare)
              (list (rename 'let) (rename '!loop) '()
                    (list (rename 'if) (cadr form)
                          (cons (rename 'begin) (append (cddr form) (list (list (rename '!loop))))) #f)))))""",
}
DBL = {
    "S": "(define-syntax dbl (syntax-rules () ((_ !e) (helper !e))))",
    "ER": "(define-syntax dbl (er-macro-transformer (lambda (form rename compare) (list (rename 'helper) (cadr form)))))",
    "SC": """(define-syntax dbl (sc-macro-transformer (lambda (form env)
              (list 'helper (make-syntactic-closure env '() (cadr form))))))""",
    "RSC": """(define-syntax dbl (rsc-macro-transformer (lambda (form env)
              (list (make-syntactic-closure env '() 'helper) (cadr form)))))""",
}
HELPER = "(define (helper !x) (* !x 2))"
FIRST = {
    "S": "(define-syntax first (syntax-rules () ((_ !e) (car !e))))",
    "ER": "(define-syntax first (er-macro-transformer (lambda (form rename compare) (list (rename 'car) (cadr form)))))",
}
REPEAT = """(define-syntax repeat (syntax-rules () ((_ !n !v !body)
             (let !loop ((!v 0) (!acc '())) (if (< !v !n) (!loop (+ !v 1) (cons !body !acc)) (reverse !acc))))))"""
MY_IF = "(define-syntax my-if (syntax-rules () ((_ !c !a !b) (cond (!c !a) (else !b)))))"
MY_ASSQ = "(define-syntax my-assq (syntax-rules () ((_ !k !al) (cond ((assq !k !al) => cdr) (else #f)))))"
M1M2 = """(define-syntax m2 (syntax-rules () ((_ !a !b) (+ !a !b))))
          (define-syntax m1 (syntax-rules () ((_ !e) (m2 !e !e))))"""
FLAT = "(define-syntax flat (syntax-rules () ((_ (!a !b ...) ...) (list (list !a (+ !b ...)) ...))))"
TAB = """(define-syntax tab (syntax-rules (row end)
           ((_ (row (!k !v ...) ...) ... end) (list (list (cons !k (list !v ...)) ...) ...))))"""
ROT = "(define-syntax rot (syntax-rules () ((_ !a ... !z) (list !z !a ...))))"
ROT2 = "(define-syntax rot2 (syntax-rules () ((_ (!a ... !y !z) ...) (list (list !z !y !a ...) ...))))"
MY_CASE = """(define-syntax my-case (syntax-rules (else)
              ((_ !e (else !r)) !r)
              ((_ !e (!d !r)) (if (eqv? !e '!d) !r #f))
              ((_ !e (!d !r) !c ...) (if (eqv? !e '!d) !r (my-case !e !c ...)))))"""
LITP = "(define-syntax lit? (syntax-rules (else =>) ((_ else) 'literal) ((_ =>) 'arrow) ((_ !x) 'other)))"
VSUM = "(define-syntax vsum (syntax-rules () ((_ #(!a !b ...)) (+ !a !b ...))))"
VPAIRS = "(define-syntax vpairs (syntax-rules () ((_ #((!a !b) ...)) (list (cons !a !b) ...))))"
DEF_GETTER = """(define-syntax def-getter (syntax-rules () ((_ !name !val)
                 (define-syntax !name (syntax-rules () ((_) !val))))))"""
DEF_LISTER = """(define-syntax def-lister (syntax-rules () ((_ !name)
                 (define-syntax !name (syntax-rules () ((_ !a (... ...)) (list !a (... ...))))))))"""
DEF_ADDER = """(define-syntax def-adder (syntax-rules () ((_ !name !n)
                (define-syntax !name (syntax-rules () ((_ !e) (let ((!tmp !n)) (+ !e !tmp))))))))"""
DEF2 = "(define-syntax def2 (syntax-rules () ((_ !a !b !v) (begin (define !a !v) (define !b !v)))))"
DEF_INC = "(define-syntax def-inc (syntax-rules () ((_ !name !v) (define !name (let ((!tmp !v)) (+ !tmp 1))))))"
WITH_K = "(define-syntax with-k (syntax-rules () ((_ !v !body) (let ((!v 1)) (+ !body k0)))))"
K0 = "(define k0 100)"
MY_LET1 = "(define-syntax my-let1 (syntax-rules () ((_ !n !v !body) ((lambda (!n) !body) !v))))"
MY_LETS = """(define-syntax my-let* (syntax-rules ()
              ((_ () !body) !body)
              ((_ ((!n !v) !rest ...) !body) (let ((!n !v)) (my-let* (!rest ...) !body)))))"""
INC = "(define-syntax inc! (syntax-rules () ((_ !v) (set! !v (+ !v 1))) ((_ !v !n) (set! !v (+ !v !n)))))"
KONST = "(define-syntax konst (syntax-rules () ((_ !e) (lambda !args !e))))"

LITP_ER = {
    "ER": """(define-syntax lit? (er-macro-transformer (lambda (form rename compare)
              (cond ((compare (cadr form) (rename 'else)) (list (rename 'quote) 'literal))
                    ((compare (cadr form) (rename '=>)) (list (rename 'quote) 'arrow))
                    (else (list (rename 'quote) 'other))))))""",
}
MY_CASE2 = "(define-syntax my-case2 (syntax-rules () ((_ !k !c1 !ra !rb) (case !k ((!c1) !ra) (else !rb)))))"
LOOP_EXIT = {
    "SC": """(define-syntax loop-exit (sc-macro-transformer (lambda (form env)
              (list 'call-with-current-continuation
                    (list 'lambda (list 'exit)
                          (cons 'let (cons '!f (cons '()
                                (append (map (lambda (x1) (make-syntactic-closure env '(exit) x1)) (cdr form))
                                        (list (list '!f)))))))))))""",
}

DEF_VIA_TMP = """(define-syntax def-via-tmp (syntax-rules () ((_ !name !v)
                  (begin (define !tmp !v) (define !name (+ !tmp 1))))))"""
MY_LIST_CE = "(define-syntax my-list (syntax-rules ::: () ((_ (!x !y) :::) (list (cons !x !y) :::))))"

# name, {kind: macro text}, other definitions, user top-level definitions, program, expected, {class: [binders]}
SHAPES = []


def shape(name, macros, prog, expect, defs="", tdefs="", top=(), idef=(), kinds=None, extra=""):
    if isinstance(macros, str):
        macros = {"S": macros}
    for k, text in macros.items():
        if kinds and k not in kinds:
            continue
        SHAPES.append({"name": name, "kind": k, "macros": text, "defs": defs, "tdefs": tdefs, "prog": prog,
                       "expect": expect, "top": list(top), "idef": list(idef), "extra": extra.split()})


def std(name, prog, expect, extra, idef=()):
    """A use of a macro of the standard libraries; `extra` = identifiers its definition introduces or uses as
    pattern variables (lib/init-7.scm, lib/scheme/misc-macros.scm, lib/scheme/define-values.scm, lib/srfi/11.sld,
    lib/srfi/16.sld, lib/srfi/39/syntax.scm) -- the 'temporaries used inside a macro definition' of the statement."""
    shape(name, {"STD": ""}, prog, expect, idef=idef, extra=extra)


shape("or-temp", MY_OR, "(let ((?x 5)) (%scope (?x) (my-or #f ?x)))", "5")
shape("or-temp3", MY_OR, "(let ((?x #f) (?y 7)) (%scope (?x ?y) (my-or ?x #f ?y)))", "7")
shape("or-nested", MY_OR, "(let ((?x #f) (?y 3)) (%scope (?x ?y) (my-or ?x (my-or ?x ?y))))", "3", kinds=("S", "ER"))
shape("or-apply", MY_OR, "(let ((?x #f) (?y 7) (?t 8) (?f odd?) (?g even?)) (%scope (?x ?y ?t ?f ?g) (my-or ?x (?f ?t) (?g ?y) ?y)))", "7")
shape("or-toplevel", MY_OR, "(my-or #f ?g)", "5", tdefs="(define ?g 5)", top=("g",), kinds=("S", "ER"))
shape("swap", SWAP, "(let ((?a 1) (?b 2)) (%scope (?a ?b) (swap! ?a ?b) (cons ?a ?b)))", "(2 . 1)")
shape("swap-toplevel", SWAP, "(begin (swap! ?a ?b) (cons ?a ?b))", "(2 . 1)", tdefs="(define ?a 1) (define ?b 2)",
      top=("a", "b"), kinds=("S", "ER"))
shape("while-label", WHILE,
      "(let ((?i 0) (?acc '())) (%scope (?i ?acc) (my-while (< ?i 3) (set! ?acc (cons ?i ?acc)) (set! ?i (+ ?i 1))) ?acc))",
      "(2 1 0)")
shape("repeat-binder", REPEAT, "(let ((?k 10)) (%scope (?k) (repeat 3 ?j (%scope (?j) (+ ?j ?k)))))", "(10 11 12)")
shape("helper-ref", DBL, "(let ((?x 3)) (%scope (?x) (dbl ?x)))", "6", defs=HELPER)
shape("helper-ref-lambda", DBL, "((lambda (?x ?y) (%scope (?x ?y) (cons (dbl ?x) ?y))) 3 4)", "(6 . 4)", defs=HELPER,
      kinds=("S", "ER"))
shape("keyword-ref-else", MY_IF, "(let ((?x 1) (?y 2)) (%scope (?x ?y) (my-if (= ?x 1) ?y ?x)))", "2")
shape("keyword-ref-arrow", MY_ASSQ, "(let ((?x 'kb) (?al '((ka . 1) (kb . 2)))) (%scope (?x ?al) (my-assq ?x ?al)))", "2")
shape("cond-else-head", MY_IF, "(let ((?c #f) (?y 2)) (%scope (?c ?y) (my-if ?c 1 ?y)))", "2")
shape("cond-arrow-body", MY_IF, "(let ((?c 5) (?y 2)) (%scope (?c ?y) (my-if ?y ?c 0)))", "5")
shape("case-arrow-body", MY_CASE2, "(let ((?f 10) (?g 20)) (%scope (?f ?g) (my-case2 1 1 ?f ?g)))", "10")
shape("case-else-body", MY_CASE2, "(let ((?f 10) (?g 20)) (%scope (?f ?g) (my-case2 3 1 ?f ?g)))", "20")
shape("compare-vs-local", LITP_ER, "(let ((?v 1)) (%scope (?v) (cons (lit? ?v) ?v)))", "(other . 1)")
shape("compare-free", LITP_ER, "(let ((?v 1)) (%scope (?v) (list (lit? else) (lit? =>) (lit? ?v))))", "(literal arrow other)")
shape("sc-free-names", LOOP_EXIT,
      "(let ((?n 0)) (%scope (?n) (loop-exit (if (> ?n 3) (exit (* ?n 10)) #f) (set! ?n (+ ?n 1)))))", "40")
shape("macro-ref", M1M2, "(let ((?x 4)) (%scope (?x) (m1 ?x)))", "8")
shape("stdproc-ref", FIRST, "(let ((?p '(1 2))) (%scope (?p) (first ?p)))", "1")
shape("ellipsis2", FLAT, "(let ((?x 10) (?y 20)) (%scope (?x ?y) (flat (?x 1 2) (?y 3))))", "((10 3) (20 3))")
shape("ellipsis3-literals", TAB,
      "(let ((?x 1) (?y 2)) (%scope (?x ?y) (tab (row (?x ?y 3) (?y)) (row) (row (4 ?x)) end)))",
      "(((1 2 3) (2)) () ((4 1)))")
shape("tail-pattern", ROT, "(let ((?x 1)) (%scope (?x) (rot ?x 2 3)))", "(3 1 2)")
shape("tail-pattern2", ROT2, "(let ((?x 1) (?y 5)) (%scope (?x ?y) (rot2 (?x 2 3) (?y ?x) (4 ?y 6 7))))",
      "((3 2 1) (1 5) (7 6 4 5))")
shape("literal-else-used", MY_CASE, "(let ((?x 2)) (%scope (?x) (my-case ?x (1 'one) (2 'two) (else 'other))))", "two")
shape("literal-else-unused", MY_CASE, "(let ((?x 2) (?y 20)) (%scope (?x ?y) (my-case ?x (1 10) (2 ?y))))", "20")
shape("literal-vs-local", LITP, "(let ((?v 1)) (%scope (?v) (cons (lit? ?v) ?v)))", "(other . 1)")
shape("literal-free", LITP, "(let ((?v 1)) (%scope (?v) (list (lit? else) (lit? =>) (lit? ?v))))", "(literal arrow other)")
shape("vector-pattern", VSUM, "(let ((?x 1)) (%scope (?x) (vsum #(?x 2 3))))", "6")
shape("vector-pattern2", VPAIRS, "(let ((?x 1) (?y 2)) (%scope (?x ?y) (vpairs #((?x ?y) (?y 3)))))", "((1 . 2) (2 . 3))")
shape("macro-defining", DEF_GETTER,
      "(let ((?x 5)) (%scope (?x) (def-getter get ?x) (let ((?y 9)) (%scope (?y) (cons (get) ?y)))))", "(5 . 9)")
shape("macro-defining-ellipsis", DEF_LISTER, "(let () (def-lister lst) (let ((?x 1)) (%scope (?x) (lst ?x 2))))", "(1 2)")
shape("macro-defining-temp", DEF_ADDER,
      "(let ((?x 5)) (%scope (?x) (def-adder add-x ?x) (let ((?y 9)) (%scope (?y) (add-x ?y)))))", "14")
shape("let-syntax-capture", "",
      "(let ((?x 1)) (%scope (?x) (let-syntax ((m (syntax-rules () ((_) ?x)))) (let ((?y 2)) (%scope (?y) (+ (m) ?y))))))", "3")
shape("let-syntax-temp", "",
      "(let ((?x 5)) (%scope (?x) (let-syntax ((m (syntax-rules () ((_ !e) (let ((!tmp 1)) (+ !e !tmp ?x)))))) "
      "(let ((?y 10)) (%scope (?y) (m ?y))))))", "16")
shape("letrec-syntax-or", "",
      "(letrec-syntax ((my-or (syntax-rules () ((_) #f) ((_ !e) !e) ((_ !e1 !e2 ...) (let ((!temp !e1)) (if !temp !temp (my-or !e2 ...))))))) "
      "(let ((?x #f) (?y 7) (?t 8) (?f odd?) (?g even?)) (%scope (?x ?y ?t ?f ?g) (my-or ?x (?f ?t) (?g ?y) ?y))))", "7")
shape("letrec-syntax-mutual", "",
      "(let ((?x 3)) (%scope (?x) (letrec-syntax ((ma (syntax-rules () ((_ !e) (mb !e !e)))) (mb (syntax-rules () ((_ !a !b) (+ !a !b ?x))))) "
      "(let ((?y 4)) (%scope (?y) (ma ?y))))))", "11")
shape("definition-context-body", DEF2, "(let () (%scope (?p ?q) (def2 ?p ?q 3) (+ ?p ?q)))", "6", idef=("p", "q"))
shape("definition-context-top", DEF2, "(+ ?p ?q)", "6", tdefs="(def2 ?p ?q 3)", top=("p", "q"))
shape("definition-temp-top", DEF_INC, "(list ?a ?g)", "(5 4)", tdefs="(define ?g 4) (def-inc ?a ?g)", top=("g", "a"))
shape("definition-temp-body", DEF_INC, "(let ((?g 4)) (%scope (?g) (let () (%scope (?a) (def-inc ?a ?g) (list ?a ?g)))))",
      "(5 4)", idef=("a",))
shape("introduced-definition", DEF_VIA_TMP,
      "(let ((?x 10)) (%scope (?x) (let () (%scope (?a) (def-via-tmp ?a ?x) (list ?a ?x)))))", "(11 10)", idef=("a",))
shape("introduced-definition-twice", DEF_VIA_TMP,
      "(let ((?x 10)) (%scope (?x) (let () (%scope (?a ?b) (def-via-tmp ?a ?x) (def-via-tmp ?b ?a) (list ?a ?b ?x)))))",
      "(11 12 10)", idef=("a", "b"))
shape("custom-ellipsis", MY_LIST_CE, "(let ((?x 1) (?y 2)) (%scope (?x ?y) (my-list (?x ?y) (?y 3))))", "((1 . 2) (2 . 3))")
shape("shadow-macro-keyword", MY_OR, "(cons (let ((?x 5) (?y 1)) (%scope (?x ?y) (+ ?x ?y))) (my-or #f 2))", "(6 . 2)",
      kinds=("S", "ER"))
shape("binder-vs-free-ref", WITH_K, "(with-k ?v (%scope (?v) (+ ?v ?v)))", "102", defs=K0)
shape("lambda-binder", MY_LET1, "(let ((?x 2)) (%scope (?x) (my-let1 ?y (+ ?x 1) (%scope (?y) (* ?x ?y)))))", "6")
shape("recursive-binders", MY_LETS,
      "(let ((?z 1)) (%scope (?z) (my-let* ((?a (+ ?z 1)) (?b (%scope (?a) (* ?a 2)))) (%scope (?a ?b) (list ?z ?a ?b)))))",
      "(1 2 4)")
shape("set-through-macro", INC, "(let ((?n 1) (?d 5)) (%scope (?n ?d) (inc! ?n) (inc! ?n ?d) ?n))", "7")
shape("introduced-lambda-args", KONST, "(let ((?x 4)) (%scope (?x) ((konst ?x) 1 2 3)))", "4")
shape("do-loop", DBL, "(%scope (?i ?s) (do ((?i 0 (+ ?i 1)) (?s 0 (+ ?s (dbl ?i)))) ((= ?i 3) ?s)))", "6", defs=HELPER,
      kinds=("S", "ER"))
shape("named-let", MY_OR,
      "(let ?lp ((?n 3) (?r 0)) (%scope (?lp) (%scope (?n ?r) (if (= ?n 0) ?r (?lp (- ?n 1) (my-or #f (+ ?r ?n)))))))", "6",
      kinds=("S", "ER"))


std("std-or", "(let ((?t 5)) (%scope (?t) (or #f ?t)))", "5", "tmp expr")
std("std-cond-arrow", "(let ((?x '(1 2)) (?t 9)) (%scope (?x ?t) (cond ((memv 2 ?x) => car) (else ?t))))", "2", "tmp cl expr")
std("std-cond-test-only", "(let ((?x #f) (?t 9)) (%scope (?x ?t) (cond (?x) (?t))))", "9", "tmp cl expr")
std("std-case-arrow", "(let ((?x 2) (?f list)) (%scope (?x ?f) (case ?x ((1) 'k1) ((2 3) => ?f) (else 'k2))))", "(2)",
    "tmp exprs ls body clause expr")
std("std-do", "(%scope (?i ?acc) (do ((?i 0 (+ ?i 1)) (?acc '() (cons ?i ?acc))) ((= ?i 3) ?acc)))", "(2 1 0)",
    "lp tmp body check wrap expr")
std("std-do-test-value", "(%scope (?i) (do ((?i 0 (+ ?i 1))) ((and (> ?i 2) ?i))))", "3", "lp tmp body check wrap expr")
std("std-named-let", "(let ?lp ((?n 3) (?r 0)) (%scope (?lp) (%scope (?n ?r) (if (= ?n 0) ?r (?lp (- ?n 1) (+ ?r ?n))))))",
    "6", "vars vals bindings res expr")
std("std-named-let-label-unused", "(let ?lp ((?n 3) (?r 1)) (%scope (?lp) (%scope (?n ?r) (+ ?n ?r))))", "4",
    "vars vals bindings res expr")
std("std-let-values",
    "(let-values (((?a ?b) (values 1 2)) ((?c . ?d) (values 3 4 5))) (%scope (?a ?b ?c ?d) (list ?a ?b ?c ?d)))",
    "(1 2 3 (4 5))", "tmp binds bind maps params rest expr old-expr x y body")
std("std-let*-values",
    "(let*-values (((?a ?b) (values 1 2)) ((?c) (%scope (?a ?b) (values (+ ?a ?b))))) (%scope (?a ?b ?c) (list ?a ?b ?c)))",
    "(1 2 3)", "params rest expr body")
std("std-define-values", "(let () (%scope (?a ?b ?c) (define-values (?a ?b ?c) (values 1 2 3)) (list ?a ?b ?c)))",
    "(1 2 3)", "v var0 var1 varn dummy args var expr", idef=("a", "b", "c"))
std("std-define-values-dot", "(let () (%scope (?a ?b ?r) (define-values (?a ?b . ?r) (values 1 2 3 4)) (list ?a ?b ?r)))",
    "(1 2 (3 4))", "v var0 var1 varn var-dot dummy args var expr", idef=("a", "b", "r"))
std("std-parameterize", "(let ((?p (make-parameter 1)) (?v 5)) (%scope (?p ?v) (parameterize ((?p ?v)) (list (?p) ?v))))",
    "(5 5)", "old new ptmp vtmp param value cons-new args rest body")
std("std-case-lambda",
    "(let ((?f (case-lambda ((?a) (%scope (?a) (list 1 ?a))) ((?b ?c) (%scope (?b ?c) (list 2 ?b ?c))) "
    "((?d . ?e) (%scope (?d ?e) (list 3 ?d ?e)))))) (%scope (?f) (list (?f 1) (?f 2 3) (?f 4 5 6))))",
    "((1 1) (2 2 3) (3 4 (5 6)))", "args len n p params x y body rest clauses")
std("std-guard",
    "(let ((?x 1) (?y 2)) (%scope (?x ?y) (guard (?e (%scope (?e) ((symbol? ?e) (list ?e ?x)) ((string? ?e) ?y))) "
    "(+ ?x (raise 'boom)))))", "(boom 1)",
    "guard-k condition handler-k reraise temp res var clause test result e1 e2 result1 result2 clause1 clause2")
std("std-guard-arrow",
    "(let ((?x 1)) (%scope (?x) (guard (?e (%scope (?e) ((assq 'k1 ?e) => cdr) ((assq 'k2 ?e)))) "
    "(raise (list (cons 'k1 (+ ?x 41)))))))", "42",
    "guard-k condition handler-k reraise temp res var clause test result e1 e2 result1 result2 clause1 clause2")
std("std-guard-no-raise", "(let ((?x 1)) (%scope (?x) (guard (?e (%scope (?e) (#t (list ?e ?x)))) (+ ?x 1))))", "2",
    "guard-k condition handler-k reraise temp res var clause test result e1 e2")
std("std-delay", "(let ((?x 3)) (%scope (?x) (force (delay (+ ?x 1)))))", "4", "promise expr")
std("std-when-unless",
    "(let ((?x 3) (?y 0)) (%scope (?x ?y) (when (> ?x 2) (set! ?y (+ ?x 1))) (unless (> ?x 5) (set! ?y (+ ?y 1))) ?y))",
    "5", "test body")
std("std-quasiquote",
    "(let ((?x 1) (?y '(2 3))) (%scope (?x ?y) (quasiquote (k1 (unquote ?x) (unquote-splicing ?y) k2))))",
    "(k1 1 2 3 k2)", "qq x d expr")
std("std-letrec",
    "(%scope (?ev ?od) (letrec ((?ev (lambda (?n) (%scope (?n) (if (= ?n 0) #t (?od (- ?n 1)))))) "
    "(?od (lambda (?m) (%scope (?m) (if (= ?m 0) #f (?ev (- ?m 1))))))) (list (?ev 4))))", "(#t)", "defs expr x")
std("std-let*", "(let* ((?a 1) (?b (%scope (?a) (+ ?a 1)))) (%scope (?a ?b) (list ?a ?b)))", "(1 2)", "expr x")


# ---------------------------------------------------------------------------------------------------------------
# abstract syntax helpers

def is_var(x):
    return isinstance(x, Sym) and len(x) > 1 and x[0] == "?"


def is_tmpl(x):
    return isinstance(x, Sym) and len(x) > 1 and x[0] == "!"


def children(t):
    if isinstance(t, Dotted):
        return list(t.items) + [t.tail]
    if isinstance(t, list):
        return t
    return []


def collect(t, vars_, tmpl, plain):
    if is_var(t):
        if t[1:] not in vars_:
            vars_.append(t[1:])
    elif is_tmpl(t):
        tmpl.add(t[1:])
    elif isinstance(t, Sym):
        if t != "%scope":
            plain.add(str(t))
    else:
        for c in children(t):
            collect(c, vars_, tmpl, plain)


def render(t, names):
    if is_var(t):
        return names[t[1:]]
    if is_tmpl(t):
        return t[1:]
    if isinstance(t, Sym):
        return str(t)
    if isinstance(t, Vec):
        return "#(" + " ".join(render(c, names) for c in t) + ")"
    if isinstance(t, Dotted):
        return "(" + " ".join(render(c, names) for c in t.items) + " . " + render(t.tail, names) + ")"
    if isinstance(t, list):
        out = []
        for c in t:
            if isinstance(c, list) and not isinstance(c, Vec) and c and c[0] == Sym("%scope"):
                out.extend(render(x, names) for x in c[2:])
            else:
                out.append(render(c, names))
        if t and t[0] == Sym("%scope"):
            return " ".join(out[2:])
        return "(" + " ".join(out) + ")"
    return sexpr.to_scm(t)


def admissible(trees, top, names):
    """Lexical-scope check of the user-written text under the name assignment (see module docstring).
    trees: list of (tree, is_user_code).  Macro-definition text outside user code is only subject to the implicit
    outermost scope of the top-level binders."""
    ok = [True]
    ntop = 1 if top else 0

    def walk(t, stack):
        if not ok[0]:
            return
        if is_var(t):
            v = t[1:]
            if not any(v in s for s in stack):
                return                               # binding occurrence outside its region
            n = names[v]
            for s in reversed(stack):
                if any(names[w] == n for w in s):
                    if v not in s:
                        ok[0] = False
                    return
        elif is_tmpl(t):
            # a pattern variable / introduced identifier of a LOCAL macro definition written inside a user region
            # shadows (or is indistinguishable from) a user binder of the same name there; at top level it is exempt
            n = t[1:]
            for s in stack[ntop:]:
                if any(names[w] == n for w in s):
                    ok[0] = False
                    return
        elif isinstance(t, Sym):
            n = str(t)
            for s in stack:
                if any(names[w] == n for w in s):
                    ok[0] = False
                    return
        elif isinstance(t, list) and not isinstance(t, Vec) and t and t[0] == Sym("%scope"):
            s = [x[1:] for x in t[1]]
            if len({names[w] for w in s}) != len(s):
                ok[0] = False                        # two binders of one binding construct under one name
                return
            for c in t[2:]:
                walk(c, stack + [s])
        else:
            for c in children(t):
                walk(c, stack)

    if len({names[w] for w in top}) != len(top):
        return False
    for tree in trees:
        walk(tree, [list(top)] if top else [])
    return ok[0]


class Family:
    """One shape x transformer kind x placement, parsed."""

    def __init__(self, sh, placement):
        self.sh = sh
        self.placement = placement
        self.macros = sexpr.parse_all(sh["macros"])
        self.defs = sexpr.parse_all(sh["defs"])
        self.tdefs = sexpr.parse_all(sh["tdefs"])
        self.prog = sexpr.parse_all(sh["prog"])
        assert len(self.prog) == 1, sh["name"]
        self.expect = sexpr.parse(sh["expect"])
        self.vars = []
        tmpl, plain_m, plain_u = set(), set(), set()
        dummy = []
        for t in self.macros + self.defs:
            collect(t, dummy, tmpl, plain_m)
        assert not dummy, (sh["name"], dummy)
        for t in self.tdefs + self.prog:
            collect(t, self.vars, tmpl, plain_u)
        self.tmpl = sorted(tmpl)
        self.plain_macro = sorted(plain_m)
        self.plain_user = sorted(plain_u)
        self.literals = set()
        for m in self.macros:
            # (define-syntax name (syntax-rules (lit ...) ...))
            if isinstance(m, list) and len(m) == 3 and isinstance(m[2], list) and m[2] and m[2][0] == Sym("syntax-rules"):
                self.literals.update(str(x) for x in m[2][1])
        self.key = "%s/%s/%s" % (sh["name"], sh["kind"], placement)

    def klass(self, v):
        if v in self.sh["top"]:
            return "top"
        if v in self.sh["idef"]:
            return "idef"
        return "local"

    def targets(self, v):
        """[(name, collision kind)] a binder may be renamed to (before the admissibility check)."""
        k = self.klass(v)
        if self.placement == "body" and k == "top":
            k = "idef"
        out = [(n, "fresh") for n in FRESH[:2]]
        out += [(n, "template-temp") for n in self.tmpl]
        out += [(n, "template-temp") for n in self.sh["extra"] if n not in self.tmpl]
        if k == "top":
            return [(n, kd) for n, kd in out if n != v]
        for n in self.plain_macro:
            if n in self.literals:
                out.append((n, "literal"))
            elif n in KEYWORDS:
                if k != "idef":
                    out.append((n, "keyword"))
            elif n in STDPROCS:
                out.append((n, "stdproc"))
            else:
                out.append((n, "template-free-ref"))
        have = {n for n, _ in out}
        if k != "idef":
            out += [(n, "keyword") for n in KEYWORDS if n not in have]
        out += [(n, "stdproc") for n in STDPROCS if n not in have]
        out += [(w, "other-binder") for w in self.vars if w != v]
        return [(n, kd) for n, kd in out if n != v]

    def text(self, names):
        """-> list of top-level forms (text) that make up the program, the last one being the observed expression."""
        mac = [render(t, names) for t in self.macros]
        defs = [render(t, names) for t in self.defs]
        tdefs = [render(t, names) for t in self.tdefs]
        prog = render(self.prog[0], names)
        if self.placement == "top":
            return defs + mac + tdefs, prog
        return [], "(let () %s %s)" % (" ".join(defs + mac + tdefs), prog)

    def ok(self, names):
        return admissible(self.macros + self.defs + self.tdefs + self.prog, self.sh["top"], names)


def check_library():
    """Authoring checks: names macros introduce locally never coincide with names they refer to freely."""
    tm, pl = set(), set()
    for sh in SHAPES:
        f = Family(sh, "top")
        tm.update(f.tmpl)
        pl.update(f.plain_macro)
        pl.update(f.plain_user)
        ident = {v: v for v in f.vars}
        assert f.ok(ident), ("identity renaming inadmissible", f.key)
    bad = (tm & pl) | (set(FRESH) & (tm | pl))
    assert not bad, bad


def families():
    out = []
    for sh in SHAPES:
        out.append(Family(sh, "top"))
        out.append(Family(sh, "body"))
    return out


def variants(rng, fam, nsingle, ncombo, stats):
    """-> [(names dict, collision label tuple)], identity first."""
    ident = {v: v for v in fam.vars}
    out = [(ident, ("none",))]
    seen = {tuple(sorted(ident.items()))}
    singles = []
    for v in fam.vars:
        for n, kind in fam.targets(v):
            singles.append((v, n, kind))
    rng.shuffle(singles)
    # keep every collision kind represented before filling up at random
    picked = []
    bykind = {}
    for s in singles:
        bykind.setdefault(s[2], []).append(s)
    order = []
    while any(bykind.values()):
        for k in sorted(bykind):
            if bykind[k]:
                order.append(bykind[k].pop())
    for v, n, kind in order:
        if len(picked) >= nsingle:
            break
        names = dict(ident)
        names[v] = n
        if not fam.ok(names):
            stats["rejected"] = stats.get("rejected", 0) + 1
            continue
        key = tuple(sorted(names.items()))
        if key in seen:
            continue
        seen.add(key)
        picked.append((names, (kind,)))
    out += picked
    tries = 0
    combos = 0
    cands = {v: fam.targets(v) for v in fam.vars}
    while combos < ncombo and tries < ncombo * 12 and len(fam.vars) > 1:
        tries += 1
        names = {}
        kinds = []
        for v in fam.vars:
            if rng.random() < 0.3:
                names[v] = v
            else:
                n, kind = rng.choice(cands[v])
                names[v] = n
                kinds.append(kind)
        if len(kinds) < 2:
            continue
        if not fam.ok(names):
            stats["rejected"] = stats.get("rejected", 0) + 1
            continue
        key = tuple(sorted(names.items()))
        if key in seen:
            continue
        seen.add(key)
        combos += 1
        out.append((names, tuple(sorted(set(kinds)))))
    return out


def same(a, b_):
    if isinstance(a, Dotted) or isinstance(b_, Dotted):
        return isinstance(a, Dotted) and isinstance(b_, Dotted) and same(a.items, b_.items) and same(a.tail, b_.tail)
    if isinstance(a, list) or isinstance(b_, list):
        return (isinstance(a, list) and isinstance(b_, list) and isinstance(a, Vec) == isinstance(b_, Vec)
                and len(a) == len(b_) and all(same(x, y) for x, y in zip(a, b_)))
    if isinstance(a, bool) or isinstance(b_, bool):
        return a is b_
    return type(a) == type(b_) and a == b_


def check(rep, tier, seed, variant="hooks", scale=None):
    check_library()
    rng = random.Random(seed * 104729 + 7)
    b = B.ensure(variant)
    rep.builds.add(variant)
    fams = families()
    if tier == "quick":
        nsingle, ncombo = 60, 24
    else:
        nsingle, ncombo = 100000, 1200
    if scale:
        nsingle, ncombo = scale
    stats = {}
    cases = []
    meta = {}
    for fi, fam in enumerate(fams):
        for vi, (names, coll) in enumerate(variants(rng, fam, nsingle, ncombo, stats)):
            cid = "f%d.%d" % (fi, vi)
            forms, prog = fam.text(names)
            text = "(%%case* %s)\n%s\n(%%obs (%%try (lambda () %s)))" % (cid, "\n".join(forms), prog)
            cases.append((cid, text))
            meta[cid] = (fam, names, coll, text)
    rng.shuffle(cases)
    res, procs = C.run_batches(b, IMPORTS, "", cases, batch=120, env_extra={"CHIBI_VERIF_HEAPCHECK": 1}, timeout=90,
                               heap="32M/256M")
    base = {}
    for cid, (fam, names, coll, text) in meta.items():
        if coll == ("none",):
            base[fam.key] = res.get(cid)
    shown = 0
    for cid, (fam, names, coll, text) in sorted(meta.items()):
        r = res.get(cid)
        renamed = {v: n for v, n in names.items() if v != n}
        rep.case((fam.sh["name"], fam.sh["kind"], fam.placement, coll))
        for k in coll:
            rep.count("collision_" + k)
        shared = sorted("%s=%s" % (a_, b_) for a_ in fam.vars for b_ in fam.vars if a_ < b_ and names[a_] == names[b_])
        sig0 = {"shape": fam.sh["name"], "macro": fam.sh["kind"], "placement": fam.placement,
                "collision": "+".join(coll), "same_name": "+".join(shared) or "none"}
        wit = {"program": text, "renaming": renamed, "expected": fam.sh["expect"]}
        if r is None or r.status == "missing":
            rep.inconc("no-output", cid)
            continue
        if r.status == "timeout":
            rep.inconc("timeout", text[:300])
            continue
        if r.status == "crash":
            wit["detail"] = r.detail
            err = (r.detail or {}).get("stderr", "")
            how = (r.detail or {}).get("how", "")
            mode = "error-at-expansion" if how.startswith("exit") else "crash"
            m = re.search(r"ERROR[^\n]*?: ([^\n:]*)", err)
            rep.violation(dict(sig0, mode=mode, message=(m.group(1).strip() if m else how)), wit)
            continue
        wit["observed"] = r.text.strip()[:400]
        try:
            data = r.data()
        except Exception:
            rep.violation(dict(sig0, mode="unparsable-output"), wit)
            continue
        if len(data) != 1:
            rep.violation(dict(sig0, mode="unparsable-output"), wit)
            continue
        obs = data[0]
        if shown < 8 and renamed and len(coll) >= 1 and coll != ("fresh",):
            shown += 1
            rep.sample({"program": text, "renaming": renamed, "expected": fam.sh["expect"], "observed": r.text.strip()[:200]})
        if same(obs, fam.expect):
            continue
        br = base.get(fam.key)
        btxt = br.text.strip() if br is not None and br.status == "ok" else None
        wit["unrenamed_observed"] = btxt
        iserr = isinstance(obs, list) and len(obs) == 2 and obs[0] == Sym("err")
        if coll == ("none",):
            mode = "unrenamed-differs-from-expected"
        elif btxt is not None and btxt == r.text.strip():
            mode = "same-as-unrenamed-but-not-expected"
        else:
            mode = "renamed-raises" if iserr else "renamed-differs"
        rep.violation(dict(sig0, mode=mode), wit)
    for p in procs:
        for l in p.log_lines("HEAPCHECK-FAIL"):
            rep.violation({"shape": "heapcheck", "mode": l.split()[1]}, {"line": l})
        for d in p.log_kv("HEAPCHECK-SUMMARY"):
            rep.count("heap_checks", d.get("runs", 0))
    rep.extra["families"] = len(fams)
    rep.extra["macro_shapes"] = len({sh["name"] for sh in SHAPES})
    rep.extra["inadmissible_renamings_rejected"] = stats.get("rejected", 0)
    rep.extra["processes"] = len(procs)
    rep.rule = ("library of %d macro shapes (binding-introducing, free reference to helper / keyword / macro / standard "
                "procedure, nested ellipsis with literals and tail patterns, vector patterns, macro-defining macros with "
                "(... ...), let-syntax / letrec-syntax capturing locals, definition context) x transformer kind "
                "(syntax-rules, er-, sc-, rsc-macro-transformer) x placement (macros at top level / in a body); for each, the "
                "unrenamed program, single-binder renamings covering every collision kind, and random multi-binder "
                "renamings, all admissible by the lexical-scope check; one evaluation = one program/renaming pair; "
                "distinct = (shape, transformer kind, placement, set of collision kinds among fresh, template-temp, "
                "template-free-ref, keyword, stdproc, literal, other-binder)" % len({sh["name"] for sh in SHAPES}))
    rep.assumptions = ["the admissibility check (lexical scoping of the user-written text with declared binder regions) is right: "
                       "it rejects every renaming that changes the program for reasons other than hygiene",
                       "hand-derived expected values of the shapes are right (also cross-checked by the unrenamed run)",
                       "cases share a process: every case (re)defines each top-level name it uses, and top-level user "
                       "variables are renamed only to fresh names or names macros introduce locally"]
