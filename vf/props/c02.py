"""C02 -- the collector never reclaims or corrupts reachable data (DESIGN.md section 3, C02).

Forced-collection injection (hook H2 in gc.c) over (a) the existing test corpus, compared with the same
program's output without injection, (b) generated allocation-heavy case files whose expected
observations come from the Python models of other properties, (c) small initial heaps.  Refuting events:
crash, sanitizer report, heap-checker report (dangling / misplaced reference after a sweep), output
different from the reference.
"""
import importlib
import os
import random
import re

from .. import build as B
from .. import cases as C
from .. import corpus
from .. import report
from .. import run as R

GC_FRAMES = {"sexp_mark_one", "sexp_mark_one_start", "sexp_mark", "sexp_gc", "sexp_alloc", "sexp_alloc_tagged_aux",
             "sexp_sweep", "sexp_finalize", "sexp_try_alloc", "verif_heap_check", "sexp_reset_weak_references",
             "sexp_mark_ephemeron_values", "__interceptor_memcpy", "__interceptor_memset", "memcpy", "memset",
             "__asan_memcpy", "__asan_memset", "__sanitizer::Die", "raise", "abort"}

SUMMARY = re.compile(r"(\d+) out of (\d+) \(([\d.]+)%\) (?:tests?|subgroups?) passed")
ANSI = re.compile(r"\x1b\[[0-9;]*m")

QUICK_CORPUS = ("r7rs-tests", "syntax-tests", "unicode-tests", "lib_srfi_1_test", "lib_srfi_69_test", "lib_srfi_18_test",
                "lib_chibi_weak-test", "lib_srfi_146_test", "lib_chibi_io-test", "lib_srfi_95_test",
                "lib_chibi_string-test", "lib_srfi_151_test", "lib_chibi_json-test", "lib_chibi_numeric-test",
                "lib_chibi_regexp-test", "lib_srfi_160_test", "lib_chibi_system-test", "lib_srfi_166_test",
                "lib_chibi_process-test", "lib_srfi_38_test", "lib_chibi_syntax-case-test", "lib_srfi_130_test",
                "lib_chibi_shell-test")

# programs whose detailed output depends on addresses / timing; compared on their pass/fail summary only
# (all corpus programs are compared on summaries: the per-test dots are part of it)


def summary_of(out):
    text = ANSI.sub("", out)
    sums = SUMMARY.findall(text)
    fails = len(re.findall(r"^FAIL", text, re.M)) + len(re.findall(r"^ERROR", text, re.M))
    return [(a, b) for a, b, _ in sums], fails


def first_frames(frames, k=2):
    out = []
    for f in frames:
        if f in GC_FRAMES or f.startswith("__") or f.startswith("??"):
            continue
        out.append(f)
        if len(out) >= k:
            break
    return out


def triage(b, args, env, r, raw_cmd=None):
    """Stable signature fields for a failed process: sanitizer frames, else a gdb backtrace."""
    san = r.sanitizer_report()
    if san:
        return {"how": "asan", "frames": first_frames(san["frames"])}, {"sanitizer": san, "stderr": r.err[-2500:]}
    fails = r.log_lines("HEAPCHECK-FAIL")
    if fails:
        d = {}
        for tok in fails[0].split()[1:]:
            if "=" in tok:
                k, v = tok.split("=", 1)
                d[k] = v
        return ({"how": "heapcheck", "mode": d.get("kind"), "slot": d.get("slot"), "owner_type": d.get("owner_type")},
                {"lines": fails[:5]})
    if r.crashed:
        fr = R.gdb_backtrace(b, args, env_extra=env, timeout=300, raw_cmd=raw_cmd, nframes=25)
        return {"how": "crash", "frames": first_frames(fr)}, {"backtrace": fr, "stderr": r.err[-1500:]}
    return {"how": "exit-%s" % r.rc}, {"stderr": r.err[-1500:], "stdout_tail": r.out[-800:]}


def schedules(rng, tier, n):
    out = []
    primes = [47, 61, 83, 101, 151, 211, 307, 503]   # start-up alone is ~6e5 allocations
    for i in range(n):
        k = rng.random()
        if k < 0.4:
            m, d = rng.choice([(2, 4), (2, 5), (3, 6), (2, 8), (1, 10)])
            out.append("sites:%d:%d" % (m, d))
        elif k < 0.75:
            p = rng.choice(primes)
            out.append("every:%d:%d" % (p, rng.randrange(p)))
        else:
            out.append("rand:%d:%d" % (rng.randrange(1, 10 ** 6), rng.choice([2, 5, 10, 20])))
    return out


WORKLOAD_MODULES = ["c04", "c17", "c12", "c15", "c18", "c19", "c08"]
REPLAY_MODULES = ["c03", "c05", "c06", "c07", "c12", "c14", "c15", "c18", "c19", "c20", "c08"]


def check(rep, tier, seed):
    rng = random.Random(seed * 15485863 + 2)
    variants = ["hooks", "asan-rz"]      # the quick tier uses the sanitized build for the directed program only
    builds = {v: B.ensure(v) for v in variants}
    rep.builds.update(variants)
    b = builds["hooks"]
    hc = "4" if tier == "quick" else "2"
    totals = {"allocs": 0, "forced": 0, "paths": 0, "paths_forced": 0, "hc_runs": 0, "hc_objs": 0, "hc_refs": 0}

    def account(r):
        for d in r.log_kv("GCINJ-SUMMARY"):
            for k in ("allocs", "forced", "paths", "paths_forced"):
                totals[k] += d.get(k, 0)
        for d in r.log_kv("HEAPCHECK-SUMMARY"):
            totals["hc_runs"] += d.get("runs", 0)
            totals["hc_objs"] += d.get("objects", 0)
            totals["hc_refs"] += d.get("refs", 0)

    # ---- (a) corpus under injection, differential against the un-injected run ----------------------
    tests = corpus.tests(b)
    if tier == "quick":
        tests = [t for t in tests if t[0] in QUICK_CORPUS]
        scheds = ["sites:2:5"]
    else:
        scheds = ["sites:2:5", "sites:3:6", "sites:2:8", "every:97:%d" % rng.randrange(97), "rand:%d:20" % seed]
    # a directed program: bignum results that need one word more than their operand (the result is copied into a longer
    # number while the original is held only by a C local) - arithmetic-shift rounding a negative magnitude up, sums and
    # products crossing a word boundary, exact->inexact->exact; printed, so that the un-injected run is the oracle
    dpath = os.path.join(R.scratch_dir("c02d"), "directed.scm")
    with open(dpath, "w") as fh:
        fh.write("(import (scheme base) (scheme write) (srfi 151))\n"
                 "(define (show x) (write x) (newline))\n"
                 "(do ((k 1 (+ k 1))) ((= k 7))\n"
                 "  (do ((s 1 (+ s 61))) ((> s 260))\n"
                 "    (let* ((ones (- (expt 2 (* 64 k)) 1)) (a (- (+ (* ones (expt 2 s)) 1))))\n"
                 "      (show (arithmetic-shift a (- s)))\n"
                 "      (show (arithmetic-shift (- a) (- s)))\n"
                 "      (show (+ ones 1)) (show (- (- ones) 1)) (show (* ones ones)) (show (- (* ones ones)))\n"
                 "      (show (bitwise-not ones)) (show (bitwise-xor a ones)) (show (bitwise-ior a (- ones)))\n"
                 "      (show (exact (inexact ones))) (show (quotient (* a a) ones)))))\n")
    tests = list(tests) + [("c02-directed-bignum-carry", [dpath])]
    jobs = []
    for name, args in tests:
        jobs.append((name, args, None, "hooks", None))
        if name == "lib_chibi_shell-test" and tier == "quick":
            jobs.append((name, args, "sites:2:8", "hooks", None))      # descriptors closed twice showed under this one
        if name == "c02-directed-bignum-carry" and tier == "quick":
            jobs.append((name, args, "sites:2:8", "hooks", None))      # the schedule under which the shift was caught
            jobs.append((name, args, "sites:2:8", "asan-rz", None))    # ... and with freed chunks poisoned: a stale read
            jobs.append((name, args, "sites:3:6", "asan-rz", None))    # is a report even when the stale bytes look right
        for s in scheds:
            jobs.append((name, args, s, "hooks", None))
        if tier != "quick":
            jobs.append((name, args, "sites:2:5", "asan-rz", None))
    # (c) small initial heaps (natural collections and heap growth at unusual points)
    small = [t for t in tests if t[0] in ("r7rs-tests", "lib_srfi_1_test", "lib_srfi_69_test", "lib_chibi_string-test",
                                           "lib_srfi_146_test", "lib_chibi_json-test", "lib_srfi_95_test")]
    for name, args in (small if tier == "quick" else tests):
        for heap in (["64k"] if tier == "quick" else ["64k", "200k", "1M"]):
            jobs.append((name, args, None, "hooks", heap))

    def run_job(j):
        name, args, sched, variant, heap = j
        env = {"CHIBI_VERIF_HEAPCHECK": hc if sched else "1"}
        if sched:
            env["CHIBI_VERIF_GC"] = sched
        tmo = 240 if tier == "quick" else 1200
        r = R.run(builds[variant], args, env_extra=env, timeout=tmo, heap=heap)
        return j, env, r

    results = R.pmap(run_job, jobs)
    # "a collection forced before the k-th allocation for every k": dense windows.  The un-injected run below counts the
    # program's allocations (the hook counts whenever a mode is set; every:10^9 never fires); windows of consecutive
    # allocations, each with a forced collection, are then placed in the program's own part of the run.
    wtests = [t for t in tests if t[0] in ("lib_srfi_1_test", "lib_srfi_69_test", "lib_srfi_95_test", "lib_chibi_json-test",
                                           "lib_srfi_151_test", "lib_chibi_string-test", "lib_srfi_18_test", "lib_srfi_38_test")]
    if tier != "quick":
        wtests = tests

    def count_allocs(t):
        name, args = t
        r = R.run(b, args, env_extra={"CHIBI_VERIF_GC": "every:1000000000:1"}, timeout=600)
        n = 0
        for dct in r.log_kv("GCINJ-SUMMARY"):
            n = max(n, dct.get("allocs", 0))
        return name, n

    counts = dict(R.pmap(count_allocs, wtests))
    wjobs = []
    for name, args in wtests:
        n = counts.get(name, 0)
        if n < 1000:
            continue
        for k in range(2 if tier == "quick" else 8):
            a = rng.randrange(int(n * 0.55), n - 300)
            wjobs.append((name, args, "window:%d:%d" % (a, a + (150 if tier == "quick" else 400)), "hooks", None))
    results += R.pmap(run_job, wjobs)
    jobs = jobs + wjobs
    ref = {}
    for (name, args, sched, variant, heap), env, r in results:
        if sched is None and heap is None:
            ref[name] = r
    for (name, args, sched, variant, heap), env, r in results:
        account(r)
        if sched is None and heap is None:
            continue
        kind = "heap:" + heap if heap else sched.split(":")[0]
        rep.case(("corpus", name, kind, variant))
        base = ref.get(name)
        if r.timed_out:
            rep.inconc("timeout", "%s %s" % (name, sched or heap))
            continue
        if base is None or base.rc != 0 or base.timed_out:
            rep.inconc("reference-run-failed", name)
            continue
        bad = r.crashed or r.rc != base.rc or r.log_lines("HEAPCHECK-FAIL") or r.sanitizer_report()
        if bad:
            sig, wit = triage(builds[variant], args, env, r)
            sig.update(check="corpus", program=name)
            wit.update(program=name, schedule=sched, heap=heap, variant=variant, args=args)
            rep.violation(sig, wit)
            continue
        if summary_of(r.out) != summary_of(base.out):
            rep.violation({"check": "corpus", "how": "output-differs", "program": name},
                          {"program": name, "schedule": sched, "heap": heap, "variant": variant,
                           "reference_summary": summary_of(base.out), "summary": summary_of(r.out),
                           "stdout_tail": ANSI.sub("", r.out)[-1500:]})
    rep.sample({"program": tests[0][0], "args": tests[0][1], "schedules": scheds,
                "reference_summary": summary_of(ref[tests[0][0]].out) if tests[0][0] in ref else None})

    # ---- (b) generated case files under random schedules, differential against the un-injected run ----
    # (the same case file is run with and without injection; per-case observations must be identical --
    #  "the observable result of any program is independent of the collection schedule")
    per_mod = 1200 if tier == "quick" else 20000
    for mname in WORKLOAD_MODULES:
        try:
            mod = importlib.import_module("vf.props." + mname)
        except ImportError:
            continue
        wl = getattr(mod, "gc_workload", None)
        if wl is None:
            continue
        w = wl(random.Random(seed * 31 + sum(map(ord, mname))), per_mod)
        cases = w["cases"]
        batch = w.get("batch", 100)
        batches = [cases[i:i + batch] for i in range(0, len(cases), batch)]
        scs = schedules(rng, tier, len(batches))

        def run_batch(ib, w=w):
            i, bt = ib
            variant = "hooks" if (tier == "quick" or i % 3) else "asan-rz"
            env0 = {"CHIBI_VERIF_HEAPCHECK": "1"}
            env = {"CHIBI_VERIF_HEAPCHECK": hc, "CHIBI_VERIF_GC": scs[i]}
            res0, _ = C.run_file(builds["hooks"], w["imports"], w.get("header", ""), bt, env_extra=env0,
                                 timeout=w.get("timeout", 180), heap=w.get("heap"))
            res, procs = C.run_file(builds[variant], w["imports"], w.get("header", ""), bt, env_extra=env,
                                    timeout=w.get("timeout", 180) * 3, heap=w.get("heap"))
            return i, bt, res0, res, procs, variant

        for i, bt, res0, res, procs, variant in R.pmap(run_batch, list(enumerate(batches))):
            for p in procs:
                account(p)
                for l in p.log_lines("HEAPCHECK-FAIL"):
                    rep.violation({"check": "generated", "workload": mname, "how": "heapcheck",
                                   "mode": l.split()[1].replace("kind=", "")}, {"line": l, "schedule": scs[i]})
            for cid, form in bt:
                rep.case(("generated", mname, scs[i].split(":")[0], w["classify"](cid) if "classify" in w else None))
                cr, c0 = res.get(cid), res0.get(cid)
                wit = {"form": form[:1500], "schedule": scs[i], "variant": variant}
                if cr is None or c0 is None or c0.status != "ok":
                    rep.inconc("reference-run-no-result", cid)
                    continue
                if cr.status == "timeout" or cr.status == "missing":
                    rep.inconc("timeout-under-injection", cid)
                    continue
                if cr.status == "crash":
                    d = cr.detail or {}
                    san = d.get("sanitizer")
                    sig = {"check": "generated", "workload": mname, "how": "asan" if san else "crash",
                           "frames": first_frames(san["frames"]) if san else None,
                           "op": w["classify"](cid) if "classify" in w else None}
                    rep.violation(sig, dict(wit, detail=d))
                    continue
                if cr.text.strip() != c0.text.strip():
                    rep.violation({"check": "generated", "workload": mname, "how": "result-depends-on-gc-schedule",
                                   "op": w["classify"](cid) if "classify" in w else None},
                                  dict(wit, without_injection=c0.text.strip()[:600], with_injection=cr.text.strip()[:600]))
        if cases:
            rep.sample({"workload": mname, "form": cases[0][1][:300], "schedules": scs[:3]})
    # ---- (d) thorough only: the complete quick workloads of the other properties, replayed under ambient injection -----
    # Each module's check runs twice into scratch reports, without and with a forced-collection schedule applied to every
    # interpreter process it starts; a violation signature that appears only under injection is a C02 violation.
    if tier != "quick":
        import json as _json
        for mname in REPLAY_MODULES:
            try:
                mod = importlib.import_module("vf.props." + mname)
            except ImportError:
                continue
            sigs = {}
            for label, amb in (("plain", {}), ("injected", {"CHIBI_VERIF_GC": "rand:%d:2" % (seed + 7), "CHIBI_VERIF_HEAPCHECK": "3"})):
                sh = report.Report(mname.upper(), "quick", seed)
                B.AMBIENT_ENV.clear()
                B.AMBIENT_ENV.update(amb)
                try:
                    mod.check(sh, "quick", seed)
                except B.HarnessError as ex:
                    rep.inconc("replay-harness-error", "%s %s: %s" % (mname, label, str(ex)[:200]))
                finally:
                    B.AMBIENT_ENV.clear()
                sigs[label] = {}
                for sg, wit in sh.violations:
                    sigs[label].setdefault(_json.dumps(sg, sort_keys=True), wit)
                rep.case(("replay", mname, label), n=max(1, sh.evaluations))
                rep.count("replayed_cases_" + label, sh.evaluations)
            own, _fx = report.load_findings(mname.upper())
            for key, wit in sigs["injected"].items():
                if key not in sigs["plain"]:
                    sg = _json.loads(key)
                    # a listed finding of the workload's own property is that property's business, whichever run shows it
                    # (the slower injected run can surface a known defect under another operation name)
                    if any(report._match(f["match"], sg) for f in own if f["property"] == mname.upper()):
                        rep.count("replay_signatures_covered_by_the_workloads_own_findings")
                        continue
                    # a workload's own timing verdict ("did not finish in 30 s") says nothing here: injected collections
                    # and the heap walk after every third one make deep structures many times slower
                    if (sg.get("check") or sg.get("what") or sg.get("kind")) in ("termination", "timeout", "hang", "no-progress"):
                        rep.inconc("replayed-workload-timing-verdict-under-injection", "%s %s" % (mname, key[:120]))
                        continue
                    rep.violation({"check": "replay-under-injection", "workload": mname, "how": "only-under-injection",
                                   "mode": sg.get("mode") or sg.get("kind") or sg.get("check")},
                                  {"workload_signature": sg, "witness": wit})
    rep.extra.update(allocations_seen=totals["allocs"], forced_collections=totals["forced"],
                     allocation_paths_seen=totals["paths"], allocation_paths_forced=totals["paths_forced"],
                     heap_checks=totals["hc_runs"], heap_objects_checked=totals["hc_objs"],
                     heap_references_checked=totals["hc_refs"], corpus_programs=len(tests), corpus_runs=len(jobs))
    if totals["forced"] == 0:
        rep.inconc("injection-hook-never-fired", None)
        rep.min_nontrivial = 10 ** 9
    rep.rule = ("each existing test program x collection schedule (sites:M:D = a collection at the first M occurrences of every "
                "distinct allocation call path of depth D; every:N:phase; rand:seed:permille; small initial heaps), compared with "
                "the un-injected run of the same build; plus generated case files of the model-based properties under per-batch "
                "random schedules, judged by their Python models; distinct = (program or workload, schedule kind, variant)")
    rep.assumptions = ["test programs print deterministic pass/fail summaries (compared after stripping timings)",
                       "the frame-pointer walk that identifies allocation call paths needs -fno-omit-frame-pointer (set by vf/build.py)"]
