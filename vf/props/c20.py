"""C20 -- regular expression matching agrees with the SRFI 115 semantics (DESIGN.md section 3, C20).

Oracle: an independent matcher.  For an SRE e and a subject s it computes, by structural recursion
over e, the table  M(e)[i] = set of end positions j such that e matches s[i:j] (anchors evaluated
against the whole subject), as one bit mask per start position.  Repetition is the least fixed
point  star(A)[i] = {i} + union of star(A)[j] for j in A[i], j > i  (evaluated from the end of the
subject backwards), bounded repetition is iterated relational composition.  No automaton, no
backtracking order, no submatch registers: nothing is shared with lib/chibi/regexp.scm.

Checked for every (SRE, subject) pair:
  regexp-matches / regexp-matches?   <=>  len(s) in M(e)[0]
  regexp-search finds something      <=>  some M(e)[a] is non-empty
  the reported span (a, b) of either  =>  b in M(e)[a]         (for regexp-matches: (a, b) = (0, len s))
  every reported submatch span (a_k, b_k) of group k  =>  b_k in M(e_k)[a_k] and inside the span of the whole match
Which of several possible matches is reported (leftmost-longest, greedy/non-greedy) is not checked.
"""
import json
import multiprocessing
import os
import random

from .. import build as B
from .. import cases as C
from .. import run as R
from ..sexpr import scm_str

IMPORTS = "(import (scheme base) (scheme write) (scheme process-context) (chibi regexp))"

# local copy of the case macro that flushes the marker before the case runs (a watchdog expiry inside a case is
# otherwise blamed on the previous case and the rest of the file is lost)
PRELUDE = C.PRELUDE + r"""
(define-syntax %case*
  (syntax-rules ()
    ((_ id body ...) (begin (newline) (display "#") (display 'id) (newline) (flush-output-port)
                            body ...
                            (flush-output-port)))))
"""

HEADER = r"""
(define (%spans m)
  (if m
      (let ((n (regexp-match-count m)))
        (display " 1 ") (display n)
        (do ((k 0 (+ k 1))) ((> k n))
          (display " ") (display (or (regexp-match-submatch-start m k) -1))
          (display " ") (display (or (regexp-match-submatch-end m k) -1))))
      (display " 0")))
(define (%msg e)
  (if (error-object? e)
      (let ((m (error-object-message e))) (if (string? m) m "?"))
      "non-error-object"))
(define (%run-sre sre subjs npred)
  ;; npred: call the regexp-matches? predicate too on the first npred subjects
  (let ((rx (call-with-current-continuation
             (lambda (k) (with-exception-handler
                          (lambda (e) (k (list 'err (%msg e))))
                          (lambda () (regexp sre)))))))
    (cond
     ((regexp? rx)
      (display "ok") (newline)
      (let lp ((ls subjs) (i 0))
        (if (pair? ls)
            (let ((s (car ls)))
              (call-with-current-continuation
               (lambda (k)
                 (with-exception-handler
                  (lambda (e) (display " E ") (write (%msg e)) (k #f))
                  (lambda ()
                    (display (if (< i npred) (if (regexp-matches? rx s) 1 0) 2))
                    (%spans (regexp-matches rx s))
                    (%spans (regexp-search rx s))))))
              (newline)
              (lp (cdr ls) (+ i 1))))))
     (else (write rx) (newline)))))
"""

# ----------------------------------------------------------------------------------------------
# character model (only for the characters the generator uses)
# ----------------------------------------------------------------------------------------------
E_ACUTE, E_ACUTE_UP, LAMBDA, LAMBDA_UP, NICHI, GRIN = "é", "É", "λ", "Λ", "日", "\U0001F600"
UNIVERSE = "abcABC\n 1_-+" + E_ACUTE + E_ACUTE_UP + LAMBDA + LAMBDA_UP + NICHI + GRIN
_LOWER = set("abc" + E_ACUTE + LAMBDA)
_UPPER = set("ABC" + E_ACUTE_UP + LAMBDA_UP)
_LETTER = _LOWER | _UPPER | {NICHI}
_DIGIT = {"1"}
_SPACE = {" ", "\n"}
_PUNCT = {"_", "-"}
_SYMBOL = {"+", GRIN}
_FOLD = {"A": "a", "B": "b", "C": "c", E_ACUTE_UP: E_ACUTE, LAMBDA_UP: LAMBDA}


def fold(c):
    return _FOLD.get(c, c)


def cls_member(name, c, foldp, asciip):
    """Membership of character c in the named class in the given context (SRFI 115 / SRFI 14)."""
    if name == "any":
        return True
    if name == "nonl":
        return c != "\n"
    if name == "ascii":
        return ord(c) < 128
    if name == "xdigit":
        return c in "abcABC1"
    if asciip and ord(c) >= 128:
        return False
    if name == "lower":
        return c in (_LOWER | _UPPER) if foldp else c in _LOWER
    if name == "upper":
        return c in (_LOWER | _UPPER) if foldp else c in _UPPER
    if name == "alpha":
        return c in _LETTER
    if name == "num":
        return c in _DIGIT
    if name == "alnum":
        return c in _LETTER or c in _DIGIT
    if name == "space":
        return c in _SPACE
    if name == "punct":
        return c in _PUNCT
    if name == "symbol":
        return c in _SYMBOL
    if name == "graphic":
        return c not in _SPACE
    raise ValueError(name)


def word_char(c):
    return c in _LETTER or c in _DIGIT or c == "_"


CLS_ALIASES = {"any": ["any"], "nonl": ["nonl"], "ascii": ["ascii"], "xdigit": ["xdigit", "hex-digit"],
               "lower": ["lower", "lower-case"], "upper": ["upper", "upper-case"], "alpha": ["alpha", "alphabetic"],
               "num": ["num", "numeric", "digit"], "alnum": ["alnum", "alphanumeric", "alphanum"],
               "space": ["space", "white", "whitespace"], "punct": ["punct", "punctuation"], "symbol": ["symbol"],
               "graphic": ["graphic", "graph"]}

# ----------------------------------------------------------------------------------------------
# AST
#   char-set nodes:  ('lit', c) ('set', "chars") ('range', lo, hi) ('cls', name) ('not', cs) ('and', cs, cs)
#                    ('diff', cs, cs)
#   general nodes:   ('str', "text") ('seq', (e...)) ('or', (e...)) ('*', e, greedy) ('+', e) ('?', e, greedy)
#                    ('rep', lo, hi|None, e, greedy) ('sub', e, name|None) ('nocase', e) ('case', e)
#                    ('w/ascii', e) ('w/unicode', e) ('nocapture', e) ('bos',) ('eos',) ('bol',) ('eol',)
#                    ('bow',) ('eow',) ('nwb',)
# ----------------------------------------------------------------------------------------------
CS_KINDS = ("lit", "set", "range", "cls", "not", "and", "diff")
ANCHORS = ("bos", "eos", "bol", "eol", "bow", "eow", "nwb")
WRAPPERS = ("nocase", "case", "w/ascii", "w/unicode", "nocapture")


def cs_member(e, c, foldp, asciip):
    """SRFI 115: under w/nocase the case expansion is applied at the terminals of a compound cset-sre."""
    t = e[0]
    if t == "lit":
        return c == e[1] or (foldp and fold(c) == fold(e[1]))
    if t == "set":
        return c in e[1] or (foldp and any(fold(c) == fold(x) for x in e[1]))
    if t == "range":
        return any(c == x or (foldp and fold(c) == fold(x)) for x in map(chr, range(ord(e[1]), ord(e[2]) + 1)))
    if t == "cls":
        return cls_member(e[1], c, foldp, asciip)
    if t == "not":
        return not cs_member(e[1], c, foldp, asciip)
    if t == "and":
        return cs_member(e[1], c, foldp, asciip) and cs_member(e[2], c, foldp, asciip)
    if t == "diff":
        return cs_member(e[1], c, foldp, asciip) and not cs_member(e[2], c, foldp, asciip)
    if t == "or":                                   # an `or` of char-set nodes
        return any(cs_member(x, c, foldp, asciip) for x in e[1])
    if t in ("nocase", "case", "w/ascii", "w/unicode"):
        f, a = ctx_of(t, foldp, asciip)
        return cs_member(e[1], c, f, a)
    if t == "str" and len(e[1]) == 1:
        return cs_member(("lit", e[1]), c, foldp, asciip)
    raise ValueError(t)


def ctx_of(t, foldp, asciip):
    if t == "nocase":
        return True, asciip
    if t == "case":
        return False, asciip
    if t == "w/ascii":
        return foldp, True
    if t == "w/unicode":
        return foldp, False
    return foldp, asciip


def chibi_cset_sre(e):
    """Mirror of char-set-sre? in regexp.scm: does chibi compile this `or` member through sre->char-set?
    (generator rule only, see module doc of gen_or)"""
    t = e[0]
    if t in CS_KINDS:
        return True
    if t == "str":
        return len(e[1]) == 1
    if t == "or":
        return all(chibi_cset_sre(x) for x in e[1])
    if t in ("nocase", "case", "w/ascii", "w/unicode"):
        return chibi_cset_sre(e[1])
    return False


def cset_suffix_start(alts):
    """chibi compiles (or a b c) as a fork of a and (or b c), and any `or` whose members are ALL char-set SREs
    (also a one-member `or`) as a single char-set: returns the index from which on that happens, or None."""
    k = len(alts)
    while k > 0 and chibi_cset_sre(alts[k - 1]):
        k -= 1
    return k if k < len(alts) else None


def cs_is_big(e):
    """Contains a complement or a named class: the union is (nearly) all of Unicode."""
    t = e[0]
    if t in ("not", "cls"):
        return True
    if t in ("and", "diff"):
        return cs_is_big(e[1]) or cs_is_big(e[2])
    if t == "or":
        return any(cs_is_big(x) for x in e[1])
    if t in ("nocase", "case", "w/ascii", "w/unicode"):
        return cs_is_big(e[1])
    return False


class Oracle:
    """Tables of end-position bit masks for one subject."""

    def __init__(self, s, alt_or_fold=False):
        self.s = s
        self.n = len(s)
        self.group_nodes = []     # (body of the k-th submatch, is it inside a repetition?)
        self.groups = []          # group k (1-based -> index k-1): table of the k-th submatch in left-paren order
        # alt_or_fold: evaluate an `or` that chibi compiles as one char-set the way regexp.scm does it
        # (union of the members computed without case folding, folded afterwards); used only to *name*
        # the cause of a mismatch, never to decide one.
        self.alt = alt_or_fold

    def ident(self):
        return [1 << i for i in range(self.n + 1)]

    def compose(self, a, b):
        out = []
        for m in a:
            r = 0
            j = 0
            while m:
                if m & 1:
                    r |= b[j]
                m >>= 1
                j += 1
            out.append(r)
        return out

    def star(self, a):
        n = self.n
        r = [0] * (n + 1)
        for i in range(n, -1, -1):
            v = 1 << i
            m = a[i] >> (i + 1)
            j = i + 1
            while m:
                if m & 1:
                    v |= r[j]
                m >>= 1
                j += 1
            r[i] = v
        return r

    def chars(self, pred):
        s, n = self.s, self.n
        return [(1 << (i + 1)) if pred(s[i]) else 0 for i in range(n)] + [0]

    def ev(self, e, foldp=False, asciip=False, capture=True, inrep=False):
        t = e[0]
        s, n = self.s, self.n
        if t in CS_KINDS:
            return self.chars(lambda c: cs_member(e, c, foldp, asciip))
        if t == "str":
            r = self.ident()
            for ch in e[1]:
                r = self.compose(r, self.chars(lambda c, ch=ch: c == ch or (foldp and fold(c) == fold(ch))))
            return r
        if t == "seq":
            r = self.ident()
            for x in e[1]:
                r = self.compose(r, self.ev(x, foldp, asciip, capture, inrep))
            return r
        if t == "or":
            alts = e[1]
            r = [0] * (n + 1)
            if self.alt and (foldp or asciip) and cset_suffix_start(alts) is not None:
                k = cset_suffix_start(alts)
                tail = ("or", alts[k:])

                def pred(c):
                    if not foldp:
                        return cs_member(tail, c, False, False)
                    return any(cs_member(tail, x, False, False) for x in UNIVERSE if fold(x) == fold(c))
                r = self.chars(pred)
                alts = alts[:k]
            for x in alts:
                a = self.ev(x, foldp, asciip, capture, inrep)
                r = [p | q for p, q in zip(r, a)]
            return r
        if t == "*":
            return self.star(self.ev(e[1], foldp, asciip, capture, True))
        if t == "+":
            a = self.ev(e[1], foldp, asciip, capture, True)
            return self.compose(a, self.star(a))
        if t == "?":
            a = self.ev(e[1], foldp, asciip, capture, inrep)
            return [m | (1 << i) for i, m in enumerate(a)]
        if t == "rep":
            lo, hi = e[1], e[2]
            a = self.ev(e[3], foldp, asciip, capture, True)
            p = self.ident()
            for _ in range(lo):
                p = self.compose(p, a)
            if hi is None:
                return self.compose(p, self.star(a))
            r = list(p)
            for _ in range(hi - lo):
                p = self.compose(p, a)
                r = [x | y for x, y in zip(r, p)]
            return r
        if t == "sub":
            if capture:
                k = len(self.groups)
                self.groups.append(None)
                self.group_nodes.append((e[1], inrep))
                a = self.ev(e[1], foldp, asciip, capture, inrep)
                self.groups[k] = a
                return a
            return self.ev(e[1], foldp, asciip, capture, inrep)
        if t in ("nocase", "case", "w/ascii", "w/unicode"):
            f, a = ctx_of(t, foldp, asciip)
            return self.ev(e[1], f, a, capture, inrep)
        if t == "nocapture":
            return self.ev(e[1], foldp, asciip, False, inrep)
        if t == "bos":
            return [1] + [0] * n
        if t == "eos":
            return [0] * n + [1 << n]
        if t == "bol":
            return [(1 << i) if (i == 0 or s[i - 1] == "\n") else 0 for i in range(n + 1)]
        if t == "eol":
            return [(1 << i) if (i == n or s[i] == "\n") else 0 for i in range(n + 1)]
        if t in ("bow", "eow", "nwb"):
            out = []
            for i in range(n + 1):
                prev = i > 0 and word_char(s[i - 1])
                cur = i < n and word_char(s[i])
                bow = cur and not prev
                eow = prev and not cur
                ok = bow if t == "bow" else eow if t == "eow" else (not bow and not eow)
                out.append((1 << i) if ok else 0)
            return out
        raise ValueError(t)


# ----------------------------------------------------------------------------------------------
# printing an AST as SRE source text (aliases chosen by a per-SRE PRNG: same semantics)
# ----------------------------------------------------------------------------------------------
def ch_lit(c):
    if c == "\n":
        return "#\\newline"
    if c == " ":
        return "#\\space"
    if ord(c) < 127:
        return "#\\" + c
    return "#\\x%x" % ord(c)


def to_sre(e, rng):
    t = e[0]
    pick = rng.choice

    def body(x):
        """children of an implicit sequence: splice a seq node sometimes"""
        if x[0] == "seq" and len(x[1]) >= 1 and rng.random() < 0.5:
            return " ".join(to_sre(y, rng) for y in x[1])
        return to_sre(x, rng)
    if t == "lit":
        return scm_str(e[1]) if rng.random() < 0.15 else ch_lit(e[1])
    if t == "set":
        return ("(char-set %s)" if rng.random() < 0.2 else "(%s)") % scm_str(e[1])
    if t == "range":
        if rng.random() < 0.5:
            return "(%s %s)" % (pick(["/", "char-range"]), scm_str(e[1] + e[2]))
        return "(%s %s %s)" % (pick(["/", "char-range"]), ch_lit(e[1]), ch_lit(e[2]))
    if t == "cls":
        return pick(CLS_ALIASES[e[1]])
    if t == "not":
        return "(%s %s)" % (pick(["~", "complement"]), to_sre(e[1], rng))
    if t == "and":
        return "(%s %s %s)" % (pick(["&", "and"]), to_sre(e[1], rng), to_sre(e[2], rng))
    if t == "diff":
        return "(%s %s %s)" % (pick(["-", "difference"]), to_sre(e[1], rng), to_sre(e[2], rng))
    if t == "str":
        return scm_str(e[1])
    if t == "seq":
        return "(%s%s)" % (pick([":", "seq"]), "".join(" " + to_sre(x, rng) for x in e[1]))
    if t == "or":
        return "(%s %s)" % ("or" if rng.random() < 0.85 else "|\\||", " ".join(to_sre(x, rng) for x in e[1]))
    if t == "*":
        return "(%s %s)" % (pick(["*", "zero-or-more"]) if e[2] else pick(["*?", "non-greedy-zero-or-more"]), body(e[1]))
    if t == "+":
        return "(%s %s)" % (pick(["+", "one-or-more"]), body(e[1]))
    if t == "?":
        return "(%s %s)" % (pick(["?", "optional"]) if e[2] else pick(["??", "non-greedy-optional"]), body(e[1]))
    if t == "rep":
        lo, hi, x, greedy = e[1], e[2], e[3], e[4]
        if not greedy:
            return "(%s %d %d %s)" % (pick(["**?", "non-greedy-repeated"]), lo, hi, body(x))
        if hi is None:
            return "(%s %d %s)" % (pick([">=", "at-least"]), lo, body(x))
        if lo == hi and rng.random() < 0.7:
            return "(%s %d %s)" % (pick(["=", "exactly"]), lo, body(x))
        return "(%s %d %d %s)" % (pick(["**", "repeated"]), lo, hi, body(x))
    if t == "sub":
        if e[2]:
            return "(%s %s %s)" % (pick(["->", "=>", "submatch-named"]), e[2], body(e[1]))
        return "(%s %s)" % (pick(["$", "submatch"]), body(e[1]))
    if t == "nocase":
        return "(w/nocase %s)" % body(e[1])
    if t == "case":
        return "(w/case %s)" % body(e[1])
    if t in ("w/ascii", "w/unicode"):
        return "(%s %s)" % (t, body(e[1]))
    if t == "nocapture":
        return "(w/nocapture %s)" % body(e[1])
    if t in ANCHORS:
        return t
    raise ValueError(t)


def skeleton(e, depth):
    """Operator-nesting signature of an SRE (leaves abstracted, cut at the given depth)."""
    t = e[0]
    if t in CS_KINDS or t == "str":
        return "c" if t in ("lit", "str") else "cs"
    if t in ANCHORS:
        return t
    if depth <= 0:
        return "."
    if t in ("seq", "or"):
        kids = [skeleton(x, depth - 1) for x in e[1]]
        if t == "or":
            kids = sorted(set(kids))
        return "(%s %s)" % (t, " ".join(kids))
    if t == "rep":
        k = "=0" if e[2] == 0 else "=" if e[1] == e[2] else ">=" if e[2] is None else "**"
        return "(%s%s %s)" % (k, "" if e[4] else "?", skeleton(e[3], depth - 1))
    if t in ("*", "?"):
        return "(%s%s %s)" % (t, "" if e[2] else "?", skeleton(e[1], depth - 1))
    return "(%s %s)" % (t, skeleton(e[1], depth - 1))


def features(e, acc=None):
    acc = set() if acc is None else acc
    t = e[0]
    if t == "rep":
        acc.add("zero-repeat" if e[2] == 0 else "rep")
        if not e[4]:
            acc.add("non-greedy")
        features(e[3], acc)
    elif t in ("seq", "or"):
        acc.add(t)
        for x in e[1]:
            features(x, acc)
    elif t in ("*", "?"):
        acc.add(t)
        if not e[2]:
            acc.add("non-greedy")
        features(e[1], acc)
    elif t in ("+", "sub", "not") or t in WRAPPERS:
        acc.add(t)
        features(e[1], acc)
    elif t in ("and", "diff"):
        acc.add(t)
        features(e[1], acc)
        features(e[2], acc)
    else:
        acc.add(t)
    return acc


def size(e):
    """Number of NFA-ish positions after chibi's expansion of bounded repeats."""
    t = e[0]
    if t in CS_KINDS or t in ANCHORS:
        return 1
    if t == "str":
        return max(1, len(e[1]))
    if t in ("seq", "or"):
        return 1 + sum(size(x) for x in e[1])
    if t == "rep":
        return 1 + size(e[3]) * max(e[1] + 1, e[2] or 0, 1)
    return 1 + size(e[1])


# ----------------------------------------------------------------------------------------------
# generator
# ----------------------------------------------------------------------------------------------
THEMES = {
    # theme: (literal alphabet, extra leaf kinds, wrappers, classes)
    "plain": ("abc", [], ["nocapture"], ["any"]),
    "nl": ("abc\n", ["bol", "eol", "bol", "eol"], [], ["any", "nonl"]),
    "case": ("abcABC", [], ["nocase", "nocase", "case"], ["lower", "upper", "alpha", "any"]),
    "word": ("ab 1_-+", ["bow", "eow", "nwb"], ["w/ascii"],
             ["alpha", "num", "alnum", "space", "punct", "symbol", "graphic", "xdigit", "ascii", "any"]),
    "uni": ("ab" + E_ACUTE + E_ACUTE_UP + LAMBDA + LAMBDA_UP + NICHI + GRIN, [], ["nocase", "w/ascii", "w/unicode", "case"],
            ["alpha", "lower", "upper", "symbol", "ascii", "alnum", "graphic", "any"]),
    "mix": (UNIVERSE, ["bol", "eol", "bow", "eow", "nwb"], ["nocase", "case", "w/ascii", "w/unicode", "nocapture"],
            ["any", "nonl", "lower", "upper", "alpha", "num", "alnum", "space", "punct", "symbol", "graphic", "xdigit",
             "ascii"]),
}
THEME_WEIGHTS = [("plain", 36), ("nl", 16), ("case", 16), ("word", 12), ("uni", 10), ("mix", 10)]


class Gen:
    def __init__(self, rng, theme, zero_reps=True):
        self.r = rng
        self.theme = theme
        self.alpha, self.leaves, self.wrappers, self.classes = THEMES[theme]
        self.zero_reps = zero_reps
        self.nsub = 0

    def ch(self):
        r = self.r
        # keep most literals in a 2-3 letter core so that matches are frequent
        if r.random() < 0.6:
            return r.choice(self.alpha[:3] if self.theme != "uni" else self.alpha[:4])
        return r.choice(self.alpha)

    def cset(self, d=2, small=False):
        """A char-set node; small = no complement / named class (see gen_or)."""
        r = self.r
        c = r.random()
        if d <= 0 or c < 0.45:
            k = r.random()
            if k < 0.55:
                n = r.randrange(1, 4)
                return ("set", "".join(r.sample(self.alpha, min(n, len(self.alpha)))))
            if k < 0.75 and not small and self.classes:
                return ("cls", r.choice(self.classes))
            if k < 0.9:
                lo, hi = sorted(r.sample("abc", 2)) if r.random() < 0.7 or "A" not in self.alpha else sorted(r.sample("ABC", 2))
                return ("range", lo, hi)
            return ("lit", self.ch())
        if c < 0.65 and not small:
            return ("not", self.cset(d - 1))
        if c < 0.8:
            return ("and", self.cset(d - 1, small), self.cset(d - 1, small))
        if c < 0.95:
            return ("diff", self.cset(d - 1, small), self.cset(d - 1, small))
        return ("set", "".join(r.sample(self.alpha, min(2, len(self.alpha)))))

    def leaf(self, foldp):
        r = self.r
        c = r.random()
        if c < 0.45:
            return ("lit", self.ch())
        if c < 0.55:
            return ("str", "".join(self.ch() for _ in range(r.randrange(0, 4))))
        if c < 0.80:
            return self.cset()
        if c < 0.86:
            return (r.choice(["bos", "eos"]),)
        if self.leaves and c < 0.97:
            return (r.choice(self.leaves),)
        return ("lit", self.ch())

    def gen(self, d, foldp=False):
        r = self.r
        if d <= 0 or r.random() < 0.12:
            return self.leaf(foldp)
        ops = ["seq", "seq", "seq", "or", "or", "*", "+", "?", "rep", "rep", "sub", "sub", "ng"]
        if self.wrappers:
            ops += ["wrap", "wrap"] if self.theme in ("case", "uni") else ["wrap"]
        c = r.choice(ops)
        if c == "seq":
            return ("seq", tuple(self.gen(d - 1, foldp) for _ in range(r.choice([2, 2, 2, 3, 3, 1, 0]) if d < 5 else 2)))
        if c == "or":
            return self.gen_or(d, foldp)
        if c == "*":
            return ("*", self.gen(d - 1, foldp), True)
        if c == "+":
            return ("+", self.gen(d - 1, foldp))
        if c == "?":
            return ("?", self.gen(d - 1, foldp), True)
        if c == "ng":
            k = r.random()
            if k < 0.4:
                return ("*", self.gen(d - 1, foldp), False)
            if k < 0.7:
                return ("?", self.gen(d - 1, foldp), False)
            lo = r.randrange(0, 3)
            return ("rep", lo, lo + r.randrange(0, 3) or 1, self.gen(d - 1, foldp), False)
        if c == "rep":
            lo = r.randrange(0, 4)
            hi = r.choice([None, lo, lo, lo + 1, lo + 2])
            if hi == 0 and not self.zero_reps:
                hi = 1
            return ("rep", lo, hi, self.gen(d - 1, foldp), True)
        if c == "sub":
            self.nsub += 1
            name = None
            if r.random() < 0.15:
                name = "n%d" % self.nsub
            return ("sub", self.gen(d - 1, foldp), name)
        w = r.choice(self.wrappers)
        f2 = True if w == "nocase" else False if w == "case" else foldp
        return (w, self.gen(d - 1, f2))

    def gen_or(self, d, foldp):
        """Generator rule (DESIGN C20 notes): an `or` -- or the TAIL of an `or`, chibi compiles (or a b c) as a fork
        of a and (or b c) -- whose members are all char-set SREs is compiled as ONE char-set and, under
        w/nocase, that whole set is case-folded character by character in Scheme.  With a complement or a
        named class among the members the set is (almost) all of Unicode and compiling takes 90-150 s (slow,
        not the subject of this property): such shapes get a LAST member that is not a char-set.  Small
        compound members stay (they compile at once).
        Second rule, found by this check: the union of such a tail is computed with (chibi iset) iset-union,
        which loses elements when its first argument is a complement-sized set (a defect of that library, see
        finding C20-char-set-union-loses-member and the TAGGED cases below).  A tail of two or more char-sets
        with a complement / named class therefore also gets a last non-char-set member in the bulk generator;
        the defect itself stays visible through the hand-written TAGGED cases."""
        r = self.r
        k = r.randrange(2, 4) if r.random() < 0.85 else 1
        alts = [self.gen(d - 1, foldp) for _ in range(k)]
        k = cset_suffix_start(alts)
        if k is not None and any(cs_is_big(x) for x in alts[k:]) and (foldp or len(alts) - k >= 2):
            alts.append(("str", self.ch() + self.ch()))      # must come last: every all-char-set SUFFIX is one char-set
        return ("or", tuple(alts))


def nocase_inside(e, foldp=False):
    """Fix up `or` nodes that ended below a w/nocase introduced higher up (gen passes foldp down, this is a
    second line of defence used on the finished tree)."""
    t = e[0]
    if t in CS_KINDS or t in ANCHORS or t == "str":
        return e
    if t == "or":
        alts = [nocase_inside(x, foldp) for x in e[1]]
        k = cset_suffix_start(alts)
        if k is not None and any(cs_is_big(x) for x in alts[k:]) and (foldp or len(alts) - k >= 2):
            alts.append(("str", "ab"))
        return ("or", tuple(alts))
    if t == "seq":
        return ("seq", tuple(nocase_inside(x, foldp) for x in e[1]))
    if t == "rep":
        return ("rep", e[1], e[2], nocase_inside(e[3], foldp), e[4])
    f2 = True if t == "nocase" else False if t == "case" else foldp
    return (t, nocase_inside(e[1], f2)) + tuple(e[2:])


def gen_sre(rng, zero_reps=True):
    x = rng.random() * 100
    theme = "plain"
    for name, w in THEME_WEIGHTS:
        if x < w:
            theme = name
            break
        x -= w
    for _ in range(50):
        g = Gen(rng, theme, zero_reps)
        d = rng.choice([1, 2, 2, 3, 3, 3, 4, 4, 4, 5, 5])
        e = nocase_inside(g.gen(d))
        if size(e) <= 48:
            return theme, e
    return theme, ("lit", "a")


# hand-written shapes from the DESIGN workload list (empty matches, nested repeats, prefixes, anchors in repeats)
FIXED = [
    ("plain", ("*", ("?", ("lit", "a"), True), True)),
    ("plain", ("*", ("*", ("lit", "a"), True), True)),
    ("plain", ("+", ("*", ("sub", ("lit", "a"), None), True))),
    ("plain", ("*", ("sub", ("or", (("sub", ("lit", "a"), None), ("lit", "b"))), None), True)),
    ("plain", ("or", (("lit", "a"), ("str", "ab"), ("str", "abc")))),
    ("plain", ("seq", (("sub", ("or", (("str", "ab"), ("lit", "a"))), None), ("sub", ("or", (("str", "bc"), ("lit", "c"), ("str", ""))), None)))),
    ("plain", ("seq", (("sub", ("*", ("lit", "a"), True), None), ("sub", ("*", ("lit", "a"), False), None), ("sub", ("*", ("lit", "a"), True), None)))),
    ("plain", ("rep", 2, 3, ("sub", ("or", (("lit", "a"), ("str", "ab"))), None), True)),
    ("plain", ("rep", 0, 0, ("lit", "a"), True)),
    ("plain", ("seq", (("lit", "a"), ("rep", 0, 0, ("sub", ("lit", "b"), None), True), ("lit", "c")))),
    ("nl", ("*", ("seq", (("bol",), ("*", ("set", "ab"), True), ("eol",), ("?", ("lit", "\n"), True))), True)),
    ("nl", ("+", ("or", (("bol",), ("lit", "a"), ("eol",))))),
    ("nl", ("seq", (("bos",), ("*", ("cls", "nonl"), True), ("eol",)))),
    ("nl", ("*", ("or", (("seq", (("eol",), ("lit", "\n"))), ("lit", "a"))), True)),
    ("case", ("nocase", ("seq", (("str", "aB"), ("case", ("lit", "c")), ("not", ("set", "a")))))),
    ("case", ("nocase", ("or", (("diff", ("set", "aB"), ("set", "b")), ("lit", "c"))))),
    ("case", ("nocase", ("or", (("and", ("set", "abC"), ("set", "Bc")), ("set", "a"))))),
    ("word", ("seq", (("bow",), ("+", ("cls", "alnum")), ("eow",)))),
    ("word", ("*", ("or", (("nwb",), ("cls", "any"))), True)),
    ("uni", ("nocase", ("seq", (("lit", E_ACUTE_UP), ("*", ("set", LAMBDA + NICHI), True), ("?", ("lit", GRIN), True))))),
    ("uni", ("w/ascii", ("+", ("or", (("cls", "alpha"), ("lit", NICHI)))))),
]

# hand-written cases for a defect whose root cause lies outside regexp.scm; the tag names the cause in the signature
TAGGED = [
    ("plain", ("or", (("not", ("set", "b")), ("set", "ab"))), "char-set-union-loses-member"),
    ("word", ("or", (("not", ("set", "ba")), ("or", (("lit", "a"), ("lit", " "))))), "char-set-union-loses-member"),
]

# shapes that compile slowly on the unchanged tree (w/nocase around an all-char-set `or` with a complement /
# named class): a handful, separately timed, watchdog expiry = inconclusive
SLOW = [
    ("case", ("nocase", ("or", (("not", ("set", "a")), ("lit", "b"))))),
    ("case", ("nocase", ("or", (("str", "ab"), ("cls", "any"))))),
]


# ----------------------------------------------------------------------------------------------
# subjects
# ----------------------------------------------------------------------------------------------
def all_strings(alpha, maxlen):
    out = [""]
    layer = [""]
    for _ in range(maxlen):
        layer = [p + c for p in layer for c in alpha]
        out += layer
    return out


POOL_ALPHA = {"plain": ("abc", ""), "nl": ("ab\n", "c"), "case": ("abA", "cBC"), "word": ("a 1", "b_-+"),
              "uni": ("a" + E_ACUTE + LAMBDA, "b" + E_ACUTE_UP + LAMBDA_UP + NICHI + GRIN), "mix": ("ab\n", UNIVERSE)}
NPOOLS = 4
NPRED = 40          # regexp-matches? (the predicate) is called on the first NPRED subjects (the exhaustive part)


def make_pool(rng, theme):
    core, extra = POOL_ALPHA[theme]
    subj = all_strings(core, 3)                       # 40 strings: exhaustive to length 3 over the 3-letter core
    seen = set(subj)
    alpha = core + extra
    want = len(subj) + 80
    while len(subj) < want:
        k = len(subj) - 40
        ln = rng.randrange(4, 7) if k < 55 else rng.randrange(7, 13)
        a = core if rng.random() < 0.5 else alpha
        if rng.random() < 0.3:
            # repetitive subjects exercise repeats better than uniform ones
            unit = "".join(rng.choice(a) for _ in range(rng.randrange(1, 4)))
            s = (unit * 12)[:ln]
        else:
            s = "".join(rng.choice(a) for _ in range(ln))
        if s not in seen:
            seen.add(s)
            subj.append(s)
    return subj


def scm_string(s):
    return scm_str(s)


# ----------------------------------------------------------------------------------------------
# judging (runs in worker processes)
# ----------------------------------------------------------------------------------------------
def bits(m):
    return [j for j in range(m.bit_length()) if (m >> j) & 1]


def judge_pair(e, s, obs, stats):
    """obs = (pred, matches, search) with matches/search = None | [(a,b)...] ; returns list of (mode, detail)."""
    o = Oracle(s)
    top = o.ev(e)
    n = len(s)
    bad = []
    exp_m = bool((top[0] >> n) & 1)
    exp_s = any(top)
    pred, mt, sr = obs
    if pred != 2 and bool(pred) != exp_m:
        bad.append(("matches?-" + ("false-positive" if pred else "false-negative"), None))
    if (mt is not None) != exp_m:
        bad.append(("matches-" + ("false-positive" if mt is not None else "false-negative"), None))
    if (sr is not None) != exp_s:
        bad.append(("search-" + ("false-positive" if sr is not None else "false-negative"), None))
    for which, m in (("matches", mt), ("search", sr)):
        if m is None:
            continue
        a, b = m[0]
        if which == "matches" and exp_m and (a, b) != (0, n):
            bad.append(("matches-span-not-whole", [a, b]))
            continue
        if not (0 <= a <= b <= n) or not (top[a] >> b) & 1:
            if (which == "search" and exp_s) or (which == "matches" and exp_m):
                bad.append((which + "-span-not-a-match", [a, b]))
            continue
        if len(m) - 1 != len(o.groups):
            bad.append((which + "-submatch-count", [len(m) - 1, len(o.groups)]))
            continue
        for k in range(1, len(m)):
            ak, bk = m[k]
            if ak == -1 and bk == -1:
                stats["sub_unset"] = stats.get("sub_unset", 0) + 1
                continue
            stats["sub_checked"] = stats.get("sub_checked", 0) + 1
            if not (0 <= ak <= bk <= n) or not (o.groups[k - 1][ak] >> bk) & 1:
                body, inrep = o.group_nodes[k - 1]
                stale = inrep and chibi_non_greedy_sre(body) and 0 <= ak <= n and ak == bk
                bad.append((which + "-submatch-not-a-match", [k, ak, bk] + (["stale-non-greedy-end"] if stale else [])))
            elif ak < a or bk > b:
                bad.append((which + "-submatch-outside-match", [k, ak, bk, a, b]))
    if exp_m:
        stats["pos_matches"] = stats.get("pos_matches", 0) + 1
    if exp_s:
        stats["pos_search"] = stats.get("pos_search", 0) + 1
    return bad, (exp_m, exp_s)


def explained_by_or_fold(e, s, obs):
    """Does the observation agree with the model in which an all-char-set `or` under w/nocase is folded
    after the union (what regexp.scm does)?  Only used to name the root cause in the signature."""
    o = Oracle(s, alt_or_fold=True)
    top = o.ev(e)
    n = len(s)
    pred, mt, sr = obs
    if (mt is not None) != bool((top[0] >> n) & 1) or (sr is not None) != any(top):
        return False
    if pred != 2 and bool(pred) != bool((top[0] >> n) & 1):
        return False
    for m in (mt, sr):
        if m is not None:
            a, b = m[0]
            if not (0 <= a <= b <= n and (top[a] >> b) & 1):
                return False
    return True


def has_flagged_cset_or(e, foldp=False, asciip=False):
    """Is there an `or` that chibi compiles as one char-set while w/nocase or w/ascii is in effect?"""
    t = e[0]
    if t in CS_KINDS or t in ANCHORS or t == "str":
        return False
    if t == "or":
        if (foldp or asciip) and cset_suffix_start(e[1]) is not None:
            return True
        return any(has_flagged_cset_or(x, foldp, asciip) for x in e[1])
    if t == "seq":
        return any(has_flagged_cset_or(x, foldp, asciip) for x in e[1])
    if t == "rep":
        return has_flagged_cset_or(e[3], foldp, asciip)
    f2, a2 = ctx_of(t, foldp, asciip)
    return has_flagged_cset_or(e[1], f2, a2)


def chibi_non_greedy_sre(e):
    """Mirror of non-greedy-sre? in regexp.scm (used only to name the cause of a mismatch): the whole
    regexp is flagged non-greedy when its last element is, or any member of a top-level `or` is."""
    t = e[0]
    if t in ("*", "?"):
        return not e[2]
    if t == "rep":
        return not e[4]
    if t == "seq":
        return bool(e[1]) and chibi_non_greedy_sre(e[1][-1])
    if t in ("nocase", "case", "w/ascii", "w/unicode"):
        return chibi_non_greedy_sre(e[1][1][-1] if e[1][0] == "seq" and e[1][1] else e[1])
    if t == "or":
        return any(chibi_non_greedy_sre(x) for x in e[1])
    return False


def parse_spans(toks, pos):
    """-> (spans or None, newpos)"""
    if toks[pos] == "0":
        return None, pos + 1
    n = int(toks[pos + 1])
    vals = [int(x) for x in toks[pos + 2: pos + 2 + 2 * (n + 1)]]
    if len(vals) != 2 * (n + 1):
        raise ValueError("short span list")
    return [(vals[2 * i], vals[2 * i + 1]) for i in range(n + 1)], pos + 2 + 2 * (n + 1)


def judge_sre(item, res):
    """item = dict(id, theme, e, sre, pool, subjects); res = CaseResult or None.
    -> dict(pairs, violations [(sig, witness)], inconc [(reason, detail)], stats)"""
    e, sre, subjects = item["e"], item["sre"], item["subjects"]
    out = {"pairs": 0, "violations": [], "inconc": [], "stats": {}}
    feats = "+".join(sorted(features(e)))
    base_wit = {"sre": sre, "theme": item["theme"], "form": "(regexp '%s)" % sre}
    if res is None or res.status == "missing":
        out["inconc"].append(("no-output", sre[:200]))
        return out
    if res.status == "timeout":
        out["inconc"].append(("timeout", sre[:300]))
        return out
    if res.status == "crash":
        w = dict(base_wit, detail=res.detail)
        out["violations"].append(({"kind": "crash", "features": feats}, w))
        return out
    lines = [l for l in res.text.split("\n") if l.strip()]
    if not lines:
        out["inconc"].append(("no-output", sre[:200]))
        return out
    if lines[0].startswith("(err"):
        msg = lines[0][5:].strip().rstrip(")").strip().strip('"')
        # the compile error of a zero repeat is "unknown sre"; any other message has another cause
        shape = "zero-repeat" if msg == "unknown sre" and "zero-repeat" in features(e) else "other"
        out["pairs"] = 1
        out["violations"].append(({"kind": "error", "msg": msg, "shape": shape},
                                  dict(base_wit, observed=lines[0], expected="a regexp object (valid SRFI 115 SRE)")))
        return out
    if lines[0] != "ok" or len(lines) - 1 != len(subjects):
        out["violations"].append(({"kind": "unparsable-output", "features": feats}, dict(base_wit, got=res.text[:400])))
        return out
    seen_modes = set()
    for s, line in zip(subjects, lines[1:]):
        out["pairs"] += 1
        toks = line.split()
        if toks and toks[0] == "E" or " E " in line:
            out["violations"].append(({"kind": "error-at-match", "msg": line.split("E", 1)[1].strip().strip('"'), "features": feats},
                                      dict(base_wit, subject=s, observed=line)))
            continue
        try:
            pred = int(toks[0])
            mt, p = parse_spans(toks, 1)
            sr, p = parse_spans(toks, p)
            if p != len(toks):
                raise ValueError("trailing tokens")
        except (ValueError, IndexError):
            out["violations"].append(({"kind": "unparsable-output", "features": feats}, dict(base_wit, subject=s, got=line[:300])))
            continue
        bad, exp = judge_pair(e, s, (pred, mt, sr), out["stats"])
        if not bad:
            continue
        cause = item.get("tag") or "unexplained"
        if has_flagged_cset_or(e) and explained_by_or_fold(e, s, (pred, mt, sr)):
            cause = "or-cset-ignores-flags"
        elif all(m.endswith("submatch-not-a-match") and d[-1] == "stale-non-greedy-end" for m, d in bad):
            cause = "non-greedy-submatch-in-repeat-keeps-old-end"
        elif (chibi_non_greedy_sre(e) and exp[0] and mt is None and pred in (0, 2) and (sr is not None)
              and all(m.startswith("matches") and m.endswith("false-negative") for m, _ in bad)):
            cause = "non-greedy-tail-whole-match"
        for mode, detail in bad:
            key = (mode, cause)
            if key in seen_modes and len(out["violations"]) > 3:
                continue
            seen_modes.add(key)
            sig = {"kind": "mismatch", "mode": mode, "cause": cause}
            if cause == "unexplained":
                sig["features"] = feats
            out["violations"].append((sig, dict(base_wit, subject=s, subject_scheme=scm_str(s), observed=line.strip(), detail=detail,
                                                expected={"matches": exp[0], "search_finds": exp[1]},
                                                replay_form="(let ((rx (regexp '%s))) (list (regexp-matches? rx %s) (regexp-match->list (regexp-matches rx %s)) (let ((m (regexp-search rx %s))) (and m (list (regexp-match-submatch-start m 0) (regexp-match-submatch-end m 0) (regexp-match->list m))))))"
                                                % (sre, scm_str(s), scm_str(s), scm_str(s)))))
    return out


_W = {}


def _work(batch):
    """One chibi process for a batch of SREs, then the oracle for every (SRE, subject) pair."""
    b, header, timeout = _W["build"], _W["header"], _W["timeout"]
    cases = [(it["id"], "(%%case* %s (%%run-sre '%s %s %d))" % (it["id"], it["sre"], it["pool"], it["npred"])) for it in batch]
    res, procs = C.run_file(b, IMPORTS, header, cases, env_extra={"CHIBI_VERIF_HEAPCHECK": 1}, timeout=timeout,
                            heap="64M/768M", prelude=PRELUDE)
    outs = []
    for it in batch:
        o = judge_sre(it, res.get(it["id"]))
        o["id"] = it["id"]
        outs.append(o)
    hp = []
    for p in procs:
        hp.append(([l for l in p.log_lines("HEAPCHECK-FAIL")], p.log_kv("HEAPCHECK-SUMMARY"), p.wall))
    ghost = res.get("__ghost__")
    return outs, hp, (ghost.text if ghost is not None else None)


def run_items(build, header, items, batch, timeout, jobs):
    _W.update(build=build, header=header, timeout=timeout)
    batches = [items[i:i + batch] for i in range(0, len(items), batch)]
    if jobs <= 1 or len(batches) <= 1:
        return [_work(b) for b in batches]
    ctx = multiprocessing.get_context("fork")
    with ctx.Pool(min(jobs, len(batches))) as pool:
        return pool.map(_work, batches, chunksize=1)


# ----------------------------------------------------------------------------------------------
def check(rep, tier, seed, variant="hooks", n_sre=None, n_ex=None):
    rng = random.Random(seed * 7919 + 20)
    b = B.ensure(variant)
    rep.builds.add(variant)
    quick = tier == "quick"
    n_sre = n_sre if n_sre is not None else (1100 if quick else 20000)
    n_ex = n_ex if n_ex is not None else (16 if quick else 500)

    # subject pools (Scheme side: one list per pool, defined once per process)
    pools = {}
    header = [HEADER]
    for theme in THEMES:
        for k in range(NPOOLS):
            name = "P-%s-%d" % (theme, k)
            pools[name] = make_pool(random.Random(seed * 104729 + k * 31 + sorted(THEMES).index(theme)), theme)
            header.append("(define %s (list %s))" % (name, " ".join(scm_str(s) for s in pools[name])))
    pools["P-ex6"] = all_strings("abc", 6)
    header.append("(define P-ex6 (list %s))" % " ".join(scm_str(s) for s in pools["P-ex6"]))
    header = "\n".join(header)

    items = []

    def add(theme, e, pool, npred):
        prng = random.Random(rng.getrandbits(32))
        items.append({"id": "r%d" % len(items), "theme": theme, "e": e, "sre": to_sre(e, prng), "pool": pool,
                      "subjects": pools[pool], "npred": npred})

    for theme, e in FIXED:
        add(theme, e, "P-%s-0" % theme, NPRED)
    for theme, e, tag in TAGGED:
        add(theme, e, "P-%s-0" % theme, NPRED)
        items[-1]["tag"] = tag
    for _ in range(n_sre):
        theme, e = gen_sre(rng)
        add(theme, e, "P-%s-%d" % (theme, rng.randrange(NPOOLS)), NPRED)
    ex_start = len(items)
    for _ in range(n_ex):
        # exhaustive subjects to length 6 over {a,b,c}: plain-theme SREs without the (known) zero repeats
        prng = random.Random(rng.getrandbits(32))
        for _ in range(50):
            g = Gen(prng, "plain", zero_reps=False)
            e = g.gen(prng.choice([2, 3, 3, 4, 4, 5]))
            if size(e) <= 30:
                break
        add("plain", e, "P-ex6", 0)

    jobs = R.JOBS
    bulk = run_items(b, header, items[:ex_start], 25, 120 if quick else 300, jobs)
    exh = run_items(b, header, items[ex_start:], 3, 120 if quick else 300, jobs) if n_ex else []
    slow_out = []
    if not quick:
        slow_items = []
        for theme, e in SLOW:
            prng = random.Random(rng.getrandbits(32))
            slow_items.append({"id": "s%d" % len(slow_items), "theme": theme, "e": e, "sre": to_sre(e, prng), "pool": "P-case-0",
                               "subjects": pools["P-case-0"], "npred": NPRED})
        slow_out = run_items(b, header, slow_items, 1, 240, jobs)
        items_all = items + slow_items
    else:
        items_all = items
    by_id = {it["id"]: it for it in items_all}

    walls = []
    allv = []
    for outs, hp, ghost in bulk + exh + slow_out:
        if ghost:
            rep.violation({"kind": "ghost-output"}, {"trailing": ghost})
        for fails, summ, wall in hp:
            walls.append(wall)
            for l in fails:
                rep.violation({"op": "heapcheck", "mode": l.split()[1] if len(l.split()) > 1 else "?"}, {"line": l})
            for d in summ:
                rep.count("heap_checks", d.get("runs", 0))
                rep.count("heap_objects_checked", d.get("objects", 0))
        for o in outs:
            it = by_id[o["id"]]
            if o["pairs"]:
                rep.case((it["theme"], skeleton(it["e"], 3)), n=o["pairs"])
                rep.count("sres_observed", 1)
            for sig, wit in o["violations"]:
                allv.append((sig, wit))
            for reason, detail in o["inconc"]:
                rep.inconc(reason, detail)
            for k, v in o["stats"].items():
                rep.count(k, v)
    # a real matcher defect shows up under hundreds of operator combinations: record every explained / error
    # signature, but of the unexplained mismatches only the 20 signatures with the smallest witness SRE
    groups = {}
    for sig, wit in allv:
        if sig.get("cause") == "unexplained":
            groups.setdefault(json.dumps(sig, sort_keys=True), []).append((sig, wit))
        else:
            rep.violation(sig, wit)
    ranked = sorted(groups.values(), key=lambda g: min(len(w.get("sre", "")) for _, w in g))
    for g in ranked[:20]:
        for sig, wit in sorted(g, key=lambda x: len(x[1].get("sre", "")))[:5]:
            rep.violation(sig, wit)
    if len(ranked) > 20:
        rep.extra["unexplained_signatures_not_recorded"] = len(ranked) - 20
    for it in items[:4] + items[ex_start:ex_start + 1]:
        rep.sample({"sre": it["sre"], "theme": it["theme"], "subjects": len(it["subjects"]),
                    "first_subjects": it["subjects"][41:45]})
    rep.extra["sres_generated"] = len(items_all)
    rep.extra["sres_exhaustive_len6"] = n_ex
    rep.extra["processes"] = len(walls)
    rep.extra["max_process_wall_s"] = round(max(walls), 1) if walls else 0
    rep.extra["themes"] = {t: sum(1 for it in items_all if it["theme"] == t) for t in THEMES}
    rep.rule = ("seeded generator of SREs to depth 5 (themes: plain {a,b,c}; line anchors with newline subjects; case folding "
                "with upper-case subjects; word boundaries and named classes; Unicode literals; a mix) over literals, strings, "
                "char sets / ranges / complements / intersections / differences / named classes, seq, or, * + ? and their "
                "non-greedy forms, = >= ** bounded repeats, (named) submatches, w/nocase w/case w/ascii w/unicode w/nocapture, "
                "bos eos bol eol bow eow nwb, printed with random SRFI 115 aliases; every SRE is run on a pool of 120 subjects "
                "(all 40 strings to length 3 over the theme's 3-letter core + 80 sampled of length 4-12), some plain SREs on all "
                "1093 strings to length 6; an evaluation is one (SRE, subject) pair on which regexp-matches, regexp-search "
                "(and regexp-matches? on the 40 short subjects) are compared with the position-set oracle and all reported "
                "spans are validated; distinct = (theme, operator nesting of the SRE to depth 3)")
    rep.assumptions = ["the position-set matcher in this module implements the SRFI 115 semantics of the generated subset "
                       "(case folding applied at the terminals of compound char-sets, anchors relative to the whole subject)",
                       "Unicode classes are only asserted for the 18 characters the generator uses",
                       "which of several valid matches/submatch assignments is reported is not checked (leftmost-longest is not part of the statement)",
                       "shapes known to compile for ~90 s (w/nocase around an all-char-set `or` with a complement or class) are run only in the thorough tier, watchdog expiry there is inconclusive"]


def replay(path):
    """Re-run the witnesses of a replay file and print model vs chibi."""
    with open(path) as fh:
        data = json.load(fh)
    b = B.ensure("hooks")
    for w in data.get("witnesses", []):
        form = w.get("replay_form") or w.get("form")
        res, _ = C.run_file(b, IMPORTS, HEADER, [("w", "(%%case w %s)" % form)])
        print("signature:", json.dumps(data.get("signature")))
        print("  form:    ", form)
        print("  expected:", w.get("expected"), "detail:", w.get("detail"))
        print("  observed:", res["w"].text.strip() if "w" in res else None)
    return 0
