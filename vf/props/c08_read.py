"""Independent reader for R7RS external representations (used by C08 to decide what a written text *denotes*).

Data model (also produced by parse_dump() from the Scheme-side `dump`, so the two can be compared with ==):
  ("i", n)  exact integer          ("q", num, den) exact ratio (normalised, den > 1)
  ("f", bits) flonum by its 64 bits (every NaN is ("f", "nan"))
  ("z", re, im) complex with real components     ("c", cp) char      ("s", (cp, ...)) string
  ("y", (cp, ...)) symbol          ("b", bool)   ("e",) empty list   ("eof",)
  Node objects for pairs / vectors (mutable, identity matters for shared structure): Node.kind in "p", "v"
  ("u", (byte, ...)) bytevector
"""
import math
import re
import struct
from fractions import Fraction


class ReadError(Exception):
    pass


class Node:
    __slots__ = ("kind", "kids")

    def __init__(self, kind, kids=None):
        self.kind = kind
        self.kids = kids if kids is not None else []


def fbits(x):
    if x != x:
        return "nan"
    return struct.unpack("<Q", struct.pack("<d", x))[0]


def bits_to_float(b):
    return struct.unpack("<d", struct.pack("<Q", b))[0]


DELIMS = set(" \t\n\r()\";|")          # `|` delimits in chibi; R7RS lists it for identifiers
NAMED = {"alarm": 7, "backspace": 8, "delete": 127, "escape": 27, "newline": 10, "null": 0, "return": 13, "space": 32,
         "tab": 9}

_UREAL = r"(?:\d+/\d+|(?:\d+\.?\d*|\.\d+)(?:e[+-]?\d+)?)"
_INFNAN = r"(?:[+-](?:inf|nan)\.0)"
_REAL = r"(?:[+-]?%s|%s)" % (_UREAL, _INFNAN)
_RE_REAL = re.compile(r"^%s$" % _REAL, re.I)
_RE_RECT = re.compile(r"^(%s)?(?:([+-]%s?)|(%s))i$" % (_REAL, _UREAL, _INFNAN), re.I)
_RE_POLAR = re.compile(r"^(%s)@(%s)$" % (_REAL, _REAL), re.I)


def parse_real(tok):
    """-> ("i"|"q"|"f", ...) or None.  Decimal radix, no prefixes (writers never emit them)."""
    if not _RE_REAL.match(tok):
        return None
    t = tok.lower()
    if t.endswith("inf.0"):
        return ("f", fbits(float("-inf") if t[0] == "-" else float("inf")))
    if t.endswith("nan.0"):
        return ("f", "nan")
    if "/" in t:
        a, b = t.split("/")
        if int(b) == 0:
            return None
        return mkexact(Fraction(int(a), int(b)))
    if "." in t or "e" in t:
        return ("f", fbits(float(t)))            # Python's float() is correctly rounded
    return ("i", int(t))


def mkexact(fr):
    fr = Fraction(fr)
    return ("i", fr.numerator) if fr.denominator == 1 else ("q", fr.numerator, fr.denominator)


def parse_number(tok):
    r = parse_real(tok)
    if r is not None:
        return r
    m = _RE_RECT.match(tok)
    if m:
        re_, im1, im2 = m.group(1), m.group(2), m.group(3)
        rp = parse_real(re_) if re_ else ("i", 0)
        if im2:
            ip = parse_real(im2)
        else:
            ip = parse_real(im1 + "1") if im1 in ("+", "-") else parse_real(im1)
        if rp is None or ip is None:
            return None
        if ip == ("i", 0):
            return rp
        return ("z", rp, ip)
    if _RE_POLAR.match(tok):
        return ("polar", tok)                     # never written by the writers; not evaluated here
    return None


def parse_prefixed(tl):
    """#x.. #b.. #o.. #d.. #e.. #i.. (exact integers / ratios in the given radix; #e/#i on decimal reals)"""
    radix, exact = 10, None
    t = tl
    while len(t) >= 2 and t[0] == "#":
        c = t[1]
        if c in "xbod":
            radix = {"x": 16, "b": 2, "o": 8, "d": 10}[c]
        elif c in "ei":
            exact = c
        else:
            return None
        t = t[2:]
    if radix == 10:
        r = parse_real(t)
        if r is None:
            return None
    else:
        m = re.fullmatch(r"([+-]?)([0-9a-f]+)(?:/([0-9a-f]+))?", t)
        if not m:
            return None
        try:
            num = int(m.group(2), radix)
            den = int(m.group(3), radix) if m.group(3) else 1
        except ValueError:
            return None
        if den == 0:
            return None
        r = mkexact(Fraction(-num if m.group(1) == "-" else num, den))
    if exact == "i" and r[0] in "iq":
        v = Fraction(r[1], r[2] if r[0] == "q" else 1)
        return ("f", fbits(float(v)))
    if exact == "e" and r[0] == "f":
        if r[1] == "nan" or bits_to_float(r[1]) in (float("inf"), float("-inf")):
            return None
        return mkexact(Fraction(bits_to_float(r[1])))
    return r


class Reader:
    def __init__(self, text):
        self.s = text
        self.i = 0
        self.labels = {}

    def peek(self):
        return self.s[self.i] if self.i < len(self.s) else ""

    def skip(self):
        s = self.s
        while self.i < len(s):
            c = s[self.i]
            if c in " \t\n\r":
                self.i += 1
            elif c == ";":
                while self.i < len(s) and s[self.i] != "\n":
                    self.i += 1
            elif s.startswith("#|", self.i):
                depth = 1
                self.i += 2
                while depth and self.i < len(s):
                    if s.startswith("|#", self.i):
                        depth -= 1
                        self.i += 2
                    elif s.startswith("#|", self.i):
                        depth += 1
                        self.i += 2
                    else:
                        self.i += 1
                if depth:
                    raise ReadError("unterminated block comment")
            elif s.startswith("#;", self.i):
                self.i += 2
                self.read()
            else:
                return

    def token(self):
        j = self.i
        s = self.s
        while j < len(s) and s[j] not in DELIMS:
            j += 1
        t = s[self.i:j]
        self.i = j
        return t

    def read(self):
        self.skip()
        s = self.s
        if self.i >= len(s):
            return ("eof",)
        c = s[self.i]
        if c == "(" or c == "[":
            self.i += 1
            return self.read_list(")" if c == "(" else "]")
        if c == ")" or c == "]":
            raise ReadError("unexpected close")
        if c == '"':
            self.i += 1
            return ("s", tuple(self.read_delimited('"')))
        if c == "|":
            self.i += 1
            return ("y", tuple(self.read_delimited("|")))
        if c == "'":
            self.i += 1
            return self.abbrev("quote")
        if c == "`":
            self.i += 1
            return self.abbrev("quasiquote")
        if c == ",":
            self.i += 1
            if self.peek() == "@":
                self.i += 1
                return self.abbrev("unquote-splicing")
            return self.abbrev("unquote")
        if c == "#":
            return self.read_hash()
        tok = self.token()
        if not tok:
            raise ReadError("empty token at %d" % self.i)
        # a symbol token may continue with |...| parts (R7RS does not allow that; chibi does not write it)
        n = parse_number(tok)
        if n is not None:
            if n[0] == "polar":
                raise ReadError("polar literal")
            return n
        if tok == ".":
            raise ReadError("bare dot")
        return ("y", tuple(map(ord, tok)))

    def abbrev(self, name):
        x = self.read()
        if x == ("eof",):
            raise ReadError("eof after abbreviation")
        return Node("p", [("y", tuple(map(ord, name))), Node("p", [x, ("e",)])])

    def read_list(self, close):
        items = []
        tail = ("e",)
        while True:
            self.skip()
            if self.i >= len(self.s):
                raise ReadError("unterminated list")
            c = self.s[self.i]
            if c == close:
                self.i += 1
                break
            if c in ")]":
                raise ReadError("mismatched close")
            if c == "." and (self.i + 1 >= len(self.s) or self.s[self.i + 1] in DELIMS):
                if not items:
                    raise ReadError("dot at start")
                self.i += 1
                tail = self.read()
                if tail == ("eof",):
                    raise ReadError("eof after dot")
                self.skip()
                if self.peek() != close:
                    raise ReadError("junk after dotted tail")
                self.i += 1
                break
            x = self.read()
            if x == ("eof",):
                raise ReadError("unterminated list")
            items.append(x)
        res = tail
        for x in reversed(items):
            res = Node("p", [x, res])
        return res

    def read_delimited(self, term):
        out = []
        s = self.s
        while True:
            if self.i >= len(s):
                raise ReadError("unterminated " + term)
            c = s[self.i]
            self.i += 1
            if c == term:
                return out
            if c != "\\":
                out.append(ord(c))
                continue
            if self.i >= len(s):
                raise ReadError("unterminated escape")
            e = s[self.i]
            self.i += 1
            if e in "abtnr":
                out.append({"a": 7, "b": 8, "t": 9, "n": 10, "r": 13}[e])
            elif e in "xX":
                j = s.find(";", self.i)
                if j < 0 or not re.fullmatch(r"[0-9a-fA-F]+", s[self.i:j]):
                    raise ReadError("bad \\x escape")
                v = int(s[self.i:j], 16)
                if v > 0x10FFFF or 0xD800 <= v <= 0xDFFF:
                    raise ReadError("escape is not a scalar value")
                out.append(v)
                self.i = j + 1
            elif e in " \t\n":
                # line continuation: \ <intraline ws>* newline <intraline ws>*
                j = self.i - 1
                while j < len(s) and s[j] in " \t":
                    j += 1
                if j < len(s) and s[j] == "\n":
                    j += 1
                    while j < len(s) and s[j] in " \t":
                        j += 1
                    self.i = j
                else:
                    raise ReadError("bad line continuation")
            else:
                out.append(ord(e))                # \" \\ \| and (leniently) any other char stands for itself

    def read_hash(self):
        s = self.s
        i = self.i
        if s.startswith("#(", i):
            self.i += 1
            lst = self.read()
            return Node("v", list_items(lst))
        m = re.match(r"#u8\(", s[i:], re.I)
        if m:
            self.i += 3
            lst = self.read()
            items = list_items(lst)
            bs = []
            for x in items:
                if not (isinstance(x, tuple) and x[0] == "i" and 0 <= x[1] <= 255):
                    raise ReadError("bad bytevector element")
                bs.append(x[1])
            return ("u", tuple(bs))
        if s.startswith("#\\", i):
            self.i += 2
            if self.i >= len(s):
                raise ReadError("eof in char")
            first = s[self.i]
            self.i += 1
            rest = self.token() if self.peek() and self.peek() not in DELIMS else ""
            name = first + rest
            if len(name) == 1:
                return ("c", ord(name))
            if name.lower() in NAMED:
                return ("c", NAMED[name.lower()])
            if name[0] in "xX" and re.fullmatch(r"[0-9a-fA-F]+", name[1:]):
                v = int(name[1:], 16)
                if v > 0x10FFFF or 0xD800 <= v <= 0xDFFF:
                    raise ReadError("char is not a scalar value")
                return ("c", v)
            raise ReadError("unknown char name " + name)
        m = re.match(r"#(\d+)([=#])", s[i:])
        if m:
            n = int(m.group(1))
            self.i += m.end()
            if m.group(2) == "#":
                if n not in self.labels:
                    raise ReadError("unknown label")
                return self.labels[n]
            if n in self.labels:
                raise ReadError("duplicate label")
            ph = Node("placeholder")
            self.labels[n] = ph
            x = self.read()
            if x is ph:
                raise ReadError("#n=#n#")
            if isinstance(x, Node):
                # make the placeholder *be* the node: patch every reference
                ph.kind, ph.kids = x.kind, x.kids
                _replace(ph, x, ph)
                return ph
            self.labels[n] = x
            return x
        tok_start = self.i
        self.i += 1
        tok = "#" + self.token()
        tl = tok.lower()
        if tl in ("#t", "#true"):
            return ("b", True)
        if tl in ("#f", "#false"):
            return ("b", False)
        n = parse_prefixed(tl)
        if n is not None:
            return n
        raise ReadError("unsupported # syntax %r at %d" % (tok, tok_start))


def _replace(root, old, new, seen=None):
    seen = seen if seen is not None else set()
    if not isinstance(root, Node) or id(root) in seen:
        return
    seen.add(id(root))
    for k, x in enumerate(root.kids):
        if x is old:
            root.kids[k] = new
        else:
            _replace(x, old, new, seen)


def list_items(lst):
    items = []
    while isinstance(lst, Node) and lst.kind == "p":
        items.append(lst.kids[0])
        lst = lst.kids[1]
    if lst != ("e",):
        raise ReadError("improper list where a list is required")
    return items


def read_one(text):
    """Parse the first datum of text; returns (datum, rest-of-text-is-blank)."""
    r = Reader(text)
    x = r.read()
    r.skip()
    return x, r.i >= len(text)


# ------------------------------------------------------------------------------------------------ dump format
def parse_dump(d):
    """Scheme-side (dump x), already parsed by vf.sexpr into nested Python lists -> data model (tree, no sharing)."""
    tag = str(d[0])
    if tag == "p":
        return Node("p", [parse_dump(d[1]), parse_dump(d[2])])
    if tag == "v":
        return Node("v", [parse_dump(x) for x in d[1:]])
    if tag == "e":
        return ("e",)
    if tag == "b":
        return ("b", d[1] == 1)
    if tag == "c":
        return ("c", d[1])
    if tag == "s":
        return ("s", tuple(d[1:]))
    if tag == "y":
        return ("y", tuple(d[1:]))
    if tag == "u":
        return ("u", tuple(d[1:]))
    if tag == "eof":
        return ("eof",)
    if tag == "i":
        n = 0
        for l in reversed(d[2:]):
            n = n * 16777216 + l
        return ("i", n * d[1])
    if tag == "q":
        return mkexact(Fraction(parse_dump(d[1])[1], parse_dump(d[2])[1]))
    if tag == "f":
        b = d[1] * 4294967296 + d[2]
        x = bits_to_float(b)
        return ("f", "nan" if x != x else b)
    if tag == "z":
        return ("z", parse_dump(d[1]), parse_dump(d[2]))
    return ("other", repr(d))


def parse_gdump(g):
    """Scheme-side (gdump x): (root-ref (id kind ref ...) ...) with ref = (r id) | leaf dump -> data model with sharing."""
    nodes = {}
    for rec in g[1:]:
        nodes[rec[0]] = Node(str(rec[1]))

    def ref(r):
        if str(r[0]) == "r":
            return nodes[r[1]]
        return parse_dump(r)
    for rec in g[1:]:
        nodes[rec[0]].kids = [ref(r) for r in rec[2:]]
    return ref(g[0])


def tree_equal(a, b, depth=0):
    """equality of finite trees (no sharing taken into account)"""
    if isinstance(a, Node) or isinstance(b, Node):
        if not (isinstance(a, Node) and isinstance(b, Node)) or a.kind != b.kind or len(a.kids) != len(b.kids):
            return False
        # iterate along cdrs to keep recursion shallow
        while True:
            if a.kind == "p":
                if not tree_equal(a.kids[0], b.kids[0], depth + 1):
                    return False
                a, b = a.kids[1], b.kids[1]
                if isinstance(a, Node) and isinstance(b, Node) and a.kind == "p" and b.kind == "p":
                    continue
                return tree_equal(a, b, depth + 1)
            return all(tree_equal(x, y, depth + 1) for x, y in zip(a.kids, b.kids))
    return a == b


def bisimilar(a, b):
    """equal? on possibly cyclic graphs (same infinite unfolding)"""
    seen = set()
    stack = [(a, b)]
    while stack:
        x, y = stack.pop()
        if isinstance(x, Node) or isinstance(y, Node):
            if not (isinstance(x, Node) and isinstance(y, Node)) or x.kind != y.kind or len(x.kids) != len(y.kids):
                return False
            k = (id(x), id(y))
            if k in seen:
                continue
            seen.add(k)
            stack.extend(zip(x.kids, y.kids))
        elif x != y:
            return False
    return True


def isomorphic(a, b):
    """same graph including sharing (pairs and vectors have identity)"""
    m1, m2 = {}, {}
    stack = [(a, b)]
    while stack:
        x, y = stack.pop()
        if isinstance(x, Node) or isinstance(y, Node):
            if not (isinstance(x, Node) and isinstance(y, Node)) or x.kind != y.kind or len(x.kids) != len(y.kids):
                return False
            if id(x) in m1 or id(y) in m2:
                if m1.get(id(x)) != id(y) or m2.get(id(y)) != id(x):
                    return False
                continue
            m1[id(x)] = id(y)
            m2[id(y)] = id(x)
            stack.extend(zip(x.kids, y.kids))
        elif x != y:
            return False
    return True


def show(x, depth=0, seen=None):
    """short printable form of a datum of the model (for witnesses)"""
    seen = seen if seen is not None else {}
    if isinstance(x, Node):
        if id(x) in seen:
            return "#%d#" % seen[id(x)]
        seen[id(x)] = len(seen)
        if depth > 12:
            return "..."
        return "%s%d[%s]" % (x.kind, seen[id(x)], " ".join(show(k, depth + 1, seen) for k in x.kids))
    return repr(x)
