"""Definitional interpreter for the core language of R7RS (sections 4 and 7.3) -- oracle of C03 / C09.

Written from the report, not from chibi's macros: every derived form is interpreted directly by its
R7RS meaning (let family, named let, do, cond/case with =>, and/or/when/unless, quasiquote with
nesting / splicing / vectors, let-values family, internal defines as letrec*).

* Environments are linked frames (dict name -> location content); a closure keeps its defining frame.
* Operand evaluation order is unspecified in R7RS: the interpreter can run left-to-right or
  right-to-left (`rtl`); `run_both` runs a program under both orders and reports it as order-sensitive
  (outside the compared domain) when the two observable outcomes differ.
* Situations for which R7RS prescribes no outcome and which chibi does not signal either (use of an
  unspecified value, reference to an uninitialised letrec variable, mutation of a literal, `reverse` of
  a non-list, wrong number of values to a continuation, ...) raise OutOfDomain: such a program is
  discarded by the caller, never compared.
* Detected errors are outcome *classes*: type, range, arity, unbound, div0, notproc, (raised payload),
  (error message irritants).
"""
import sys
from fractions import Fraction

sys.setrecursionlimit(20000)


# ------------------------------------------------------------------ values
class Sym(str):
    __slots__ = ()

    def __repr__(self):
        return str(self)


class Nil:
    __slots__ = ()

    def __repr__(self):
        return "()"


NIL = Nil()


class Unspec:
    __slots__ = ()

    def __repr__(self):
        return "#<unspec>"


UNSPEC = Unspec()


class Pair:
    __slots__ = ("car", "cdr", "const")

    def __init__(self, a, d, const=False):
        self.car = a
        self.cdr = d
        self.const = const


class Vector(list):
    const = False


class SString:
    __slots__ = ("v", "const")

    def __init__(self, v, const=False):
        self.v = v
        self.const = const


class SChar:
    __slots__ = ("c",)

    def __init__(self, c):
        self.c = c


class Closure:
    __slots__ = ("params", "rest", "body", "env")

    def __init__(self, params, rest, body, env):
        self.params = params
        self.rest = rest
        self.body = body
        self.env = env


class Prim:
    __slots__ = ("name", "fn", "lo", "hi", "opaque_ok")

    def __init__(self, name, fn, lo, hi, opaque_ok=False):
        self.name = name
        self.fn = fn
        self.lo = lo
        self.hi = hi
        self.opaque_ok = opaque_ok     # may receive an unspecified value without inspecting it


class Control:
    """Primitive that needs the interpreter (apply, call-with-values, map, ...)."""
    __slots__ = ("name", "fn", "lo", "hi")

    def __init__(self, name, fn, lo, hi):
        self.name = name
        self.fn = fn
        self.lo = lo
        self.hi = hi


class MultipleValues:
    __slots__ = ("vals",)

    def __init__(self, vals):
        self.vals = vals


class SchemeError(Exception):
    """A detected error / raise: the program's outcome is this class."""

    def __init__(self, kind, payload=None, irritants=None):
        Exception.__init__(self, kind)
        self.kind = kind
        self.payload = payload
        self.irritants = irritants


class OutOfDomain(Exception):
    """The program did something for which R7RS prescribes no outcome."""


class Budget(Exception):
    pass


UNINIT = object()
PROCS = (Closure, Prim, Control)


def lst(*xs, tail=NIL):
    r = tail
    for x in reversed(xs):
        r = Pair(x, r)
    return r


def to_py(l, what="type"):
    out = []
    while isinstance(l, Pair):
        out.append(l.car)
        l = l.cdr
    if l is not NIL:
        raise SchemeError(what)
    return out


# ------------------------------------------------------------------ reader
_DELIMS = "()'`,\" \t\n\r;"


def tokenize(s):
    i, n, out = 0, len(s), []
    while i < n:
        c = s[i]
        if c in " \t\n\r":
            i += 1
        elif c == ";":
            while i < n and s[i] != "\n":
                i += 1
        elif c in "()'`":
            out.append(c)
            i += 1
        elif c == ",":
            if s[i:i + 2] == ",@":
                out.append(",@")
                i += 2
            else:
                out.append(",")
                i += 1
        elif c == "#" and s[i:i + 2] == "#(":
            out.append("#(")
            i += 2
        elif c == "#" and s[i:i + 2] == "#\\":
            j = i + 3
            while j < n and s[j] not in _DELIMS:
                j += 1
            out.append(s[i:j])
            i = j
        elif c == '"':
            j = i + 1
            while s[j] != '"':
                j += 2 if s[j] == "\\" else 1
            out.append(s[i:j + 1])
            i = j + 1
        else:
            j = i
            while j < n and s[j] not in _DELIMS:
                j += 1
            out.append(s[i:j])
            i = j
    return out


_CHARNAMES = {"space": 32, "newline": 10, "tab": 9, "null": 0, "nul": 0, "alarm": 7, "backspace": 8, "delete": 127,
              "escape": 27, "return": 13}


def parse(s):
    """Text -> list of data (literal structure is marked constant)."""
    toks = tokenize(s)
    pos = [0]

    def rd():
        t = toks[pos[0]]
        pos[0] += 1
        if t == "(" or t == "#(":
            items, tail = [], NIL
            while toks[pos[0]] != ")":
                if toks[pos[0]] == ".":
                    pos[0] += 1
                    tail = rd()
                else:
                    items.append(rd())
            pos[0] += 1
            if t == "#(":
                v = Vector(items)
                v.const = True
                return v
            r = tail
            for x in reversed(items):
                r = Pair(x, r, True)
            return r
        if t == "'":
            return Pair(Sym("quote"), Pair(rd(), NIL, True), True)
        if t == "`":
            return Pair(Sym("quasiquote"), Pair(rd(), NIL, True), True)
        if t == ",":
            return Pair(Sym("unquote"), Pair(rd(), NIL, True), True)
        if t == ",@":
            return Pair(Sym("unquote-splicing"), Pair(rd(), NIL, True), True)
        if t == "#t" or t == "#true":
            return True
        if t == "#f" or t == "#false":
            return False
        if t[0] == '"':
            body = t[1:-1].replace('\\"', '"').replace("\\\\", "\\")
            return SString(body, True)
        if t.startswith("#\\"):
            name = t[2:]
            if len(name) == 1:
                return SChar(ord(name))
            if name in _CHARNAMES:
                return SChar(_CHARNAMES[name])
            if name[0] == "x":
                return SChar(int(name[1:], 16))
            raise ValueError("bad char " + t)
        try:
            return int(t)
        except ValueError:
            pass
        if "/" in t and t.replace("/", "").lstrip("+-").isdigit() and t.count("/") == 1:
            n, d = t.split("/")
            return norm(Fraction(int(n), int(d)))
        return Sym(t)

    out = []
    while pos[0] < len(toks):
        out.append(rd())
    return out


# ------------------------------------------------------------------ environments
class Env:
    __slots__ = ("vars", "parent")

    def __init__(self, parent=None, vars=None):
        self.vars = {} if vars is None else vars
        self.parent = parent

    def find(self, name):
        e = self
        while e is not None:
            if name in e.vars:
                return e
            e = e.parent
        return None


SPECIAL_MARK = object()
SPECIAL = {}


def special(*names):
    def deco(f):
        for n in names:
            SPECIAL[n] = f
        return f
    return deco


class TailCall:
    __slots__ = ("x", "env")

    def __init__(self, x, env):
        self.x = x
        self.env = env


class Interp:
    def __init__(self, rtl=True, budget=400000):
        self.rtl = rtl
        self.trace = []
        self.steps = 0
        self.budget = budget
        self.genv = Env()
        install(self)

    # -- helpers ------------------------------------------------------------
    def order(self, n):
        return range(n - 1, -1, -1) if self.rtl else range(n)

    def ev1(self, x, env):
        """Evaluate in a context that takes exactly one value."""
        v = self.ev(x, env)
        if isinstance(v, MultipleValues):
            raise OutOfDomain("multiple values to a single-value continuation")
        return v

    def truth(self, v):
        if v is UNSPEC:
            raise OutOfDomain("unspecified value tested")
        return v is not False

    def evlist(self, xs, env):
        vals = [None] * len(xs)
        for i in self.order(len(xs)):
            vals[i] = self.ev1(xs[i], env)
        return vals

    # -- eval ---------------------------------------------------------------
    def ev(self, x, env):
        while True:
            self.steps += 1
            if self.steps > self.budget:
                raise Budget()
            if isinstance(x, Sym):
                e = env.find(x)
                if e is None:
                    raise SchemeError("unbound", x)
                v = e.vars[x]
                if v is UNINIT:
                    raise OutOfDomain("uninitialised variable " + x)
                if v is SPECIAL_MARK:
                    raise OutOfDomain("keyword as expression")
                return v
            if not isinstance(x, Pair):
                if x is NIL:
                    raise OutOfDomain("() evaluated")
                return x                       # self-evaluating: numbers, booleans, strings, chars, vectors
            head = x.car
            if isinstance(head, Sym):
                e = env.find(head)
                if e is not None and e.vars[head] is SPECIAL_MARK:
                    if SPECIAL[head] is None:
                        raise OutOfDomain("auxiliary keyword %s used as an expression" % head)
                    r = SPECIAL[head](self, x, env)
                    if isinstance(r, TailCall):
                        x, env = r.x, r.env
                        continue
                    return r
            items = to_py(x, "syntax")
            vals = self.evlist(items, env)
            r = self.apply(vals[0], vals[1:], tail=True)
            if isinstance(r, TailCall):
                x, env = r.x, r.env
                continue
            return r

    def body(self, forms, env):
        """Body with internal definitions = letrec* (R7RS 5.3.2); returns TailCall for the last form."""
        i = 0
        names = []
        while i < len(forms) and is_form(forms[i], env, ("define", "define-values")):
            f = forms[i]
            if f.car == "define":
                t = f.cdr.car
                names.append(t.car if isinstance(t, Pair) else t)
            else:
                names.extend(formals_names(f.cdr.car))
            i += 1
        if names:
            if len(set(names)) != len(names):
                raise OutOfDomain("duplicate internal definition")
            env = Env(env)
            for n in names:
                env.vars[n] = UNINIT
        return self.seq(forms, env)

    def seq(self, forms, env):
        if not forms:
            return UNSPEC
        for f in forms[:-1]:
            self.ev(f, env)
        return TailCall(forms[-1], env)

    def run_seq(self, forms, env):
        r = self.seq(forms, env)
        return self.ev(r.x, r.env) if isinstance(r, TailCall) else r

    # -- apply --------------------------------------------------------------
    def apply(self, f, args, tail=False):
        r = self.apply1(f, args)
        if isinstance(r, TailCall) and not tail:
            return self.ev(r.x, r.env)
        return r

    def apply1(self, f, args):
        if isinstance(f, Closure):
            np = len(f.params)
            if len(args) < np or (f.rest is None and len(args) > np):
                raise SchemeError("arity")
            env = Env(f.env)
            for p, a in zip(f.params, args):
                env.vars[p] = a
            if f.rest is not None:
                env.vars[f.rest] = lst(*args[np:])
            return self.body(f.body, env)
        if isinstance(f, Prim):
            if len(args) < f.lo or (f.hi is not None and len(args) > f.hi):
                raise SchemeError("arity")
            if not f.opaque_ok:
                for a in args:
                    if a is UNSPEC:
                        raise OutOfDomain("unspecified value passed to " + f.name)
            return f.fn(*args)
        if isinstance(f, Control):
            if len(args) < f.lo or (f.hi is not None and len(args) > f.hi):
                raise SchemeError("arity")
            return f.fn(self, args)
        if f is UNSPEC:
            raise OutOfDomain("unspecified value applied")
        raise SchemeError("notproc")

    def call(self, f, args):
        v = self.apply(f, args)
        if isinstance(v, MultipleValues):
            raise OutOfDomain("multiple values to a single-value continuation")
        return v

    # -- programs -----------------------------------------------------------
    def run_program(self, forms):
        """forms: top-level forms; the last one is the main expression.
        -> ('value', v) | ('error', SchemeError) ; trace in self.trace"""
        try:
            v = UNSPEC
            for f in forms:
                v = self.ev(f, self.genv)
            if isinstance(v, MultipleValues):
                raise OutOfDomain("multiple values at top level")
            return ("value", v)
        except SchemeError as e:
            return ("error", e)
        except RecursionError:
            raise Budget()


def is_form(x, env, names):
    if isinstance(x, Pair) and isinstance(x.car, Sym) and x.car in names:
        e = env.find(x.car)
        return e is not None and e.vars[x.car] is SPECIAL_MARK
    return False


def formals_names(p):
    names = []
    while isinstance(p, Pair):
        names.append(p.car)
        p = p.cdr
    if p is not NIL:
        names.append(p)
    return names


def parse_formals(p):
    params = []
    while isinstance(p, Pair):
        params.append(p.car)
        p = p.cdr
    rest = None if p is NIL else p
    names = params + ([rest] if rest is not None else [])
    if len(set(names)) != len(names):
        raise OutOfDomain("duplicate parameter")
    return params, rest


# ------------------------------------------------------------------ special forms
@special("quote")
def _quote(s, x, env):
    return x.cdr.car


@special("if")
def _if(s, x, env):
    parts = to_py(x.cdr, "syntax")
    if s.truth(s.ev1(parts[0], env)):
        return TailCall(parts[1], env)
    if len(parts) > 2:
        return TailCall(parts[2], env)
    return UNSPEC


@special("lambda")
def _lambda(s, x, env):
    params, rest = parse_formals(x.cdr.car)
    return Closure(params, rest, to_py(x.cdr.cdr, "syntax"), env)


@special("define")
def _define(s, x, env):
    target = x.cdr.car
    if isinstance(target, Pair):
        params, rest = parse_formals(target.cdr)
        env.vars[target.car] = Closure(params, rest, to_py(x.cdr.cdr, "syntax"), env)
    else:
        v = s.ev1(x.cdr.cdr.car, env)
        env.vars[target] = v
    return UNSPEC


def bind_formals(s, formals, vals, env):
    params, rest = parse_formals(formals)
    if len(vals) < len(params) or (rest is None and len(vals) > len(params)):
        raise OutOfDomain("wrong number of values")
    for p, v in zip(params, vals):
        env.vars[p] = v
    if rest is not None:
        env.vars[rest] = lst(*vals[len(params):])


def values_of(v):
    return list(v.vals) if isinstance(v, MultipleValues) else [v]


@special("define-values")
def _define_values(s, x, env):
    v = s.ev(x.cdr.cdr.car, env)
    bind_formals(s, x.cdr.car, values_of(v), env)
    return UNSPEC


@special("set!")
def _set(s, x, env):
    name = x.cdr.car
    v = s.ev1(x.cdr.cdr.car, env)
    e = env.find(name)
    if e is None:
        raise SchemeError("unbound", name)
    if e.vars[name] is UNINIT:
        raise OutOfDomain("assignment to uninitialised variable")
    if e.vars[name] is SPECIAL_MARK:
        raise OutOfDomain("assignment to keyword")
    e.vars[name] = v
    return UNSPEC


@special("begin")
def _begin(s, x, env):
    return s.seq(to_py(x.cdr, "syntax"), env)


@special("let")
def _let(s, x, env):
    if isinstance(x.cdr.car, Sym):                      # named let (R7RS 4.2.4)
        name = x.cdr.car
        bindings = to_py(x.cdr.cdr.car, "syntax")
        body = to_py(x.cdr.cdr.cdr, "syntax")
        vals = s.evlist([b.cdr.car for b in bindings], env)
        env2 = Env(env)
        params = [b.car for b in bindings]
        if len(set(params)) != len(params):
            raise OutOfDomain("duplicate binding")
        f = Closure(params, None, body, env2)
        env2.vars[name] = f
        return s.apply(f, vals, tail=True)
    bindings = to_py(x.cdr.car, "syntax")
    vals = s.evlist([b.cdr.car for b in bindings], env)
    env2 = Env(env)
    for b, v in zip(bindings, vals):
        if b.car in env2.vars:
            raise OutOfDomain("duplicate binding")
        env2.vars[b.car] = v
    return s.body(to_py(x.cdr.cdr, "syntax"), env2)


@special("let*")
def _letstar(s, x, env):
    for b in to_py(x.cdr.car, "syntax"):
        v = s.ev1(b.cdr.car, env)
        env = Env(env)
        env.vars[b.car] = v
    return s.body(to_py(x.cdr.cdr, "syntax"), Env(env))


@special("letrec")
def _letrec(s, x, env):
    bindings = to_py(x.cdr.car, "syntax")
    env2 = Env(env)
    for b in bindings:
        env2.vars[b.car] = UNINIT
    vals = s.evlist([b.cdr.car for b in bindings], env2)      # unspecified order, all before any assignment
    for b, v in zip(bindings, vals):
        env2.vars[b.car] = v
    return s.body(to_py(x.cdr.cdr, "syntax"), env2)


@special("letrec*")
def _letrecstar(s, x, env):
    bindings = to_py(x.cdr.car, "syntax")
    env2 = Env(env)
    for b in bindings:
        env2.vars[b.car] = UNINIT
    for b in bindings:
        env2.vars[b.car] = s.ev1(b.cdr.car, env2)
    return s.body(to_py(x.cdr.cdr, "syntax"), env2)


@special("let-values")
def _let_values(s, x, env):
    bindings = to_py(x.cdr.car, "syntax")
    vals = [None] * len(bindings)
    for i in s.order(len(bindings)):
        vals[i] = values_of(s.ev(bindings[i].cdr.car, env))
    env2 = Env(env)
    for b, v in zip(bindings, vals):
        bind_formals(s, b.car, v, env2)
    return s.body(to_py(x.cdr.cdr, "syntax"), env2)


@special("let*-values")
def _let_star_values(s, x, env):
    for b in to_py(x.cdr.car, "syntax"):
        v = values_of(s.ev(b.cdr.car, env))
        env = Env(env)
        bind_formals(s, b.car, v, env)
    return s.body(to_py(x.cdr.cdr, "syntax"), Env(env))


@special("do")
def _do(s, x, env):
    specs = [to_py(b, "syntax") for b in to_py(x.cdr.car, "syntax")]
    endc = to_py(x.cdr.cdr.car, "syntax")
    cmds = to_py(x.cdr.cdr.cdr, "syntax")
    vals = s.evlist([sp[1] for sp in specs], env)
    while True:
        env2 = Env(env)                                   # fresh locations on every iteration
        for sp, v in zip(specs, vals):
            env2.vars[sp[0]] = v
        if s.truth(s.ev1(endc[0], env2)):
            return s.seq(endc[1:], env2)
        for c in cmds:
            s.ev(c, env2)
        vals = s.evlist([sp[2] if len(sp) > 2 else sp[0] for sp in specs], env2)


@special("and")
def _and(s, x, env):
    parts = to_py(x.cdr, "syntax")
    if not parts:
        return True
    for p in parts[:-1]:
        v = s.ev1(p, env)
        if not s.truth(v):
            return v
    return TailCall(parts[-1], env)


@special("or")
def _or(s, x, env):
    parts = to_py(x.cdr, "syntax")
    if not parts:
        return False
    for p in parts[:-1]:
        v = s.ev1(p, env)
        if s.truth(v):
            return v
    return TailCall(parts[-1], env)


@special("when")
def _when(s, x, env):
    if s.truth(s.ev1(x.cdr.car, env)):
        return s.seq(to_py(x.cdr.cdr, "syntax"), env)
    return UNSPEC


@special("unless")
def _unless(s, x, env):
    if not s.truth(s.ev1(x.cdr.car, env)):
        return s.seq(to_py(x.cdr.cdr, "syntax"), env)
    return UNSPEC


def is_kw(x, env, name):
    """`else` / `=>` are recognised unless locally rebound."""
    if not (isinstance(x, Sym) and x == name):
        return False
    e = env.find(x)
    return e is None or e.vars[x] is SPECIAL_MARK


@special("cond")
def _cond(s, x, env):
    for c in to_py(x.cdr, "syntax"):
        if is_kw(c.car, env, "else"):
            return s.seq(to_py(c.cdr, "syntax"), env)
        v = s.ev1(c.car, env)
        if not s.truth(v):
            continue
        if c.cdr is NIL:
            return v
        if is_kw(c.cdr.car, env, "=>"):
            f = s.ev1(c.cdr.cdr.car, env)
            return s.apply(f, [v], tail=True)
        return s.seq(to_py(c.cdr, "syntax"), env)
    return UNSPEC


@special("case")
def _case(s, x, env):
    key = s.ev1(x.cdr.car, env)
    if key is UNSPEC:
        raise OutOfDomain("unspecified value as case key")
    for c in to_py(x.cdr.cdr, "syntax"):
        if is_kw(c.car, env, "else"):
            hit = True
        else:
            hit = any(eqv(key, d) for d in to_py(c.car, "syntax"))
        if hit:
            if c.cdr is not NIL and is_kw(c.cdr.car, env, "=>"):
                f = s.ev1(c.cdr.cdr.car, env)
                return s.apply(f, [key], tail=True)
            return s.seq(to_py(c.cdr, "syntax"), env)
    return UNSPEC


def _qq_form(x, name):
    return (isinstance(x, Pair) and isinstance(x.car, Sym) and x.car == name
            and isinstance(x.cdr, Pair) and x.cdr.cdr is NIL)


def qq(s, x, depth, env):
    """R7RS 4.2.8.  The result is treated as a literal (may share structure with the template)."""
    if isinstance(x, Pair):
        if _qq_form(x, "unquote"):
            if depth == 0:
                return s.ev1(x.cdr.car, env)
            # R7RS 7.1.4: an unquotation holds exactly one <qq template D-1>; (unquote (unquote-splicing e)) with the
            # splice reaching level 0 (R6RS multi-operand unquote) is outside the grammar -> OutOfDomain below
            return Pair(x.car, Pair(qq(s, x.cdr.car, depth - 1, env), NIL, True), True)
        if _qq_form(x, "unquote-splicing"):
            if depth == 0:
                raise OutOfDomain("unquote-splicing not in a list")
            return Pair(x.car, Pair(qq(s, x.cdr.car, depth - 1, env), NIL, True), True)
        if _qq_form(x, "quasiquote"):
            return Pair(x.car, Pair(qq(s, x.cdr.car, depth + 1, env), NIL, True), True)
        first = x.car
        if depth == 0 and _qq_form(first, "unquote-splicing"):
            if s.rtl:
                rest = qq(s, x.cdr, depth, env)
                sp = s.ev1(first.cdr.car, env)
            else:
                sp = s.ev1(first.cdr.car, env)
                rest = qq(s, x.cdr, depth, env)
            try:
                items = to_py(sp)
            except SchemeError:
                raise OutOfDomain("splicing a non-list")
            if rest is NIL and not items:
                return NIL
            r = rest
            for it in reversed(items):
                r = Pair(it, r, True)
            return r
        if s.rtl:
            d = qq(s, x.cdr, depth, env)
            a = qq(s, first, depth, env)
        else:
            a = qq(s, first, depth, env)
            d = qq(s, x.cdr, depth, env)
        return Pair(a, d, True)
    if isinstance(x, Vector):
        l = qq(s, lst(*x), depth, env)
        v = Vector(to_py(l))
        v.const = True
        return v
    return x


@special("quasiquote")
def _quasiquote(s, x, env):
    return qq(s, x.cdr.car, 0, env)


for _n in ("else", "=>", "unquote", "unquote-splicing"):
    SPECIAL[_n] = None


# ------------------------------------------------------------------ primitives
def eqv(a, b):
    if isinstance(a, bool) or isinstance(b, bool):
        return a is b
    if isinstance(a, (int, Fraction)) and isinstance(b, (int, Fraction)):
        return a == b
    if isinstance(a, Sym) and isinstance(b, Sym):
        return a == b
    if isinstance(a, SChar) and isinstance(b, SChar):
        return a.c == b.c
    if isinstance(a, Vector) and isinstance(b, Vector) and len(a) == 0 and len(b) == 0:
        raise OutOfDomain("eqv? on empty vectors")
    if isinstance(a, SString) and isinstance(b, SString) and (a.v == "" and b.v == ""):
        raise OutOfDomain("eqv? on empty strings")
    if isinstance(a, (Pair, Vector, SString)) and isinstance(b, (Pair, Vector, SString)) and a is not b:
        if getattr(a, "const", False) and getattr(b, "const", False):
            raise OutOfDomain("eqv? on two literal constants")
    return a is b


def eq(a, b):
    if (isinstance(a, (int, Fraction)) and not isinstance(a, bool) and isinstance(b, (int, Fraction))
            and not isinstance(b, bool)) or (isinstance(a, SChar) and isinstance(b, SChar)):
        raise OutOfDomain("eq? on numbers / characters")
    return eqv(a, b)


def equal(a, b):
    while isinstance(a, Pair) and isinstance(b, Pair):
        if not equal(a.car, b.car):
            return False
        a, b = a.cdr, b.cdr
    if isinstance(a, Vector) and isinstance(b, Vector):
        return len(a) == len(b) and all(equal(p, q) for p, q in zip(a, b))
    if isinstance(a, SString) and isinstance(b, SString):
        return a.v == b.v
    if isinstance(a, (Pair, Vector, SString)) or isinstance(b, (Pair, Vector, SString)):
        return False
    return eqv(a, b)


def num(x):
    """Exact rational (ratios arise only from `/`, used by the C09 constant-folding workload)."""
    if isinstance(x, bool) or not isinstance(x, (int, Fraction)):
        raise SchemeError("type")
    return x


def intnum(x):
    if isinstance(x, bool) or not isinstance(x, int):
        raise SchemeError("type")
    return x


def norm(q):
    return int(q) if isinstance(q, Fraction) and q.denominator == 1 else q


def install(s):
    g = s.genv.vars
    for name in SPECIAL:
        g[Sym(name)] = SPECIAL_MARK

    def prim(name, fn, lo, hi=-1, opaque_ok=False):
        g[Sym(name)] = Prim(name, fn, lo, lo if hi == -1 else hi, opaque_ok)

    def ctl(name, fn, lo, hi=-1):
        g[Sym(name)] = Control(name, fn, lo, lo if hi == -1 else hi)

    def add(*a):
        r = 0
        for x in a:
            r += num(x)
        return r

    def mul(*a):
        r = 1
        for x in a:
            r *= num(x)
        return r

    def sub(a, *r):
        if not r:
            return -num(a)
        v = num(a)
        for x in r:
            v -= num(x)
        return v

    prim("+", add, 0, None)
    prim("*", mul, 0, None)
    prim("-", sub, 1, None)

    def cmp(op):
        def f(*a):
            a = [num(x) for x in a]
            return all(op(x, y) for x, y in zip(a, a[1:]))
        return f

    import operator
    for nm, op in (("=", operator.eq), ("<", operator.lt), (">", operator.gt), ("<=", operator.le),
                   (">=", operator.ge)):
        prim(nm, cmp(op), 2, None)

    def div(a, *r):
        if not r:
            if num(a) == 0:
                raise SchemeError("div0")
            return norm(Fraction(1) / a)
        v = Fraction(num(a))
        for x in r:
            if num(x) == 0:
                raise SchemeError("div0")
            v = v / x
        return norm(v)

    prim("/", div, 1, None)

    def quotient(a, b):
        a, b = intnum(a), intnum(b)
        if b == 0:
            raise SchemeError("div0")
        q = abs(a) // abs(b)
        return q if (a < 0) == (b < 0) else -q

    def remainder(a, b):
        return intnum(a) - intnum(b) * quotient(a, b)

    def modulo(a, b):
        a, b = intnum(a), intnum(b)
        if b == 0:
            raise SchemeError("div0")
        return a % b

    prim("quotient", quotient, 2)
    prim("remainder", remainder, 2)
    prim("modulo", modulo, 2)
    prim("abs", lambda a: abs(num(a)), 1)
    prim("min", lambda a, *r: min([num(a)] + [num(x) for x in r]), 1, None)
    prim("max", lambda a, *r: max([num(a)] + [num(x) for x in r]), 1, None)
    prim("zero?", lambda x: num(x) == 0, 1)
    prim("positive?", lambda x: num(x) > 0, 1)
    prim("negative?", lambda x: num(x) < 0, 1)
    prim("odd?", lambda x: intnum(x) % 2 == 1, 1)
    prim("even?", lambda x: intnum(x) % 2 == 0, 1)
    prim("not", lambda x: x is False, 1)
    prim("eq?", eq, 2)
    prim("eqv?", eqv, 2)
    prim("equal?", equal, 2)
    prim("cons", lambda a, d: Pair(a, d), 2, opaque_ok=True)

    def car(p):
        if not isinstance(p, Pair):
            raise SchemeError("type")
        return p.car

    def cdr(p):
        if not isinstance(p, Pair):
            raise SchemeError("type")
        return p.cdr

    prim("car", car, 1)
    prim("cdr", cdr, 1)
    prim("cadr", lambda p: car(cdr(p)), 1)
    prim("cddr", lambda p: cdr(cdr(p)), 1)
    prim("caar", lambda p: car(car(p)), 1)
    prim("cdar", lambda p: cdr(car(p)), 1)
    prim("caddr", lambda p: car(cdr(cdr(p))), 1)

    def set_car(p, v):
        if not isinstance(p, Pair):
            raise SchemeError("type")
        if p.const:
            raise OutOfDomain("mutation of a literal")
        p.car = v
        return UNSPEC

    def set_cdr(p, v):
        if not isinstance(p, Pair):
            raise SchemeError("type")
        if p.const:
            raise OutOfDomain("mutation of a literal")
        p.cdr = v
        return UNSPEC

    prim("set-car!", set_car, 2, opaque_ok=True)
    prim("set-cdr!", set_cdr, 2, opaque_ok=True)
    prim("list", lambda *a: lst(*a), 0, None, opaque_ok=True)

    def proper(l, who):
        out = []
        while isinstance(l, Pair):
            out.append(l.car)
            l = l.cdr
        if l is not NIL:
            raise OutOfDomain(who + " of a non-list")
        return out

    def length(l):
        n = 0
        while isinstance(l, Pair):
            n += 1
            l = l.cdr
        if l is not NIL:
            raise SchemeError("type")
        return n

    prim("length", length, 1)
    prim("reverse", lambda l: lst(*reversed(proper(l, "reverse"))), 1)

    def append(*ls):
        if not ls:
            return NIL
        items = []
        for l in ls[:-1]:
            items.extend(proper(l, "append"))
        return lst(*items, tail=ls[-1])

    prim("append", append, 0, None)

    def list_tail(l, k):
        for _ in range(intnum(k)):
            l = cdr(l)
        return l

    prim("list-tail", list_tail, 2)
    prim("list-ref", lambda l, k: car(list_tail(l, k)), 2)

    def memv(x, l):
        while isinstance(l, Pair):
            if eqv(x, l.car):
                return l
            l = l.cdr
        if l is not NIL:
            raise OutOfDomain("memv on a non-list")
        return False

    def member(x, l):
        while isinstance(l, Pair):
            if equal(x, l.car):
                return l
            l = l.cdr
        if l is not NIL:
            raise OutOfDomain("member on a non-list")
        return False

    def assv(x, l):
        for p in proper(l, "assv"):
            if not isinstance(p, Pair):
                raise OutOfDomain("assv on a non-alist")
            if eqv(x, p.car):
                return p
        return False

    prim("memv", memv, 2)
    prim("member", member, 2)
    prim("assv", assv, 2)
    prim("null?", lambda x: x is NIL, 1)
    prim("pair?", lambda x: isinstance(x, Pair), 1)

    def listp(l):
        seen = 0
        while isinstance(l, Pair):
            l = l.cdr
            seen += 1
            if seen > 100000:
                raise OutOfDomain("circular list")
        return l is NIL

    prim("list?", listp, 1)
    prim("vector", lambda *a: Vector(a), 0, None, opaque_ok=True)

    def idx(v, i, n):
        if isinstance(i, bool) or not isinstance(i, int):
            raise SchemeError("type")
        if not 0 <= i < n:
            raise SchemeError("range")
        return i

    def vref(v, i):
        if not isinstance(v, Vector):
            raise SchemeError("type")
        return v[idx(v, i, len(v))]

    def vset(v, i, x):
        if not isinstance(v, Vector):
            raise SchemeError("type")
        i = idx(v, i, len(v))
        if v.const:
            raise OutOfDomain("mutation of a literal")
        v[i] = x
        return UNSPEC

    def vlen(v):
        if not isinstance(v, Vector):
            raise SchemeError("type")
        return len(v)

    def make_vector(n, x=UNSPEC):
        n = intnum(n)
        if n < 0 or n > 100000:
            raise OutOfDomain("make-vector size")
        return Vector([x] * n)

    prim("vector-ref", vref, 2)
    prim("vector-set!", vset, 3, opaque_ok=True)
    prim("vector-length", vlen, 1)
    prim("make-vector", make_vector, 1, 2, opaque_ok=True)

    def vector_to_list(v):
        if not isinstance(v, Vector):
            raise SchemeError("type")
        return lst(*v)

    prim("vector->list", vector_to_list, 1)
    prim("list->vector", lambda l: Vector(proper(l, "list->vector")), 1)
    prim("boolean?", lambda x: isinstance(x, bool), 1)
    prim("integer?", lambda x: isinstance(x, int) and not isinstance(x, bool), 1)
    prim("exact-integer?", lambda x: isinstance(x, int) and not isinstance(x, bool), 1)
    prim("number?", lambda x: isinstance(x, (int, Fraction)) and not isinstance(x, bool), 1)
    prim("symbol?", lambda x: isinstance(x, Sym), 1)
    prim("procedure?", lambda x: isinstance(x, PROCS), 1)
    prim("vector?", lambda x: isinstance(x, Vector), 1)
    prim("string?", lambda x: isinstance(x, SString), 1)
    prim("char?", lambda x: isinstance(x, SChar), 1)

    def string_length(x):
        if not isinstance(x, SString):
            raise SchemeError("type")
        return len(x.v)

    def char_to_integer(x):
        if not isinstance(x, SChar):
            raise SchemeError("type")
        return x.c

    prim("string-length", string_length, 1)
    prim("char->integer", char_to_integer, 1)

    def log(x):
        s.trace.append(to_obs(x))
        return UNSPEC

    prim("log!", log, 1, opaque_ok=True)

    def do_raise(x):
        raise SchemeError("raised", x)

    def do_error(msg, *irritants):
        if not isinstance(msg, SString):
            raise OutOfDomain("error with a non-string message")
        raise SchemeError("error", msg.v, lst(*irritants))

    prim("raise", do_raise, 1)
    prim("error", do_error, 1, None)

    # -- control -------------------------------------------------------------
    def c_apply(s, args):
        try:
            rest = to_py(args[-1])
        except SchemeError:
            raise OutOfDomain("apply with an improper argument list")
        return s.apply(args[0], list(args[1:-1]) + rest, tail=True)

    ctl("apply", c_apply, 2, None)

    def c_values(s, args):
        return args[0] if len(args) == 1 else MultipleValues(list(args))

    ctl("values", c_values, 0, None)

    def c_cwv(s, args):
        v = s.apply(args[0], [])
        return s.apply(args[1], values_of(v), tail=True)

    ctl("call-with-values", c_cwv, 2)

    def lists_of(args, who):
        ls = []
        for a in args:
            try:
                ls.append(to_py(a))
            except SchemeError:
                raise OutOfDomain(who + " on a non-list")
        return ls

    def c_map(s, args):
        ls = lists_of(args[1:], "map")
        n = min(len(l) for l in ls)
        out = [None] * n
        for i in s.order(n):                           # application order is unspecified
            out[i] = s.call(args[0], [l[i] for l in ls])
        return lst(*out)

    ctl("map", c_map, 2, None)

    def c_for_each(s, args):
        ls = lists_of(args[1:], "for-each")
        n = min(len(l) for l in ls)
        for i in range(n):
            s.apply(args[0], [l[i] for l in ls])
        return UNSPEC

    ctl("for-each", c_for_each, 2, None)

    def c_vector_map(s, args):
        for a in args[1:]:
            if not isinstance(a, Vector):
                raise SchemeError("type")
        n = min(len(v) for v in args[1:])
        out = [None] * n
        for i in s.order(n):
            out[i] = s.call(args[0], [v[i] for v in args[1:]])
        return Vector(out)

    ctl("vector-map", c_vector_map, 2, None)

    def c_vector_for_each(s, args):
        for a in args[1:]:
            if not isinstance(a, Vector):
                raise SchemeError("type")
        n = min(len(v) for v in args[1:])
        for i in range(n):
            s.apply(args[0], [v[i] for v in args[1:]])
        return UNSPEC

    ctl("vector-for-each", c_vector_for_each, 2, None)


# ------------------------------------------------------------------ observations
class Wild:
    """Matches any observed datum (the value is unspecified by R7RS).  Compare with isinstance: observations
    cross process boundaries (pickle), so identity is not preserved."""

    def __eq__(self, o):
        return isinstance(o, Wild)

    def __hash__(self):
        return 1

    def __repr__(self):
        return "%unspec"


WILD = Wild()


class OProc:
    def __eq__(self, o):
        return isinstance(o, OProc)

    def __hash__(self):
        return 2

    def __repr__(self):
        return "%proc"


PROC = OProc()


def to_obs(v):
    """Model value -> comparable structure: int, bool, ('sym', s), ('str', s), ('char', n), ('list', [...], tail),
    ('vec', [...]), PROC, WILD.  A snapshot (later mutation does not change it)."""
    if isinstance(v, bool):
        return v
    if isinstance(v, int):
        return v
    if isinstance(v, Fraction):
        return ("rat", v.numerator, v.denominator) if v.denominator != 1 else v.numerator
    if isinstance(v, Sym):
        return ("sym", str(v))
    if isinstance(v, SString):
        return ("str", v.v)
    if isinstance(v, SChar):
        return ("char", v.c)
    if v is NIL:
        return ("list", (), None)
    if isinstance(v, Pair):
        items = []
        n = 0
        while isinstance(v, Pair):
            items.append(to_obs(v.car))
            v = v.cdr
            n += 1
            if n > 100000:
                raise OutOfDomain("circular structure observed")
        return ("list", tuple(items), None if v is NIL else to_obs(v))
    if isinstance(v, Vector):
        return ("vec", tuple(to_obs(e) for e in v))
    if isinstance(v, PROCS):
        return PROC
    if v is UNSPEC:
        return WILD
    if isinstance(v, MultipleValues):
        raise OutOfDomain("multiple values observed")
    raise OutOfDomain("unobservable value %r" % (v,))


def show_obs(o):
    if o is True:
        return "#t"
    if o is False:
        return "#f"
    if isinstance(o, int):
        return str(o)
    if isinstance(o, Wild):
        return "%unspec"
    if isinstance(o, OProc):
        return "%proc"
    k = o[0]
    if k == "sym":
        return o[1]
    if k == "rat":
        return "%d/%d" % (o[1], o[2])
    if k == "str":
        return '"' + o[1].replace("\\", "\\\\").replace('"', '\\"') + '"'
    if k == "char":
        return "#\\x%x" % o[1]
    if k == "list":
        parts = [show_obs(e) for e in o[1]]
        if o[2] is not None:
            parts += [".", show_obs(o[2])]
        return "(" + " ".join(parts) + ")"
    if k == "vec":
        return "#(" + " ".join(show_obs(e) for e in o[1]) + ")"
    return repr(o)


def outcome_obs(res):
    """('value', v) | ('error', SchemeError) -> comparable outcome structure (same shape as the chibi side prints)."""
    kind, v = res
    if kind == "value":
        return ("list", (("sym", "value"), to_obs(v)), None)
    e = v
    if e.kind == "raised":
        return ("list", (("sym", "err"), ("sym", "raised"), to_obs(e.payload)), None)
    if e.kind == "error":
        return ("list", (("sym", "err"), ("sym", "error"), ("str", e.payload), to_obs(e.irritants)), None)
    return ("list", (("sym", "err"), ("sym", e.kind)), None)


def run_text(text, rtl=True, budget=400000):
    """-> ('ok', trace_obs_list, outcome_obs) | ('ood', reason) | ('budget',)"""
    it = Interp(rtl=rtl, budget=budget)
    try:
        forms = parse(text)
        res = it.run_program(forms)
        return ("ok", tuple(it.trace), outcome_obs(res))
    except OutOfDomain as e:
        return ("ood", str(e))
    except Budget:
        return ("budget",)


def run_both(text, budget=400000):
    """Expected observation of a program, or the reason it is outside the compared domain.
    -> ('ok', trace, outcome) | ('ood', reason) | ('budget',) | ('order-sensitive', a, b)"""
    a = run_text(text, True, budget)
    if a[0] != "ok":
        return a
    b = run_text(text, False, budget)
    if b[0] != "ok":
        return b
    if a != b:
        return ("order-sensitive", show_obs(("list", a[1], None)) + " " + show_obs(a[2]),
                show_obs(("list", b[1], None)) + " " + show_obs(b[2]))
    return a


if __name__ == "__main__":
    r = run_both(sys.stdin.read())
    if r[0] == "ok":
        print(show_obs(("list", r[1], None)))
        print(show_obs(r[2]))
    else:
        print(r)
