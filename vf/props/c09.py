"""C09 -- optimisation passes and numeric build variants preserve program meaning (DESIGN.md section 3, C09).

A C09 violation is a DIFFERENCE BETWEEN BUILDS on the same program text:
 (a) `plain` (default flags) vs `nosimp` (-DSEXP_USE_SIMPLIFY=0) on programs aimed at what simplify.c does:
     folding of + - * / quotient remainder on literal operands, propagation of let-bound immediates / quoted
     literals (blocked by set!), literal tests selecting a branch, dropping of literal / variable / lambda
     statements in non-tail sequence positions, elision of unused rest parameters -- plus C03's capture
     patterns, call protocols and typed random programs with constants injected.
     Where the program is inside the C03 interpreter's domain the interpreter says WHICH side is wrong.
 (b) `plain` (native 128-bit arithmetic) vs `cll` (-DSEXP_USE_CUSTOM_LONG_LONGS=1, struct emulation in
     include/chibi/bignum.h) on C04's (and C17's) complete case generators; the model (Python int) says which
     side is wrong.  Model failures common to both builds are C04/C17 findings and are not reported here.
"""
import random

from .. import build as B
from .. import cases as C
from .. import report as REP
from . import c03
from . import c03_gen as G
from . import c03_ref as M

# error outcome with the message text: the two builds run the same library code, so even messages must agree
HEADER = c03.HEADER.replace("(lambda (e) (k (cons 'err (%class e))))",
                            "(lambda (e) (k (append (cons 'err (%class e)) (list (%msg e)))))") + r"""
(define (%msg e) (if (error-object? e) (list (error-object-message e) (%norm (error-object-irritants e))) 'non-error))
"""

# ------------------------------------------------------------------------------------------ fold-aimed programs
CONSTS = ["0", "1", "-1", "2", "3", "7", "-3", "10", "4611686018427387903", "-4611686018427387904", "3037000500",
          "#t", "#f", "#\\a", "'a", "'()", "\"s\"", "1/2", "100000000000000000000"]
# no inexact zero: (quotient 1 0.) is "an error" in R7RS and dies with SIGFPE on every build (a C01 matter, not a
# difference between builds)
FLO = ["2.5", "-0.5", "1e300"]
FOLD_OPS = ["+", "-", "*", "/", "quotient", "remainder"]
OTHER_OPS = ["<", "=", "car", "vector-ref", "string-length", "char->integer", "not", "eq?", "length", "cons", "abs",
             "modulo", "expt", "exact->inexact"]

CONTEXTS = [
    ("bare", "%s"),
    ("let-body", "(let ((v 3)) (list v %s))"),
    ("if-test", "(if %s 'yes 'no)"),
    ("seq-nontail", "(begin %s (log! 'after) 'done)"),
    ("let-init-set", "(let ((a %s)) (set! a (list a)) a)"),
    ("thunk-called", "((lambda () %s))"),
    ("thunk-not-called", "(list 'kept (lambda () %s))"),
    ("dead-branch", "(if #f %s 'skipped)"),
    ("after-propagation", "(let ((k 2)) (list k (+ k %s)))"),
    ("macro", "(let-syntax ((m (syntax-rules () ((_ e) (let ((t e)) (list t t)))))) (m %s))"),
    ("loop-step", "(do ((i 0 (+ i 1)) (acc '() (cons %s acc))) ((= i 2) acc))"),
    ("operand-of-call", "((lambda (p q) (list q p)) 'x %s)"),
    ("when-body", "(when (< 1 2) (log! 'in) %s)"),
]


def fold_expr(rng, depth=0):
    """-> (text, in_model) an application of a foldable (or similar) primitive to constants."""
    r = rng.random()
    if r < 0.75:
        op = rng.choice(FOLD_OPS)
        n = rng.choice([0, 1, 2, 2, 2, 2, 3]) if op in ("+", "-", "*", "/") else rng.choice([2, 2, 2, 1, 3])
        in_model = True
        args = []
        for _ in range(n):
            q = rng.random()
            if q < 0.15 and depth < 2:
                t, m = fold_expr(rng, depth + 1)
                in_model = in_model and m
                args.append(t)
            elif q < 0.2:
                args.append(rng.choice(FLO))
                in_model = False
            else:
                args.append(rng.choice(CONSTS))
        if op in ("-", "/") and n == 0:
            n = 1
            args = [rng.choice(CONSTS)]
        return "(%s%s)" % (op, "".join(" " + a for a in args)), in_model
    op = rng.choice(OTHER_OPS)
    a, b = rng.choice(CONSTS), rng.choice(CONSTS)
    if op == "car":
        return "(car %s)" % rng.choice(["5", "'()", "'(1 2)", "'a"]), True
    if op == "vector-ref":
        return "(vector-ref #(1 2) %s)" % rng.choice(["0", "1", "2", "-1"]), True
    if op == "string-length":
        return "(string-length %s)" % rng.choice(["\"abc\"", "\"\"", "5"]), True
    if op == "char->integer":
        return "(char->integer %s)" % rng.choice(["#\\a", "#\\space", "65"]), True
    if op == "not":
        return "(not %s)" % a, True
    if op == "eq?":
        return "(eq? %s %s)" % (rng.choice(["'a", "'()", "#t", "#f"]), rng.choice(["'a", "'()", "#t", "'b"])), True
    if op == "length":
        return "(length %s)" % rng.choice(["'(1 2 3)", "'()", "5"]), True
    if op == "cons":
        return "(cons %s %s)" % (a, b), True
    if op == "abs":
        return "(abs %s)" % rng.choice(["-5", "5", "-4611686018427387904", "'a"]), True
    if op == "modulo":
        return "(modulo %s %s)" % (rng.choice(["7", "-7", "0"]), rng.choice(["2", "-2", "0"])), True
    if op == "expt":
        return "(expt %s %s)" % (rng.choice(["2", "-3", "0"]), rng.choice(["0", "10", "62", "100"])), False
    if op == "exact->inexact":
        return "(exact->inexact %s)" % rng.choice(["1", "1/2", "100000000000000000000"]), False
    return "(%s %s %s)" % (op, a, b), True


KONST = [("fix", "5"), ("neg", "-1"), ("fixmax", "4611686018427387903"), ("true", "#t"), ("false", "#f"), ("char", "#\\a"),
         ("sym", "'sym"), ("nil", "'()"), ("qlist", "'(1 2)"), ("qvec", "'#(1 2)"), ("vec", "#(1 2)"), ("str", "\"str\""),
         ("flo", "1.5"), ("big", "100000000000000000000"), ("ratio", "1/2"), ("proc", "car"), ("zero", "0")]

LET_TEMPLATES = [
    ("read-twice", "(let ((a K)) (list a a))"),
    ("shadow-let", "(let ((a K)) (let ((a K2)) (list a)))"),
    ("shadow-middle", "(let ((a K)) (list a (let ((a K2)) a) a))"),
    ("set-body", "(let ((a K)) (set! a K2) a)"),
    ("read-set-read", "(let ((a K)) (let ((r a)) (set! a K2) (list r a)))"),
    ("set-in-closure", "(let ((a K)) ((lambda () (set! a K2))) a)"),
    ("closure-reads-after-set", "(let ((a K)) (let ((g (lambda () a))) (set! a K2) (g)))"),
    ("alias-source-assigned", "(let ((b K)) (let ((a b)) (set! b K2) (list a b)))"),
    ("alias-assigned", "(let ((b K)) (let ((a b)) (set! a K2) (list a b)))"),
    ("swap", "(let ((a K) (b K2)) (let ((a b) (b a)) (list a b)))"),
    ("let*-chain", "(let* ((a K) (b a) (c b)) (list a b c))"),
    ("param-define", "((lambda (a) (define c a) (set! c K2) (list a c)) K)"),
    ("shadow-param", "(let ((a K)) ((lambda (a) a) K2))"),
    ("named-let-rebinding", "(let ((a K)) (let lp ((a a) (n 0)) (if (< n 2) (lp (list a) (+ n 1)) a)))"),
    ("do-rebinding", "(let ((a K)) (do ((a a (list a)) (n 0 (+ n 1))) ((= n 2) a)))"),
    ("define-closure-set", "(let ((a K)) (define (f) a) (set! a K2) (f))"),
    ("macro-hygiene", "(let-syntax ((m (syntax-rules () ((_ v e) (let ((a K)) (let ((v e)) (list a v))))))) (m a K2))"),
    ("macro-set", "(let-syntax ((m (syntax-rules () ((_ v) (set! v K2))))) (let ((a K)) (m a) a))"),
    ("test-on-propagated", "(let ((a K)) (if a (begin (log! 'then) a) (begin (log! 'else) a)))"),
    ("identity", "(let ((a K)) (let ((b a)) (list (eq? a a) (eqv? a b))))"),
    ("set-after-use-in-closure", "(let ((a K)) (let ((g (lambda () (list a a)))) (let ((r1 (g))) (set! a K2) (list r1 (g)))))"),
    ("partly-assigned", "(let ((a K) (b K2)) (set! b (list a b)) (list a b))"),
    ("nested-same-name-set-inner", "(let ((a K)) (let ((r (let ((a K2)) (set! a (list a)) a))) (list a r)))"),
    ("nested-same-name-set-outer", "(let ((a K)) (let ((r (let ((a K2)) a))) (set! a (list a)) (list a r)))"),
    ("fold-after-propagation", "(let ((a 3) (b 4)) (let ((c (* a b))) (list K (+ c 1) (if (< a b) 'lt 'ge))))"),
    ("arg-count-mismatch-not-let", "((lambda (a . r) (list a r)) K K2)"),
    ("operator-lambda-toplevel", "((lambda (a) ((lambda (b) (list a b)) K2)) K)"),
]

TEST_TEMPLATES = [
    ("if-const", "(if K (log! 'then) (log! 'else))"),
    ("if-nested-const", "(if (if K #f #t) 'a 'b)"),
    ("if-not", "(if (not K) 'a 'b)"),
    ("cond", "(cond (K 'first) (K2 'second) (else 'third))"),
    ("cond=>", "(cond (K => (lambda (v) (list 'got v))) (else 'none))"),
    ("and", "(and K (begin (log! 'x) 'mid) K2)"),
    ("or", "(or K (begin (log! 'x) #f) K2)"),
    ("when", "(list 'r (when K (log! 'w) 'v))"),
    ("unless", "(list 'r (unless K (log! 'u) 'v))"),
    ("case", "(case K ((1 5) 'num) ((#t) 'true) ((sym) 'sym) ((#\\a) 'char) ((()) 'nil) (else 'other))"),
    ("dropped-branch-has-effect-in-test", "(if K2 (if (begin (log! 'inner-test) K) 1 2) 3)"),
    ("effect-then-const-test", "(if (begin (log! 'test) K) 'a 'b)"),
    ("seq-const-test", "(if (begin 1 2 K) (log! 'a) (log! 'b))"),
    ("let-const-test", "(if (let ((a K)) a) 'x 'y)"),
    ("test-both-arms-effects", "(begin (if K (log! 'p) (log! 'q)) (if K2 (log! 'r) (log! 's)) 'end)"),
    ("nested-if-in-arm", "(if K (if K2 (log! 'tt) (log! 'tf)) (if K2 (log! 'ft) (log! 'ff)))"),
    ("if-no-else", "(list 'r (if K 'only))"),
]

STATEMENTS = ["5", "'sym", "\"str\"", "x", "y", "(lambda () (log! 'never))", "(log! 1)", "(log! x)", "(set! x (+ x 1))",
              "(car 5)", "(vector-ref v 9)", "(quotient 1 0)", "(+ 1 2)", "(+ x 1)", "(begin 1 (log! 'inner) 2)",
              "(if #f #f)", "(if x (log! 'tx) 3)", "(let ((z 1)) z)", "(vector-set! v 0 x)", "#t", "'()", "(+ 'a 1)",
              "(list x y)", "(set! y (list x))", "(f)", "f"]
SEQ_WRAPS = [("begin", "(begin %s)"), ("lambda-body", "((lambda () %s))"), ("let-body", "(let ((w 0)) %s)"),
             ("when-body", "(when (< x 100) %s)"), ("do-body", "(do ((i 0 (+ i 1))) ((= i 2) (list x y)) %s)"),
             ("cond-body", "(cond ((< x 100) %s) (else 'no))"), ("define-body", "(let () (define (g) %s) (g))")]


class P9(c03.Prog):
    __slots__ = ("family", "site", "ctx", "in_model")


def mk(pid, family, site, ctx, main, in_model=True):
    p = P9(pid, ("c09", family, site, ctx), [], main, "fold")
    p.family, p.site, p.ctx, p.in_model = family, site, ctx, in_model
    return p


def fold_programs(rng, tier):
    out = []
    n = 0

    def add(family, site, ctx, main, in_model=True):
        nonlocal n
        if "let-syntax" in main:
            in_model = False                      # the interpreter has no macros: build-vs-build only
        out.append(mk("f%d" % n, family, site, ctx, main, in_model))
        n += 1

    nfold = 2500 if tier == "quick" else 30000
    for _ in range(nfold):
        e, m = fold_expr(rng)
        ctxname, ctx = rng.choice(CONTEXTS)
        op = e[1:e.index(" ")] if " " in e else e[1:-1]
        add("fold", op, ctxname, ctx % e, m)
    for tname, t in LET_TEMPLATES:
        for kname, k in KONST:
            k2s = KONST if tier != "quick" else [rng.choice(KONST), rng.choice(KONST)]
            for k2name, k2 in k2s:
                if tname == "identity" and "flo" in (kname, k2name):
                    continue                     # eq? on numbers outside the interpreter: nothing prescribed
                main = t.replace("K2", "\x00").replace("K", k).replace("\x00", k2)
                add("let-const", tname, kname, main, not any(x in ("flo",) for x in (kname, k2name)))
    for tname, t in TEST_TEMPLATES:
        for kname, k in KONST:
            for k2name, k2 in (("true", "#t"), ("false", "#f"), ("zero", "0")):
                if kname == "flo" and tname in ("when", "unless", "if-no-else"):
                    continue                     # may yield an unspecified value the interpreter cannot mask
                main = t.replace("K2", "\x00").replace("K", k).replace("\x00", k2)
                add("const-test", tname, kname, main, kname != "flo")
    nseq = 1200 if tier == "quick" else 15000
    for _ in range(nseq):
        k = rng.randrange(1, 6)
        stmts = [rng.choice(STATEMENTS) for _ in range(k)]
        wname, w = rng.choice(SEQ_WRAPS)
        body = w % " ".join(stmts)
        kinds = "+".join(sorted({("raise" if s in ("(car 5)", "(vector-ref v 9)", "(quotient 1 0)", "(+ 'a 1)") else
                                  "effect" if ("log!" in s or "set!" in s or s == "(f)") else "value") for s in stmts[:-1]}))
        main = ("(let ((x 1) (y 2) (v (vector 0 0)) (f (lambda () (log! 'f) 'fv))) (let ((r %s)) (list r x y v)))" % body)
        add("statements", wname, kinds or "single", main)
    return out


def simplify_programs(tier, seed):
    rng = random.Random(seed * 9176 + 9)
    progs = fold_programs(rng, tier)
    c3 = c03.make_programs(tier, seed + 77, errors=0.03, consts=0.3,
                           n_random=(3000 if tier == "quick" else 50000), pattern_variants=1)
    for p in c3:
        p.id = "c" + p.id
    return progs + c3


def sig_of(p):
    if p.kind == "fold":
        return {"part": "simplify", "family": p.family, "site": p.site, "ctx": p.ctx}
    s = c03.vsig(p, "x")
    s.pop("mode", None)
    s.update(part="simplify", family=p.kind)
    return s


def ensure_same_tree(*variants):
    """All variants built from the SAME tree hash (the tree may be edited while a check runs: comparing builds of
    two different trees would report their source difference as a violation)."""
    for _ in range(4):
        bs = [B.ensure(v) for v in variants]
        if len({b.hash for b in bs}) == 1:
            return bs
    raise B.HarnessError("the tree under test keeps changing while variant builds are made; run again")


def check_simplify(rep, tier, seed):
    plain, nosimp = ensure_same_tree("plain", "nosimp")
    rep.builds.update(["plain", "nosimp"])
    progs = simplify_programs(tier, seed)
    exps = c03.expected_many([p.model_text() for p in progs])
    for p, e in zip(progs, exps):
        p.exp = e if (e[0] == "ok" and getattr(p, "in_model", True)) else None
        if e[0] != "ok":
            rep.count("model_" + e[0].replace("-", "_"))
    # programs the interpreter rejects as having no R7RS-prescribed outcome are not compared at all;
    # programs merely outside the interpreter's vocabulary (flonums, expt ...) are compared build-vs-build only
    todo = [p for p, e in zip(progs, exps) if e[0] == "ok" or (e[0] != "ok" and not getattr(p, "in_model", True)
                                                              and e[0] not in ("order-sensitive", "budget"))]
    r1, procs1 = c03.run_on(plain, todo, header=HEADER)
    r2, procs2 = c03.run_on(nosimp, todo, header=HEADER)
    # a process death is blamed on the last announced case, which is off by one when the death happens while the
    # NEXT form is being compiled (folding runs at compile time): re-run every affected case alone on both builds
    redo = [p for p in todo if any(r.get(p.id) is None or r[p.id].status in ("crash", "missing") for r in (r1, r2))]
    if redo:
        rep.extra["rerun_alone"] = len(redo)
        for build, r in ((plain, r1), (nosimp, r2)):
            rr, _ = C.run_batches(build, c03.IMPORTS, HEADER, [(p.id, p.case_text()) for p in redo], batch=1,
                                  timeout=60, heap="16M/256M")
            r.update(rr)
    ndiff = 0
    for p in todo:
        a, b = r1.get(p.id), r2.get(p.id)
        rep.case(tuple(sorted(sig_of(p).items())))
        if a is None or b is None or a.status == "missing" or b.status == "missing":
            rep.inconc("no-output", p.id)
            continue
        if a.status == "timeout" or b.status == "timeout":
            rep.inconc("timeout", p.model_text()[:200])
            continue
        ta = a.text.strip() if a.status == "ok" else "<%s>" % a.status
        tb = b.text.strip() if b.status == "ok" else "<%s>" % b.status
        if ta == tb:
            if a.status != "ok":
                rep.count("crash_on_both_builds")
                rep.extra.setdefault("crash_on_both_examples", [])
                if len(rep.extra["crash_on_both_examples"]) < 5:
                    rep.extra["crash_on_both_examples"].append(p.model_text()[:300])
            elif p.exp is not None:
                rep.count("builds_agree_and_match_interpreter" if agrees(p, a) else "builds_agree_interpreter_stricter(ill-typed operands)")
                if not agrees(p, a):
                    rep.extra.setdefault("interpreter_stricter_examples", [])
                    if len(rep.extra["interpreter_stricter_examples"]) < 5:
                        rep.extra["interpreter_stricter_examples"].append({"program": p.model_text()[:500], "observed": ta[:300],
                                                                  "expected": M.show_obs(p.exp[2])})
            continue
        wrong = "unknown"
        if p.exp is not None:
            ga, gb = agrees(p, a), agrees(p, b)
            if ga and gb:
                rep.count("differences_only_in_unspecified_values")      # both are outcomes R7RS allows
                continue
            wrong = "plain" if (gb and not ga) else "nosimp" if (ga and not gb) else "both" if not (ga or gb) else "unknown"
        ndiff += 1
        mode = "crash" if "<crash>" in (ta, tb) else "output-differs"
        sig = sig_of(p)
        sig.update(mode=mode, wrong=wrong)
        wit = {"program": p.model_text(), "tops": p.tops, "main": p.main, "plain": ta[:800], "nosimp": tb[:800],
               "interpreter": (M.show_obs(("list", p.exp[1], None)) + " " + M.show_obs(p.exp[2])) if p.exp else None,
               "detail": a.detail if a.status == "crash" else (b.detail if b.status == "crash" else None)}
        rep.violation(sig, wit)
    rep.extra["simplify_programs"] = len(todo)
    rep.extra["simplify_differences"] = ndiff
    for fam in ("fold", "let-const", "const-test", "statements"):
        rep.extra["programs_" + fam] = sum(1 for p in todo if getattr(p, "family", None) == fam)
    rep.extra["programs_c03_reused"] = sum(1 for p in todo if p.kind != "fold")
    for p in [q for q in todo if q.kind == "fold"][:4] + [q for q in todo if q.kind != "fold"][:2]:
        rep.sample({"program": p.model_text()[:500], "plain": r1[p.id].text.strip()[:300] if p.id in r1 else None,
                    "nosimp": r2[p.id].text.strip()[:300] if p.id in r2 else None})


def agrees(p, res):
    """Does this build's observation agree with the interpreter (error message text ignored)?"""
    if res.status != "ok":
        return False
    try:
        data = res.data()
        if len(data) != 2:
            return False
        trace, outcome = c03.from_sexpr(data[0]), c03.from_sexpr(data[1])
    except Exception:
        return False
    # strip the appended message element of an error outcome
    if outcome[0] == "list" and outcome[1] and outcome[1][0] == ("sym", "err"):
        outcome = ("list", outcome[1][:-1], None)
    return c03.match(("list", p.exp[1], None), trace) and c03.match(p.exp[2], outcome)


# ------------------------------------------------------------------------------------------ (b) cll vs plain
def numeric_sources(rep):
    from . import c04
    srcs = [("C04", c04)]
    try:
        from . import c17
        if all(hasattr(c17, a) for a in ("case_stream", "judge", "IMPORTS", "case_sig")):
            srcs.append(("C17", c17))
        else:
            rep.inconc("c17-module-has-no-reusable-case-stream", None)
    except ImportError:
        rep.inconc("c17-module-absent", None)
    return srcs


def check_cll(rep, tier, seed):
    plain, cll = ensure_same_tree("plain", "cll")
    rep.builds.update(["plain", "cll"])
    for name, mod in numeric_sources(rep):
        rng = random.Random(seed * 7919 + 4)              # the same stream the property's own check uses
        n = 20000 if tier == "quick" else 150000
        if tier == "quick":
            cs = list(mod.case_stream(rng, "quick", n))
        else:
            # the property's complete thorough stream (random mix + lattice cross product), strided down to a bounded
            # number of cases beyond the first n so that two builds fit the time budget
            cs, extra = [], []
            for i, c in enumerate(mod.case_stream(rng, "thorough", n)):
                (cs if i < n else extra).append(c)
            stride = max(1, len(extra) // 250000)
            cs += extra[::stride]
            rep.extra["cll_thorough_stride_" + name] = stride
        header = getattr(mod, "HEADER", "")
        # stage 1: a probe of 2000 cases in small files with a short timeout; a build that is broken outright
        # (many differences / hangs) is reported from the probe alone instead of multiplying per-file timeouts
        ra, rb = {}, {}
        probe = cs[:2000]
        for build, r in ((plain, ra), (cll, rb)):
            rr, _ = C.run_batches(build, mod.IMPORTS, header, [(c["id"], c["form"]) for c in probe], batch=250,
                                  timeout=60, heap="64M/512M")
            r.update(rr)
        bad = sum(1 for c in probe if ra.get(c["id"]) is None or rb.get(c["id"]) is None
                  or ra[c["id"]].status != "ok" or rb[c["id"]].status != "ok" or ra[c["id"]].text != rb[c["id"]].text)
        if bad > 40:
            rep.extra["cll_stopped_after_probe_" + name] = bad
            cs = probe
        else:
            forms = [(c["id"], c["form"]) for c in cs[2000:]]
            for build, r in ((plain, ra), (cll, rb)):
                rr, _ = C.run_batches(build, mod.IMPORTS, header, forms, batch=1000, timeout=120, heap="64M/512M")
                r.update(rr)
        ndiff = 0
        for c in cs:
            a, b = ra.get(c["id"]), rb.get(c["id"])
            s = mod.case_sig(c)
            rep.case(("cll", name) + tuple(s))
            if a is None or b is None or "missing" in (a.status, b.status):
                rep.inconc("no-output", c["id"])
                continue
            if "timeout" in (a.status, b.status):
                rep.inconc("timeout", c["form"][:200])
                continue
            ta = a.text.strip() if a.status == "ok" else "<%s>" % a.status
            tb = b.text.strip() if b.status == "ok" else "<%s>" % b.status
            if ta == tb:
                continue
            ndiff += 1
            da, db = REP.Report(name, "x", 0), REP.Report(name, "x", 0)
            mod.judge(da, c, a)
            mod.judge(db, c, b)
            wa, wb = bool(da.violations), bool(db.violations)
            wrong = "cll" if (wb and not wa) else "plain" if (wa and not wb) else "both" if (wa and wb) else "unknown"
            sig = {"part": "cll", "source": name, "op": c.get("op"), "classes": "/".join(str(x) for x in s[1:]),
                   "mode": "crash" if "<crash>" in (ta, tb) else "output-differs", "wrong": wrong}
            rep.violation(sig, {"form": c["form"], "imports": mod.IMPORTS, "header": header,
                                "expected": repr(c.get("expect")), "plain": ta[:600], "cll": tb[:600]})
        rep.extra["cll_cases_" + name] = len(cs)
        rep.extra["cll_differences_" + name] = ndiff
        for c in cs[:3]:
            rep.sample({"form": c["form"][:400], "plain": ra[c["id"]].text.strip()[:200] if c["id"] in ra else None,
                        "cll": rb[c["id"]].text.strip()[:200] if c["id"] in rb else None})


def check(rep, tier, seed):
    import os
    part = os.environ.get("VERIF_C09_PART", "all")        # development aid: run only `simplify` or only `cll`
    if part in ("all", "simplify"):
        check_simplify(rep, tier, seed)
    if part in ("all", "cll"):
        check_cll(rep, tier, seed)
    rep.extra["parts_run"] = part
    rep.rule = ("(a) seeded programs aimed at simplify.c: applications of + - * / quotient remainder (and similar pure "
                "primitives) to literal operands incl. fixnum-overflowing, dividing by zero and ill-typed, placed in 13 "
                "contexts; 27 let-constant templates (shadowing, set! in body / closure / after use, aliases, macros) x 17 "
                "constant kinds; 17 constant-test templates; random statement sequences (value-only / effectful / raising) in "
                "7 sequence positions; plus C03's capture patterns, call protocols (incl. every use position of a rest "
                "parameter) and typed random programs with foldable constants injected -- each run on `plain` and `nosimp`, "
                "outputs compared textually; (b) C04's (and C17's when present) case stream run on `plain` and `cll`, outputs "
                "compared case by case.  distinct = (family, template/op, context/constant kind) resp. (operation, operand "
                "classes); only build-vs-build differences are violations")
    rep.assumptions = ["both builds of one tree run the same Scheme libraries, so equal programs must print equal text",
                       "the C03 interpreter / Python int arithmetic decide only which side of a difference is wrong"]


def replay(path):
    """./check C09 --replay <file>: re-run the witnesses on both builds of the pair and print the two outputs."""
    import json
    d = json.load(open(path))
    part = d.get("signature", {}).get("part")
    other = "nosimp" if part == "simplify" else "cll"
    plain, ob = B.ensure("plain"), B.ensure(other)
    bad = 0
    for i, w in enumerate(d.get("witnesses", [])):
        if part == "simplify":
            p = c03.Prog("w%d" % i, ("replay",), w.get("tops", []), w["main"], "replay")
            imports, header, case = c03.IMPORTS, HEADER, (p.id, p.case_text())
            print("program:", p.model_text())
        else:
            imports, header = w["imports"], w.get("header", "")
            case = ("w%d" % i, w["form"].replace(w["form"].split()[1], "w%d" % i, 1))
            print("form   :", w["form"])
        outs = []
        for b in (plain, ob):
            res, _ = C.run_batches(b, imports, header, [case], batch=1, timeout=60)
            r = res.get(case[0])
            outs.append(r.text.strip() if r is not None and r.status == "ok" else "<%s>" % (r.status if r else "none"))
        print("plain  :", outs[0])
        print("%-7s:" % other, outs[1])
        if outs[0] != outs[1]:
            bad += 1
            print("=> the builds still differ")
        else:
            print("=> the builds agree now")
    return 1 if bad else 0
