"""C13 -- independent contexts are isolated and can run in parallel OS threads (DESIGN.md 3, C13).

(1) ThreadSanitizer build: native/mtctx.c starts 2-16 pthreads, each creating its own root context,
    loading the standard environment and a mix of libraries (C-backed ones included), running a
    workload with collections and destroying the context.  Refuting events: a TSan report with stacks
    in interpreter/library code; a per-thread result different from the single-thread result.
(2) Isolation probing on the asan-rz build, one OS thread, contexts interleaved: definitions,
    interned symbols, record types, parameters made in context A are not observable in B; destroying
    A leaves B working.
"""
import os
import random
import re
import shutil

from .. import build as B
from .. import run as R

WORKLOADS = [
    ("hash+srfi1", "(import (scheme base) (srfi 1) (srfi 69)) (let ((ht (make-hash-table))) (do ((i 0 (+ i 1))) ((= i 8000)) (hash-table-set! ht i (iota 5))) (hash-table-size ht))"),
    ("time+sort", "(import (scheme base) (scheme time) (srfi 1) (srfi 95)) (begin (current-jiffy) (current-second) (length (sort (map (lambda (i) (modulo (* i 7919) 1009)) (iota 8000)) <)))"),
    ("bits+random", "(import (scheme base) (srfi 151) (srfi 27) (chibi string)) (begin (random-integer 10) (let lp ((i 0) (acc 0)) (if (= i 8000) acc (lp (+ i 1) (bitwise-xor acc (arithmetic-shift i (modulo i 50)))))))"),
    ("json+weak+char", "(import (scheme base) (chibi json) (scheme char) (chibi weak)) (let lp ((i 0) (acc '())) (if (= i 8000) (list (length acc) (string->json \"[1,2,{\\\"a\\\":null}]\")) (lp (+ i 1) (if (zero? (modulo i 100)) '() (cons (make-string 10 #\\a) acc)))))"),
    ("bignum+gc", "(import (scheme base) (only (chibi ast) gc)) (let lp ((i 0) (acc 1)) (if (= i 300) (begin (gc) (modulo acc 1000007)) (lp (+ i 1) (* acc (+ i 12345678901234567890)))))"),
    ("records+strings", "(import (scheme base) (srfi 130) (scheme write)) (begin (define-record-type point (make-point x y) point? (x px) (y py)) (let lp ((i 0) (acc 0)) (if (= i 5000) (list acc (let ((o (open-output-string))) (write (make-string 3 (integer->char 955)) o) (get-output-string o))) (lp (+ i 1) (+ acc (px (make-point i i)))))))"),
    ("threads-inside", "(import (scheme base) (srfi 18)) (let* ((m (make-mutex)) (c 0) (ts (map (lambda (k) (thread-start! (make-thread (lambda () (do ((i 0 (+ i 1))) ((= i 200)) (mutex-lock! m) (set! c (+ c 1)) (mutex-unlock! m)) k)))) '(1 2 3)))) (list (map thread-join! ts) c))"),
    ("filesystem+io", "(import (scheme base) (chibi filesystem) (chibi io) (scheme file)) (list (file-exists? \"/\") (string-length (read-string 5 (open-input-string \"hello world\"))) (file-directory? \"/tmp\"))"),
    ("regexp+iset", "(import (scheme base) (chibi regexp) (chibi iset)) (list (regexp-matches? '(+ (or \"ab\" \"c\")) \"abcab\") (iset-contains? (iset 1 2 1000000) 1000000))"),
]
# (chibi process) initialises process-wide signal tables on load: kept as its own workload so that its reports
# carry their own signature
SIGNAL_WORKLOAD = ("process-lib", "(import (scheme base) (chibi process)) (current-process-id)")

FRAME = re.compile(r"^\s*#(\d+)\s+(\S+)\s")


def tsan_reports(err):
    """-> list of (kind, [top frames of each stack])"""
    out = []
    blocks = err.split("WARNING: ThreadSanitizer: ")[1:]
    for blk in blocks:
        kind = blk.split("\n", 1)[0].split("(pid")[0].strip()
        stacks = []
        cur = None
        for line in blk.split("\n")[1:]:
            if re.match(r"^\s+(Write|Read|Previous|Atomic|Mutex|Location|Thread)", line) or line.strip().startswith("Previous"):
                cur = []
                stacks.append(cur)
                continue
            m = FRAME.match(line)
            if m and cur is not None:
                cur.append(m.group(2))
            if line.startswith("SUMMARY"):
                break
        tops = []
        for st in stacks[:2]:
            fr = [f for f in st if not f.startswith("__") and f not in ("memcpy", "memset", "malloc", "free", "calloc")]
            tops.append(fr[0] if fr else (st[0] if st else "?"))
        out.append((kind, tops, blk[:1800]))
    return out


ISO_SCRIPT = [
    ("A", "(import (scheme base) (srfi 9) (srfi 39) (srfi 69))"),
    ("B", "(import (scheme base) (srfi 69) (srfi 9) (srfi 39))"),
    ("A", "(define secret-a 'only-in-a)"),
    ("A", "(define-record-type thing (make-thing x) thing? (x thing-x))"),
    ("A", "(define a-thing (make-thing 1))"),
    ("A", "(define p (make-parameter 10))"),
    ("A", "(string->symbol \"a-very-long-symbol-name-interned-only-in-context-a-0123456789\")"),
    ("A", "(define ht (make-hash-table)) (hash-table-set! ht 'k 'v)"),
    ("B", "secret-a"),                          # expect ERROR (undefined variable)
    ("B", "(define-record-type other (make-other y z) other? (y other-y) (z other-z))"),
    ("B", "(define-record-type thing (make-thing x w) thing? (x thing-x) (w thing-w))"),
    ("B", "(list (other? (make-other 1 2)) (thing? (make-thing 1 2)) (thing-w (make-thing 1 2)) (other? (make-thing 1 2)))"),
    ("A", "(list (thing? a-thing) (thing-x a-thing))"),
    ("B", "p"),                                 # expect ERROR
    ("B", "(define p (make-parameter 20))"),
    ("A", "(parameterize ((p 11)) (p))"),
    ("B", "(parameterize ((p 21)) (list (p)))"),
    ("B", "(p)"),
    ("A", "(p)"),
    ("B", "(let ((t (make-hash-table))) (hash-table-set! t 'k 'w) (hash-table-ref/default t 'k #f))"),
    ("A", "(hash-table-ref/default ht 'k #f)"),
    ("B", "(define (fact n) (if (= n 0) 1 (* n (fact (- n 1))))) (fact 30)"),
    ("C", "(import (scheme base)) (define secret-c 3) secret-c"),
    ("!A", None),
    ("B", "(fact 25)"),
    ("B", "(list (other? (make-other 1 2)) (thing-x (make-thing 7 8)) (p))"),
    ("B", "(let lp ((i 0) (acc '())) (if (= i 20000) (length acc) (lp (+ i 1) (cons (make-string 20 #\\b) acc))))"),
    ("C", "secret-c"),
    ("C", "secret-a"),                          # expect ERROR
    ("D", "(import (scheme base) (srfi 9)) (define-record-type thing (make-thing q) thing? (q thing-q)) (thing-q (make-thing 5))"),
    ("!C", None),
    ("B", "(fact 20)"),
    ("D", "(thing? (make-thing 1))"),
]
ISO_EXPECT = {
    8: "ERROR", 11: "(#t #t 2 #f)", 12: "(#t 1)", 13: "ERROR", 15: "11", 16: "(21)", 17: "20", 18: "10", 19: "w",
    20: "v", 21: "265252859812191058636308480000000", 22: "3", 24: "15511210043330985984000000", 25: "(#t 7 20)",
    26: "20000", 27: "3", 28: "ERROR", 29: "5", 31: "2432902008176640000", 32: "#t",
}


def check(rep, tier, seed):
    rng = random.Random(seed * 32452843 + 13)
    bt = B.ensure("tsan")
    ba = B.ensure("asan-rz")
    rep.builds.update(["tsan", "asan-rz"])
    exe = bt.native("mtctx")
    d = R.scratch_dir("c13")
    wl = list(WORKLOADS)
    wfile = os.path.join(d, "workloads.txt")
    with open(wfile, "w") as fh:
        for _, text in wl:
            fh.write(text.replace("\n", " ") + "\n")
    sfile = os.path.join(d, "workloads-signal.txt")
    with open(sfile, "w") as fh:
        fh.write(SIGNAL_WORKLOAD[1] + "\n" + wl[0][1] + "\n")
    env = {"CHIBI_MODULE_PATH": os.path.join(bt.bdir, "lib") + ":" + os.path.join(bt.src, "lib")}

    # single-thread reference results
    ref = {}
    r = R.run(bt, None, raw_cmd=[exe, "threads", "1", wfile, "0"], env_extra=env, timeout=300)
    # with one thread only workload 0 runs; get each workload's reference separately
    for k, (name, text) in enumerate(wl):
        f1 = os.path.join(d, "w%d.txt" % k)
        with open(f1, "w") as fh:
            fh.write(text + "\n")

    def ref_one(k):
        rr = R.run(bt, None, raw_cmd=[exe, "threads", "1", os.path.join(d, "w%d.txt" % k), "0"], env_extra=env, timeout=300)
        return k, rr

    for k, rr in R.pmap(ref_one, range(len(wl))):
        line = rr.out.strip().split("\n")[0] if rr.out.strip() else ""
        ref[k] = line.split("\t", 1)[1] if "\t" in line else None
        if ref[k] is None or ref[k].startswith("ERROR") or rr.rc not in (0,):
            raise B.HarnessError("reference run of workload %s failed: %r %s" % (wl[k][0], rr.out[:200], rr.err[-400:]))

    reps = 6 if tier == "quick" else 120
    jobs = []
    for i in range(reps):
        n = [8, 2, 16, 4, 12, 3][i % 6]
        jobs.append((n, wfile, rng.randrange(1, 10 ** 9), "mixed"))
    for i in range(2 if tier == "quick" else 20):
        jobs.append(([4, 8][i % 2], sfile, rng.randrange(1, 10 ** 9), "signal-lib"))

    def run_job(j):
        n, wf, s, fam = j
        return j, R.run(bt, None, raw_cmd=[exe, "threads", str(n), wf, str(s)], env_extra=env, timeout=600)

    thread_runs = 0
    seen_reports = {}
    for (n, wf, s, fam), r in R.pmap(run_job, jobs, jobs=4):
        rep.case(("threads", n, fam))
        if r.timed_out:
            rep.inconc("timeout", "threads %d" % n)
            continue
        thread_runs += n
        for kind, tops, text in tsan_reports(r.err):
            tops = sorted(set(t for t in tops if t != "?")) or ["?"]
            key = (kind, tuple(tops))
            if key in seen_reports:
                seen_reports[key][0] += 1
                continue
            seen_reports[key] = [1, text, fam, n, s]
        if fam == "mixed":
            for line in r.out.strip().split("\n"):
                if "\t" not in line:
                    continue
                tid, val = line.split("\t", 1)
                k = int(tid) % len(wl)
                if val != ref[k]:
                    rep.violation({"check": "result-differs-from-single-thread", "workload": wl[k][0]},
                                  {"threads": n, "seed": s, "thread": tid, "got": val[:300], "expected": ref[k][:300]})
        if r.crashed or (r.rc not in (0, 66)):
            rep.violation({"check": "crash", "family": fam, "how": r.describe()}, {"threads": n, "seed": s, "stderr": r.err[-1500:]})
    for (kind, tops), (cnt, text, fam, n, s) in seen_reports.items():
        rep.violation({"check": "tsan", "kind": kind, "frames": list(tops), "family": fam},
                      {"occurrences": cnt, "report": text, "threads": n, "seed": s})
    rep.extra.update(thread_runs=thread_runs, tsan_distinct_reports=len(seen_reports), workloads=[w[0] for w in wl],
                     libraries_loaded_concurrently=["srfi 1", "srfi 9", "srfi 18", "srfi 27", "srfi 69", "srfi 95", "srfi 130", "srfi 151",
                                                    "scheme time", "chibi json", "chibi weak", "chibi string", "chibi filesystem",
                                                    "chibi io", "chibi regexp", "chibi iset", "chibi ast", "chibi process"])

    # ---- isolation probing (asan-rz, one OS thread) ----
    exe_a = ba.native("mtctx")
    script = os.path.join(d, "iso.txt")
    with open(script, "w") as fh:
        for c, text in ISO_SCRIPT:
            fh.write((c + "\n") if text is None else ("%s\t%s\n" % (c, text)))
    env_a = {"CHIBI_MODULE_PATH": os.path.join(ba.bdir, "lib") + ":" + os.path.join(ba.src, "lib")}
    r = R.run(ba, None, raw_cmd=[exe_a, "iso", script], env_extra=env_a, timeout=300)
    san = r.sanitizer_report()
    if san or r.crashed:
        rep.violation({"check": "isolation", "mode": "asan" if san else "crash", "frames": (san or {}).get("frames", [])[:2]},
                      {"sanitizer": san, "stderr": r.err[-2000:]})
    got = {}
    for line in r.out.split("\n"):
        if "\t" in line:
            i, v = line.split("\t", 1)
            got[int(i)] = v
    probes = 0
    for i, want in ISO_EXPECT.items():
        probes += 1
        rep.case(("iso", i))
        v = got.get(i)
        ok = v is not None and (v.startswith("ERROR") if want == "ERROR" else v == want)
        if not ok:
            rep.violation({"check": "isolation", "mode": "probe-mismatch", "line": i},
                          {"script_line": ISO_SCRIPT[i], "expected": want, "got": v})
    rep.extra["cross_context_probes"] = probes
    rep.sample({"threads": 8, "workload": wl[0][1][:200], "reference": ref[0]})
    rep.sample({"iso_script_excerpt": ISO_SCRIPT[8:14]})
    rep.rule = ("mtctx: N in {2,3,4,8,12,16} OS threads, each an independent root context running one of %d library-mix workloads "
                "under ThreadSanitizer, repeated with different start delays; every thread's result is compared with the "
                "single-thread result; plus a %d-line cross-context isolation script on the ASan build; distinct = (thread count, "
                "family) and script line" % (len(wl), len(ISO_SCRIPT)))
    rep.assumptions = ["ThreadSanitizer sees only the interleavings the OS produced while it watched",
                       "sexp_scheme_init() is called once on the main thread, as the manual requires"]
    shutil.rmtree(d, ignore_errors=True)
