"""C10 -- unreachable memory is recycled and the heap stays well-formed (DESIGN.md section 3, C10).

Two monitors:
 * H3 (guarded hook in gc.c): after every sweep the heap must be an exact tiling by live objects and
   free chunks, the free list sorted / in bounds / non-overlapping, every traced, weak or registered
   C-local reference the start of a live object.  Any HEAPCHECK-FAIL line is a violation.  Run over
   generated allocation/drop histories and over the existing test corpus.
 * recycling, decided on *non-free bytes* read at quiescent points through native/vmark.c
   (heap-counts): R1 after dropping everything and collecting, non-free bytes return to the baseline
   measured before the history started (+ tolerance); R2 at sampled points non-free bytes stay below
   1.5 x the generator's bound of reachable bytes + baseline; R3 the heap never exceeds
   16 x max(peak non-free bytes, initial heap).
"""
import random

from .. import build as B
from .. import cases as C
from .. import corpus
from .. import run as R
from ..sexpr import Sym

IMPORTS = ("(import (scheme base) (scheme cxr) (scheme write) (scheme process-context) (scheme load) (chibi ast) "
           "(srfi 69) (srfi 9))")

HEADER = r"""
(load "@VMARK@")
(define-record-type blob (make-blob a b c) blob? (a blob-a) (b blob-b) (c blob-c))
(define ring (make-vector 64 #f))
(define (nonfree) (let ((c (heap-counts))) (- (vector-ref c 0) (vector-ref c 1))))
(define (scrub n) (if (> n 0) (begin (vector-fill! (make-vector 8 n) 0) (scrub (- n 1))) 0))
(define (settle) (scrub 20) (gc) (scrub 20) (gc) (nonfree))
(define (make-obj kind n)
  (case kind
    ((pairs) (let lp ((i 0) (acc '())) (if (< i n) (lp (+ i 1) (cons i acc)) acc)))
    ((flo) (let lp ((i 0) (acc '())) (if (< i n) (lp (+ i 1) (cons (* i 1.5) acc)) acc)))
    ((vec) (make-vector n n))
    ((str) (make-string n #\a))
    ((ustr) (make-string n (integer->char 955)))
    ((bv) (make-bytevector n 7))
    ((big) (expt 3 n))
    ((rec) (let lp ((i 0) (acc '())) (if (< i n) (lp (+ i 1) (make-blob i acc #f)) acc)))
    ((clo) (let lp ((i 0) (acc (lambda () 0))) (if (< i n) (lp (+ i 1) (let ((k i) (prev acc)) (lambda () (+ k (prev))))) acc)))
    ((kont) (let ((v (make-vector n 1))) (call-with-current-continuation (lambda (k) (cons k v)))))
    ((port) (let ((p (open-output-string))) (write-string (make-string n #\x) p) p))
    ((table) (let ((t (make-hash-table eqv?))) (let lp ((i 0)) (if (< i n) (begin (hash-table-set! t i (* i i)) (lp (+ i 1))))) t))
    (else (error "kind" kind))))
(define (run-history id l0-slack ops)
  (vector-fill! ring #f)
  (let* ((l0 (settle)) (peak l0))
    (%obs (list 'base l0 (vector-ref (heap-counts) 0)))
    (for-each
     (lambda (op)
       (case (car op)
         ((a) (vector-set! ring (cadr op) (make-obj (caddr op) (cadddr op))))
         ((d) (vector-set! ring (cadr op) #f))
         ((s) (let ((nf (begin (scrub 20) (gc) (nonfree)))) (if (> nf peak) (set! peak nf))
                (%obs (list 's (cadr op) nf (vector-ref (heap-counts) 0)))))
         ((q) (vector-fill! ring #f)
              (let ((nf (settle))) (%obs (list 'q (cadr op) nf (vector-ref (heap-counts) 0)))))))
     ops)
    (%obs (list 'end peak (vector-ref (heap-counts) 0) (vector-ref (heap-counts) 2) (gc-count)))))
"""

# generous upper bounds of the bytes reachable from one object (used for R2 only, with 1.5x slack)
def obj_bytes(kind, n):
    if kind == "pairs":
        return 32 * n + 32
    if kind == "flo":
        return 64 * n + 32
    if kind == "vec":
        return 8 * n + 64
    if kind == "str":
        return n + 128
    if kind == "ustr":
        return 2 * n + 128
    if kind == "bv":
        return n + 64
    if kind == "big":
        return int(n * 1.585 / 8) + 128
    if kind == "rec":
        return 64 * n + 64
    if kind == "clo":
        return 160 * n + 128
    if kind == "kont":
        return 8 * n + 64 + 64 * 1024        # + copied stack
    if kind == "port":
        return 4 * n + 16 * 1024
    if kind == "table":
        return 160 * n + 1024
    raise ValueError(kind)


KINDS = ["pairs", "flo", "vec", "str", "ustr", "bv", "big", "rec", "clo", "kont", "port", "table"]
SIZES = {
    "pairs": [1, 5, 100, 3000], "flo": [1, 50, 2000], "vec": [0, 1, 3, 100, 5000, 100000],
    "str": [0, 1, 31, 32, 1000, 100000, 1000000], "ustr": [1, 100, 50000], "bv": [0, 1, 100, 65536, 1000000],
    "big": [50, 1000, 40000], "rec": [1, 100, 2000], "clo": [1, 50, 1000], "kont": [1, 1000],
    "port": [10, 5000, 200000], "table": [1, 100, 3000],
}
PATTERNS = ["fifo", "lifo", "random", "alternate", "burst"]


def gen_history(rng, nops, slots=64):
    pattern = rng.choice(PATTERNS)
    ops = []
    live = {}
    bound_at = {}
    order = []
    qn = sn = 0
    kinds = rng.sample(KINDS, rng.randrange(2, len(KINDS) + 1))
    big = rng.random() < 0.5
    total = 0
    biggest = 0
    for i in range(nops):
        r = rng.random()
        if r < 0.02:
            qn += 1
            ops.append(["q", qn])
            live.clear()
            order.clear()
            continue
        if r < 0.06:
            sn += 1
            ops.append(["s", sn])
            # + the largest single object allocated so far: one stale reference in a VM temporary (the last value an
            # opcode left in a register slot) may legitimately keep one dropped object alive a little longer
            bound_at[sn] = sum(live.values()) + biggest
            continue
        kind = rng.choice(kinds)
        sizes = SIZES[kind]
        n = rng.choice(sizes if big else sizes[:max(1, len(sizes) - 2)])
        if pattern == "alternate":
            n = sizes[0] if i % 2 else sizes[-1 if big else len(sizes) // 2]
        n = max(0, int(n * rng.uniform(0.5, 1.0))) if n > 8 else n
        if pattern == "fifo":
            slot = i % slots
        elif pattern == "lifo":
            slot = (slots - 1) - (i % 7) if order else 0
        elif pattern == "burst":
            slot = (i // 5 * 3 + i % 5) % slots
        else:
            slot = rng.randrange(slots)
        if rng.random() < 0.15 and live:
            slot = rng.choice(list(live))
            ops.append(["d", slot])
            live.pop(slot, None)
            continue
        ops.append(["a", slot, kind, n])
        live[slot] = obj_bytes(kind, n)
        biggest = max(biggest, live[slot])
        total += live[slot]
        order.append(slot)
    qn += 1
    ops.append(["q", qn])
    return {"pattern": pattern, "kinds": kinds, "ops": ops, "bounds": bound_at, "total": total, "big": big}


def ops_text(ops):
    out = []
    for op in ops:
        out.append("(" + " ".join(str(x) for x in op) + ")")
    return "(" + " ".join(out) + ")"


TOL_R1 = 96 * 1024        # grown stack, interned symbols, string-port buffers cached by the runtime
SLACK_R2 = 256 * 1024


def judge(rep, h, res, heap_init):
    sig = {"check": "recycling", "pattern": h["pattern"]}
    if res is None or res.status == "missing":
        rep.inconc("no-output", h["id"])
        return
    if res.status == "timeout":
        rep.inconc("timeout", h["id"])
        return
    if res.status == "crash":
        d = res.detail or {}
        if "out of memory" in (d.get("stderr") or ""):
            rep.violation(dict(sig, mode="heap-exhausted"), {"history": h["id"], "detail": d})
        else:
            rep.violation(dict(sig, mode="crash"), {"history": h["id"], "detail": d, "ops": ops_text(h["ops"])[:3000]})
        return
    try:
        data = res.data()
    except Exception:
        rep.violation(dict(sig, mode="unparsable-output"), {"text": res.text[:800]})
        return
    l0 = None
    peak = 0
    for d in data:
        if not isinstance(d, list) or not d:
            continue
        if d[0] == Sym("err"):
            # an error inside a history (e.g. out of memory) is not a recycling verdict by itself
            if "memory" in str(d):
                rep.violation(dict(sig, mode="heap-exhausted"), {"history": h["id"], "obs": str(d)})
            else:
                rep.inconc("history-error", str(d)[:200])
            return
        tag = str(d[0])
        if tag == "base":
            l0 = d[1]
        elif tag == "s":
            rep.count("sample_points")
            nf, heap = d[2], d[3]
            peak = max(peak, nf)
            bound = h["bounds"].get(d[1], 0)
            if l0 is not None and nf > 1.5 * bound + l0 + SLACK_R2:
                rep.violation(dict(sig, mode="R2-garbage-retained"),
                              {"history": h["id"], "sample": d[1], "nonfree": nf, "bound": bound, "baseline": l0,
                               "ops": ops_text(h["ops"])[:3000]})
                return
        elif tag == "q":
            rep.count("quiescent_points")
            nf = d[2]
            if l0 is not None and nf > l0 + TOL_R1:
                rep.violation(dict(sig, mode="R1-not-returned-to-baseline"),
                              {"history": h["id"], "quiescent": d[1], "nonfree": nf, "baseline": l0,
                               "excess": nf - l0, "ops": ops_text(h["ops"])[:3000]})
                return
        elif tag == "end":
            pk, heap, nheaps, gcs = d[1], d[2], d[3], d[4]
            rep.maxi("max_heap_bytes", heap)
            rep.maxi("max_peak_nonfree", pk)
            rep.maxi("max_heaps", nheaps)
            if heap > 16 * max(pk, heap_init, 1):
                rep.violation(dict(sig, mode="R3-runaway-heap-growth"),
                              {"history": h["id"], "heap": heap, "peak_nonfree": pk})
                return


def check(rep, tier, seed):
    rng = random.Random(seed * 104729 + 10)
    b = B.ensure("hooks")
    rep.builds.add("hooks")
    so = b.native("vmark")
    header = HEADER.replace("@VMARK@", so)
    nhist, nops = (48, 700) if tier == "quick" else (600, 1500)
    hists = []
    for i in range(nhist):
        h = gen_history(rng, nops)
        h["id"] = "h%d" % i
        hists.append(h)
    env = {"CHIBI_VERIF_HEAPCHECK": 1}
    heaps = ["64k/1G", "128k/1G", "300k/1G", "2M/1G"]

    def run_one(ih):
        i, h = ih
        heap = heaps[i % len(heaps)]
        form = "(%%case* %s (%%try (lambda () (run-history '%s 0 '%s))))" % (h["id"], h["id"], ops_text(h["ops"]))
        # %try result (err ...) must be visible: print it when the history raised
        form = ("(%%case* %s (let ((r (%%try (lambda () (run-history '%s 0 '%s))))) "
                "(if (and (pair? r) (eq? (car r) 'err)) (%%obs r))))" % (h["id"], h["id"], ops_text(h["ops"])))
        res, procs = C.run_file(b, IMPORTS, header, [(h["id"], form)], env_extra=env, timeout=90 if tier == "quick" else 240, heap=heap)
        return h, res.get(h["id"]), procs, heap

    hc_runs = hc_objs = hc_refs = 0
    for h, res, procs, heap in R.pmap(run_one, list(enumerate(hists))):
        init = {"64k": 65536, "128k": 131072, "300k": 307200, "2M": 2 << 20}[heap.split("/")[0]]
        rep.case(("history", h["pattern"], tuple(sorted(h["kinds"])), h["big"], heap))
        judge(rep, h, res, init)
        for p in procs:
            fails = p.log_lines("HEAPCHECK-FAIL")
            optxt = ops_text(h["ops"])[:3000] if fails else None
            for l in fails:
                rep.violation({"check": "heap-invariant", "mode": l.split()[1].replace("kind=", "")},
                              {"line": l, "history": h["id"], "ops": optxt})
            for d in p.log_kv("HEAPCHECK-SUMMARY"):
                hc_runs += d.get("runs", 0)
                hc_objs += d.get("objects", 0)
                hc_refs += d.get("refs", 0)
    for h in hists[:3]:
        rep.sample({"history": h["id"], "pattern": h["pattern"], "kinds": h["kinds"], "ops": ops_text(h["ops"])[:400] + " ..."})

    # H3 over the existing corpus
    tests = corpus.tests(b)
    if tier == "quick":
        keep = ("r7rs-tests", "division-tests", "syntax-tests", "unicode-tests", "r5rs-test", "lib_srfi_1_test",
                "lib_srfi_69_test", "lib_srfi_18_test", "lib_chibi_weak-test", "lib_srfi_146_test", "lib_chibi_io-test",
                "lib_srfi_95_test", "lib_chibi_string-test", "lib_srfi_151_test", "lib_chibi_json-test",
                "lib_srfi_133_test", "lib_chibi_regexp-test", "lib_srfi_160_test", "lib_chibi_iset-test")
        tests = [t for t in tests if t[0] in keep]

    def run_test(t):
        name, args = t
        return name, R.run(b, args, env_extra=env, timeout=150 if tier == "quick" else 600)

    for name, r in R.pmap(run_test, tests):
        rep.case(("corpus", name))
        if r.timed_out:
            rep.inconc("timeout", name)
        for l in r.log_lines("HEAPCHECK-FAIL"):
            rep.violation({"check": "heap-invariant", "mode": l.split()[1].replace("kind=", ""), "program": name},
                          {"line": l, "program": name})
        if r.crashed:
            rep.violation({"check": "corpus-crash", "program": name}, {"how": r.describe(), "stderr": r.err[-1500:]})
        for d in r.log_kv("HEAPCHECK-SUMMARY"):
            hc_runs += d.get("runs", 0)
            hc_objs += d.get("objects", 0)
            hc_refs += d.get("refs", 0)
    rep.extra.update(collections_checked=hc_runs, objects_checked=hc_objs, references_checked=hc_refs,
                     histories=len(hists), ops_per_history=nops, corpus_programs=len(tests))
    if hc_runs == 0:
        rep.inconc("heap-checker-never-ran", None)
        rep.min_nontrivial = 10 ** 9          # force harness failure: the monitor observed nothing
    rep.rule = ("allocation/drop histories generated from the seed (object kinds pairs/flonums/vectors/strings/bytevectors/"
                "bignums/records/closures/continuations/string ports/hash tables, sizes 0..1e6, replacement patterns fifo/lifo/"
                "random/alternate/burst, start heaps 64k..2M) + the existing test corpus, all with the heap-walk checker after "
                "every sweep; distinct = (pattern, kind set, size regime, start heap) for histories and program name for corpus")
    rep.assumptions = ["the heap checker (opt/verif-gc.c) and native/vmark.c read the heap structures correctly",
                       "recycling is decided on non-free bytes at quiescent points, not on heap size (growth is policy)"]
