"""C18 helper: per-library adapters from operation names to Python model operations.

An operation is a function op(h, rng) -> (name, scheme_code, expected_datum) | None (not applicable now).
It reads/updates the Python models h.m[0..3]; scheme_code refers to the live objects as o0..o3, may
(set! oK ...) and evaluates to the datum that is printed (ints, booleans inside lists, nested lists).
Elements are small integers with many duplicates.
"""
import collections
from fractions import Fraction

N = 4            # live objects per history
MAXLEN = 40


class Hist:
    def __init__(self, lib, rng):
        self.lib = lib
        self.m = []
        self.init_exprs = []
        self.sig_extra = {}       # extra signature fields for a violation at the current step
        for i in range(N):
            mv, ex = lib.init(rng, i)
            self.m.append(mv)
            self.init_exprs.append(ex)
        if hasattr(lib, "begin"):
            lib.begin(self, rng)


class Lib:
    name = ""
    imports = ""
    header = ""

    def __init__(self):
        self.ops = []

    def pick(self, rng):
        return rng.choice(self.ops)

    def canon(self, m):
        return list(m)

    def size(self, m):
        return len(m)


def ilist(xs):
    return "(list %s)" % " ".join(str(x) for x in xs) if xs else "(list)"


def qlist(xs):
    return "'(%s)" % " ".join(str(x) for x in xs)


def elem(rng):
    return rng.randrange(-3, 14)


def rnd_list(rng, maxn=12):
    return [elem(rng) for _ in range(rng.choice([0, 1, 2, 3, 5, 8, maxn]))]


def slot(rng):
    return rng.randrange(N)


# predicates / functions available both in Scheme and in Python
PREDS = [("even?", lambda x: x % 2 == 0), ("odd?", lambda x: x % 2 == 1),
         ("(lambda (x) (< x 4))", lambda x: x < 4), ("(lambda (x) (> x 6))", lambda x: x > 6),
         ("(lambda (x) (= 0 (modulo x 3)))", lambda x: x % 3 == 0), ("(lambda (x) #f)", lambda x: False),
         ("(lambda (x) #t)", lambda x: True), ("negative?", lambda x: x < 0)]
FUNS = [("(lambda (x) (+ x 1))", lambda x: x + 1), ("(lambda (x) (* x x))", lambda x: x * x),
        ("(lambda (x) (- 5 x))", lambda x: 5 - x), ("(lambda (x) (quotient x 2))", lambda x: int(x / 2) if x >= 0 else -((-x) // 2)),
        ("(lambda (x) (modulo x 4))", lambda x: x % 4)]


def cut(xs):
    return xs[:MAXLEN]


# ================================================================================================
# SRFI 1

class Srfi1(Lib):
    name = "srfi1"
    imports = "(import (scheme base) (scheme write) (scheme process-context) (srfi 1))"
    header = "(define (%canon x) x)\n(define (%cut x) (if (> (length x) 40) (take x 40) x))\n"

    def init(self, rng, i):
        xs = rnd_list(rng)
        return xs, ilist(xs)

    def __init__(self):
        Lib.__init__(self)
        o = self.ops

        def store(h, d, val, expr, name, obs=None):
            """dst slot d gets val; code stores (cut) and returns the stored list"""
            h.m[d] = cut(list(val))
            return name, "(begin (set! o%d (%%cut %s)) o%d)" % (d, expr, d), h.m[d]

        def unary(name, fexpr, fmodel, cond=None):
            def op(h, rng):
                a, d = slot(rng), slot(rng)
                if cond and not cond(h.m[a]):
                    return None
                return store(h, d, fmodel(h.m[a]), fexpr % {"a": "o%d" % a}, name)
            o.append(op)

        def binary(name, fexpr, fmodel):
            def op(h, rng):
                a, b, d = slot(rng), slot(rng), slot(rng)
                return store(h, d, fmodel(h.m[a], h.m[b]), fexpr % {"a": "o%d" % a, "b": "o%d" % b}, name)
            o.append(op)

        def observe(name, fexpr, fmodel, cond=None):
            def op(h, rng):
                a = slot(rng)
                if cond and not cond(h.m[a]):
                    return None
                return name, fexpr % {"a": "o%d" % a}, fmodel(h.m[a])
            o.append(op)

        def with_k(name, fexpr, fmodel, linear=False):
            def op(h, rng):
                a, d = slot(rng), slot(rng)
                k = rng.randrange(0, len(h.m[a]) + 1)
                src = "(list-copy o%d)" % a if linear else "o%d" % a
                return store(h, d, fmodel(h.m[a], k), fexpr % {"a": src, "k": k}, name)
            o.append(op)

        def with_x(name, fexpr, fmodel):
            def op(h, rng):
                a, d = slot(rng), slot(rng)
                x = elem(rng)
                return store(h, d, fmodel(h.m[a], x), fexpr % {"a": "o%d" % a, "x": x}, name)
            o.append(op)

        def with_pred(name, fexpr, fmodel, linear=False, obs=False):
            def op(h, rng):
                a, d = slot(rng), slot(rng)
                ps, pf = rng.choice(PREDS)
                src = "(list-copy o%d)" % a if linear else "o%d" % a
                if obs:
                    return name, fexpr % {"a": src, "p": ps}, fmodel(h.m[a], pf)
                return store(h, d, fmodel(h.m[a], pf), fexpr % {"a": src, "p": ps}, name)
            o.append(op)

        # constructors
        with_x("cons", "(cons %(x)d %(a)s)", lambda a, x: [x] + a)
        with_x("xcons", "(xcons %(a)s %(x)d)", lambda a, x: [x] + a)
        with_x("cons*", "(cons* %(x)d 7 %(a)s)", lambda a, x: [x, 7] + a)
        with_x("make-list", "(make-list (length %(a)s) %(x)d)", lambda a, x: [x] * len(a))
        unary("list-tabulate", "(list-tabulate (length %(a)s) (lambda (i) (- (* i i) 3)))", lambda a: [i * i - 3 for i in range(len(a))])
        unary("list-copy", "(list-copy %(a)s)", lambda a: a)
        with_x("iota", "(iota (length %(a)s) %(x)d 2)", lambda a, x: [x + 2 * i for i in range(len(a))])
        unary("iota1", "(iota (length %(a)s))", lambda a: list(range(len(a))))
        # selectors
        with_k("take", "(take %(a)s %(k)d)", lambda a, k: a[:k])
        with_k("drop", "(drop %(a)s %(k)d)", lambda a, k: a[k:])
        with_k("take-right", "(take-right %(a)s %(k)d)", lambda a, k: a[len(a) - k:])
        with_k("drop-right", "(drop-right %(a)s %(k)d)", lambda a, k: a[:len(a) - k])
        with_k("take!", "(take! %(a)s %(k)d)", lambda a, k: a[:k], linear=True)
        with_k("drop-right!", "(drop-right! %(a)s %(k)d)", lambda a, k: a[:len(a) - k], linear=True)

        def split_at(h, rng):
            a, d = slot(rng), slot(rng)
            k = rng.randrange(0, len(h.m[a]) + 1)
            bang = rng.random() < 0.4
            x, y = h.m[a][:k], h.m[a][k:]
            h.m[d] = cut(list(y))
            return ("split-at!" if bang else "split-at",
                    "(call-with-values (lambda () (%s %s %d)) (lambda (x y) (set! o%d (%%cut y)) (list x y)))"
                    % ("split-at!" if bang else "split-at", "(list-copy o%d)" % a if bang else "o%d" % a, k, d), [x, y])
        o.append(split_at)
        observe("last", "(last %(a)s)", lambda a: a[-1], cond=lambda a: len(a) > 0)
        observe("last-pair", "(last-pair %(a)s)", lambda a: [a[-1]], cond=lambda a: len(a) > 0)
        observe("first-third", "(list (first %(a)s) (second %(a)s) (third %(a)s))", lambda a: a[:3], cond=lambda a: len(a) >= 3)
        observe("fifth", "(list (fourth %(a)s) (fifth %(a)s))", lambda a: a[3:5], cond=lambda a: len(a) >= 5)
        observe("length+", "(length+ %(a)s)", lambda a: len(a))
        observe("car+cdr", "(call-with-values (lambda () (car+cdr %(a)s)) cons)", lambda a: a, cond=lambda a: len(a) > 0)
        # misc
        binary("append", "(append %(a)s %(b)s)", lambda a, b: a + b)
        binary("append3", "(append %(a)s %(b)s %(a)s)", lambda a, b: a + b + a)
        binary("append!", "(append! (list-copy %(a)s) (list-copy %(b)s))", lambda a, b: a + b)
        binary("concatenate", "(concatenate (list %(a)s %(b)s (list 1)))", lambda a, b: a + b + [1])
        binary("concatenate!", "(concatenate! (list (list-copy %(a)s) (list) (list-copy %(b)s)))", lambda a, b: a + b)
        unary("reverse", "(reverse %(a)s)", lambda a: a[::-1])
        unary("reverse!", "(reverse! (list-copy %(a)s))", lambda a: a[::-1])
        binary("append-reverse", "(append-reverse %(a)s %(b)s)", lambda a, b: a[::-1] + b)
        binary("append-reverse!", "(append-reverse! (list-copy %(a)s) (list-copy %(b)s))", lambda a, b: a[::-1] + b)

        def zip_(h, rng):
            a, b = slot(rng), slot(rng)
            return "zip", "(zip o%d o%d)" % (a, b), [[x, y] for x, y in zip(h.m[a], h.m[b])]
        o.append(zip_)

        def unzip2(h, rng):
            a, b = slot(rng), slot(rng)
            z = list(zip(h.m[a], h.m[b]))
            return ("unzip2", "(call-with-values (lambda () (unzip2 (zip o%d o%d))) list)" % (a, b),
                    [[x for x, _ in z], [y for _, y in z]])
        o.append(unzip2)
        with_pred("count", "(count %(p)s %(a)s)", lambda a, p: sum(1 for x in a if p(x)), obs=True)

        def count2(h, rng):
            a, b = slot(rng), slot(rng)
            return "count2", "(count < o%d o%d)" % (a, b), sum(1 for x, y in zip(h.m[a], h.m[b]) if x < y)
        o.append(count2)
        # folds
        unary("fold-cons", "(fold cons '() %(a)s)", lambda a: a[::-1])
        unary("fold-right-cons", "(fold-right cons '() %(a)s)", lambda a: a)

        def fold3(a):
            acc = 1
            for x in a:
                acc = x + 3 * acc
            return acc
        observe("fold", "(fold (lambda (x acc) (+ x (* 3 acc))) 1 %(a)s)", fold3)

        def foldr3(a):
            acc = 1
            for x in reversed(a):
                acc = x + 3 * acc
            return acc
        observe("fold-right", "(fold-right (lambda (x acc) (+ x (* 3 acc))) 1 %(a)s)", foldr3)

        def fold2(h, rng):
            a, b = slot(rng), slot(rng)
            acc = 0
            for x, y in zip(h.m[a], h.m[b]):
                acc = x * y - acc
            return "fold2", "(fold (lambda (x y acc) (- (* x y) acc)) 0 o%d o%d)" % (a, b), acc
        o.append(fold2)

        def red(a):
            if not a:
                return 0
            acc = a[0]
            for x in a[1:]:
                acc = x - acc
            return acc
        observe("reduce", "(reduce - 0 %(a)s)", red)

        def redr(a):
            if not a:
                return 0
            acc = a[-1]
            for x in reversed(a[:-1]):
                acc = x - acc
            return acc
        observe("reduce-right", "(reduce-right - 0 %(a)s)", redr)
        observe("pair-fold", "(pair-fold (lambda (p acc) (+ (* 2 acc) (car p) (length p))) 0 %(a)s)",
                lambda a: pair_fold(a))
        observe("pair-fold-right", "(pair-fold-right (lambda (p acc) (cons (length p) acc)) '() %(a)s)",
                lambda a: list(range(len(a), 0, -1)))
        unary("unfold", "(unfold (lambda (x) (> x (length %(a)s))) (lambda (x) (* x x)) (lambda (x) (+ x 1)) 1)",
              lambda a: [x * x for x in range(1, len(a) + 1)])
        unary("unfold-right", "(unfold-right zero? (lambda (x) (* x x)) (lambda (x) (- x 1)) (length %(a)s))",
              lambda a: [x * x for x in range(1, len(a) + 1)])
        unary("unfold-tail", "(unfold (lambda (x) (> x 3)) (lambda (x) x) (lambda (x) (+ x 1)) 1 (lambda (x) %(a)s))",
              lambda a: [1, 2, 3] + a)
        unary("append-map", "(append-map (lambda (x) (list x (- x))) %(a)s)", lambda a: [y for x in a for y in (x, -x)])
        unary("append-map!", "(append-map! (lambda (x) (list x x x)) %(a)s)", lambda a: [y for x in a for y in (x, x, x)])
        unary("filter-map", "(filter-map (lambda (x) (and (even? x) (* x x))) %(a)s)", lambda a: [x * x for x in a if x % 2 == 0])
        unary("map-in-order", "(map-in-order (lambda (x) (+ x 10)) %(a)s)", lambda a: [x + 10 for x in a])
        unary("map!", "(map! (lambda (x) (* 2 x)) (list-copy %(a)s))", lambda a: [2 * x for x in a])
        binary("map2", "(map + %(a)s %(b)s)", lambda a, b: [x + y for x, y in zip(a, b)])
        observe("pair-for-each", "(let ((acc '())) (pair-for-each (lambda (p) (set! acc (cons (car p) acc))) %(a)s) acc)", lambda a: a[::-1])
        # filtering
        with_pred("filter", "(filter %(p)s %(a)s)", lambda a, p: [x for x in a if p(x)])
        with_pred("remove", "(remove %(p)s %(a)s)", lambda a, p: [x for x in a if not p(x)])
        with_pred("filter!", "(filter! %(p)s %(a)s)", lambda a, p: [x for x in a if p(x)], linear=True)
        with_pred("remove!", "(remove! %(p)s %(a)s)", lambda a, p: [x for x in a if not p(x)], linear=True)
        with_pred("partition", "(call-with-values (lambda () (partition %(p)s %(a)s)) list)",
                  lambda a, p: [[x for x in a if p(x)], [x for x in a if not p(x)]], obs=True)
        with_pred("partition!", "(call-with-values (lambda () (partition! %(p)s %(a)s)) list)",
                  lambda a, p: [[x for x in a if p(x)], [x for x in a if not p(x)]], linear=True, obs=True)
        # searching
        with_pred("find", "(list (find %(p)s %(a)s))", lambda a, p: [next((x for x in a if p(x)), False)], obs=True)
        with_pred("find-tail", "(list (find-tail %(p)s %(a)s))",
                  lambda a, p: [next((a[i:] for i in range(len(a)) if p(a[i])), False)], obs=True)
        with_pred("any", "(list (any (lambda (x) (and (%(p)s x) (* 2 x))) %(a)s))",
                  lambda a, p: [next((2 * x for x in a if p(x)), False)], obs=True)
        with_pred("every", "(list (every (lambda (x) (and (%(p)s x) (* 2 x))) %(a)s))",
                  lambda a, p: [True if not a else (2 * a[-1] if all(p(x) for x in a) else False)], obs=True)
        with_pred("list-index", "(list (list-index %(p)s %(a)s))",
                  lambda a, p: [next((i for i, x in enumerate(a) if p(x)), False)], obs=True)

        def any2(h, rng):
            a, b = slot(rng), slot(rng)
            r = next((x + y for x, y in zip(h.m[a], h.m[b]) if x > y), False)
            return "any2", "(list (any (lambda (x y) (and (> x y) (+ x y))) o%d o%d))" % (a, b), [r]
        o.append(any2)

        def tw(a, p):
            i = 0
            while i < len(a) and p(a[i]):
                i += 1
            return i
        with_pred("take-while", "(take-while %(p)s %(a)s)", lambda a, p: a[:tw(a, p)])
        with_pred("drop-while", "(drop-while %(p)s %(a)s)", lambda a, p: a[tw(a, p):])
        with_pred("take-while!", "(take-while! %(p)s %(a)s)", lambda a, p: a[:tw(a, p)], linear=True)
        with_pred("span", "(call-with-values (lambda () (span %(p)s %(a)s)) list)", lambda a, p: [a[:tw(a, p)], a[tw(a, p):]], obs=True)
        with_pred("break", "(call-with-values (lambda () (break %(p)s %(a)s)) list)",
                  lambda a, p: [a[:tw(a, lambda x: not p(x))], a[tw(a, lambda x: not p(x)):]], obs=True)
        with_pred("span!", "(call-with-values (lambda () (span! %(p)s %(a)s)) list)", lambda a, p: [a[:tw(a, p)], a[tw(a, p):]],
                  linear=True, obs=True)
        with_pred("break!", "(call-with-values (lambda () (break! %(p)s %(a)s)) list)",
                  lambda a, p: [a[:tw(a, lambda x: not p(x))], a[tw(a, lambda x: not p(x)):]], linear=True, obs=True)
        # deletion
        with_x("delete", "(delete %(x)d %(a)s)", lambda a, x: [e for e in a if e != x])
        with_x("delete!", "(delete! %(x)d (list-copy %(a)s))", lambda a, x: [e for e in a if e != x])
        with_x("delete<", "(delete %(x)d %(a)s <)", lambda a, x: [e for e in a if not (x < e)])
        unary("delete-duplicates", "(delete-duplicates %(a)s)", lambda a: dedup(a, lambda x, y: x == y))
        unary("delete-duplicates!", "(delete-duplicates! (list-copy %(a)s))", lambda a: dedup(a, lambda x, y: x == y))
        unary("delete-duplicates-mod", "(delete-duplicates %(a)s (lambda (x y) (= (modulo x 5) (modulo y 5))))",
              lambda a: dedup(a, lambda x, y: x % 5 == y % 5))
        # association lists
        with_x("alist-delete", "(map car (alist-delete %(x)d (map (lambda (x) (cons x (* x x))) %(a)s)))", lambda a, x: [e for e in a if e != x])
        with_x("alist-cons", "(map cdr (alist-cons 0 %(x)d (alist-copy (map (lambda (x) (cons x (* 2 x))) %(a)s))))",
               lambda a, x: [x] + [2 * e for e in a])
        with_x("alist-delete!", "(map cdr (alist-delete! %(x)d (map (lambda (x) (cons x (+ x 100))) %(a)s) <))",
               lambda a, x: [e + 100 for e in a if not (x < e)])
        # lset (on duplicate-free operands; element order of the result is not compared)

        def lset(name, expr, f, obs=False):
            def op(h, rng):
                a, b, d = slot(rng), slot(rng), slot(rng)
                A, Bm = dedup(h.m[a], lambda x, y: x == y), dedup(h.m[b], lambda x, y: x == y)
                e = expr % {"a": "(delete-duplicates o%d)" % a, "b": "(delete-duplicates o%d)" % b}
                r = f(A, Bm)
                if obs:
                    return name, e, r
                h.m[d] = cut(sorted(r))
                return name, "(begin (set! o%d (%%cut (%%sorted %s))) o%d)" % (d, e, d), h.m[d]
            o.append(op)
        lset("lset-adjoin", "(lset-adjoin = %(a)s 3 5 3 100)", lambda a, b: list(set(a) | {3, 5, 100}))
        lset("lset-union", "(lset-union = %(a)s %(b)s)", lambda a, b: list(set(a) | set(b)))
        lset("lset-union!", "(lset-union! = (list-copy %(a)s) (list-copy %(b)s))", lambda a, b: list(set(a) | set(b)))
        lset("lset-intersection", "(lset-intersection = %(a)s %(b)s)", lambda a, b: list(set(a) & set(b)))
        lset("lset-intersection!", "(lset-intersection! = (list-copy %(a)s) %(b)s)", lambda a, b: list(set(a) & set(b)))
        lset("lset-difference", "(lset-difference = %(a)s %(b)s)", lambda a, b: list(set(a) - set(b)))
        lset("lset-difference!", "(lset-difference! = (list-copy %(a)s) %(b)s)", lambda a, b: list(set(a) - set(b)))
        lset("lset-xor", "(lset-xor = %(a)s %(b)s)", lambda a, b: list(set(a) ^ set(b)))
        lset("lset-xor!", "(lset-xor! = (list-copy %(a)s) (list-copy %(b)s))", lambda a, b: list(set(a) ^ set(b)))
        lset("lset<=", "(list (lset<= = %(a)s %(b)s) (lset<= = %(a)s %(a)s) (lset= = %(a)s %(b)s) (lset= = %(b)s (reverse %(b)s)))",
             lambda a, b: [set(a) <= set(b), True, set(a) == set(b), True], obs=True)
        lset("lset-diff+intersection",
             "(call-with-values (lambda () (lset-diff+intersection = %(a)s %(b)s)) (lambda (x y) (list (%%sorted x) (%%sorted y))))",
             lambda a, b: [sorted(set(a) - set(b)), sorted(set(a) & set(b))], obs=True)
        observe("predicates", "(list (proper-list? %(a)s) (null-list? %(a)s) (not-pair? %(a)s) (list= = %(a)s %(a)s) (list= = %(a)s (cons 1 %(a)s)))",
                lambda a: [True, len(a) == 0, len(a) == 0, True, False])


def pair_fold(a):
    acc = 0
    for i in range(len(a)):
        acc = 2 * acc + a[i] + (len(a) - i)
    return acc


def dedup(a, same):
    out = []
    for x in a:
        if not any(same(y, x) for y in out):
            out.append(x)
    return out



# ================================================================================================
# SRFI 133 (vectors; mutators act on the live object in place)

def ivec(xs):
    return "(vector %s)" % " ".join(str(x) for x in xs)


class Srfi133(Lib):
    name = "srfi133"
    imports = "(import (scheme base) (scheme write) (scheme process-context) (srfi 133))"
    header = "(define (%canon x) (vector->list x))\n(define (%cut x) (if (> (vector-length x) 40) (vector-copy x 0 40) x))\n"

    def init(self, rng, i):
        xs = rnd_list(rng)
        return xs, ivec(xs)

    def __init__(self):
        Lib.__init__(self)
        o = self.ops

        def store(h, d, val, expr, name):
            h.m[d] = cut(list(val))
            return name, "(begin (set! o%d (%%cut %s)) (vector->list o%d))" % (d, expr, d), h.m[d]

        def rng_se(rng, n):
            s = rng.randrange(0, n + 1)
            return s, rng.randrange(s, n + 1)

        def unary(name, fexpr, fmodel, cond=None):
            def op(h, rng):
                a, d = slot(rng), slot(rng)
                if cond and not cond(h.m[a]):
                    return None
                return store(h, d, fmodel(h.m[a]), fexpr % {"a": "o%d" % a}, name)
            o.append(op)

        def binary(name, fexpr, fmodel):
            def op(h, rng):
                a, b, d = slot(rng), slot(rng), slot(rng)
                return store(h, d, fmodel(h.m[a], h.m[b]), fexpr % {"a": "o%d" % a, "b": "o%d" % b}, name)
            o.append(op)

        def ranged(name, fexpr, fmodel):
            def op(h, rng):
                a, d = slot(rng), slot(rng)
                s, e = rng_se(rng, len(h.m[a]))
                return store(h, d, fmodel(h.m[a], s, e), fexpr % {"a": "o%d" % a, "s": s, "e": e}, name)
            o.append(op)

        def observe(name, fexpr, fmodel, cond=None):
            def op(h, rng):
                a = slot(rng)
                if cond and not cond(h.m[a]):
                    return None
                return name, fexpr % {"a": "o%d" % a}, fmodel(h.m[a])
            o.append(op)

        def with_pred(name, fexpr, fmodel):
            def op(h, rng):
                a = slot(rng)
                ps, pf = rng.choice(PREDS)
                return name, fexpr % {"a": "o%d" % a, "p": ps}, fmodel(h.m[a], pf)
            o.append(op)

        def mutate(name, gen):
            """gen(h, rng, a) -> (code fragment mutating o<a>, new model) | None"""
            def op(h, rng):
                a = slot(rng)
                r = gen(h, rng, a)
                if r is None:
                    return None
                code, new = r
                h.m[a] = list(new)
                return name, "(begin %s (vector->list o%d))" % (code, a), h.m[a]
            o.append(op)

        unary("vector-unfold", "(vector-unfold (lambda (i) (- (* i i) 2)) (vector-length %(a)s))", lambda a: [i * i - 2 for i in range(len(a))])
        unary("vector-unfold-seed", "(vector-unfold (lambda (i x) (values x (+ x i))) (vector-length %(a)s) 1)",
              lambda a: unfold_seed(len(a)))
        unary("vector-unfold-right", "(vector-unfold-right (lambda (i x) (values (+ i x) (+ x 1))) (vector-length %(a)s) 0)",
              lambda a: unfold_right_seed(len(a)))
        ranged("vector-copy", "(vector-copy %(a)s %(s)d %(e)d)", lambda a, s, e: a[s:e])
        ranged("vector-reverse-copy", "(vector-reverse-copy %(a)s %(s)d %(e)d)", lambda a, s, e: a[s:e][::-1])
        binary("vector-append", "(vector-append %(a)s %(b)s)", lambda a, b: a + b)
        binary("vector-concatenate", "(vector-concatenate (list %(a)s (vector 9) %(b)s))", lambda a, b: a + [9] + b)

        def app_sub(h, rng):
            a, b, d = slot(rng), slot(rng), slot(rng)
            s1, e1 = rng_se(rng, len(h.m[a]))
            s2, e2 = rng_se(rng, len(h.m[b]))
            return store(h, d, h.m[a][s1:e1] + h.m[b][s2:e2],
                         "(vector-append-subvectors o%d %d %d o%d %d %d)" % (a, s1, e1, b, s2, e2), "vector-append-subvectors")
        o.append(app_sub)
        observe("vector-empty?", "(list (vector-empty? %(a)s))", lambda a: [len(a) == 0])

        def veq(h, rng):
            a, b = slot(rng), slot(rng)
            return ("vector=", "(list (vector= = o%d o%d) (vector= = o%d (vector-copy o%d)) (vector= = o%d o%d o%d))" % (a, b, a, a, a, b, a),
                    [h.m[a] == h.m[b], True, h.m[a] == h.m[b]])
        o.append(veq)

        def vfold(a):
            acc = 1
            for x in a:
                acc = x + 3 * acc
            return acc

        def vfoldr(a):
            acc = 1
            for x in reversed(a):
                acc = x + 3 * acc
            return acc
        observe("vector-fold", "(vector-fold (lambda (acc x) (+ x (* 3 acc))) 1 %(a)s)", vfold)
        observe("vector-fold-right", "(vector-fold-right (lambda (acc x) (+ x (* 3 acc))) 1 %(a)s)", vfoldr)
        observe("vector-fold-list", "(vector-fold (lambda (acc x) (cons x acc)) '() %(a)s)", lambda a: a[::-1])
        def vmap2(h, rng):
            a, b = slot(rng), slot(rng)
            return ("vector-map2", "(%%try (lambda () (vector->list (vector-map (lambda (x y) (- x y)) o%d o%d))))" % (a, b),
                    [x - y for x, y in zip(h.m[a], h.m[b])], "pure")
        o.append(vmap2)

        def vfe2(h, rng):
            a, b = slot(rng), slot(rng)
            return ("vector-for-each2", "(%%try (lambda () (let ((acc '())) (vector-for-each (lambda (x y) (set! acc (cons (- x y) acc))) o%d o%d) acc)))" % (a, b),
                    [x - y for x, y in zip(h.m[a], h.m[b])][::-1], "pure")
        o.append(vfe2)
        unary("vector-map", "(vector-map (lambda (x) (* x x)) %(a)s)", lambda a: [x * x for x in a])
        mutate("vector-map!", lambda h, rng, a: ("(vector-map! (lambda (x) (- 9 x)) o%d)" % a, [9 - x for x in h.m[a]]))
        observe("vector-for-each", "(let ((acc '())) (vector-for-each (lambda (x) (set! acc (cons x acc))) %(a)s) acc)", lambda a: a[::-1])
        with_pred("vector-count", "(vector-count %(p)s %(a)s)", lambda a, p: sum(1 for x in a if p(x)))
        unary("vector-cumulate", "(vector-cumulate + 0 %(a)s)", lambda a: cumulate(a))
        with_pred("vector-index", "(list (vector-index %(p)s %(a)s))", lambda a, p: [next((i for i, x in enumerate(a) if p(x)), False)])
        with_pred("vector-index-right", "(list (vector-index-right %(p)s %(a)s))",
                  lambda a, p: [next((i for i in range(len(a) - 1, -1, -1) if p(a[i])), False)])
        with_pred("vector-skip", "(list (vector-skip %(p)s %(a)s))", lambda a, p: [next((i for i, x in enumerate(a) if not p(x)), False)])
        with_pred("vector-skip-right", "(list (vector-skip-right %(p)s %(a)s))",
                  lambda a, p: [next((i for i in range(len(a) - 1, -1, -1) if not p(a[i])), False)])

        def bsearch(h, rng):
            a = slot(rng)
            sv = sorted(set(h.m[a]))
            x = elem(rng)
            return ("vector-binary-search", "(list (vector-binary-search %s %d (lambda (a b) (- a b))))" % (ivec(sv), x),
                    [sv.index(x) if x in sv else False])
        o.append(bsearch)
        with_pred("vector-any", "(list (vector-any (lambda (x) (and (%(p)s x) (+ x 100))) %(a)s))",
                  lambda a, p: [next((x + 100 for x in a if p(x)), False)])
        with_pred("vector-every", "(list (vector-every (lambda (x) (and (%(p)s x) (+ x 100))) %(a)s))",
                  lambda a, p: [True if not a else (a[-1] + 100 if all(p(x) for x in a) else False)])
        with_pred("vector-partition", "(call-with-values (lambda () (vector-partition %(p)s %(a)s)) (lambda (v n) (list (vector->list v) n)))",
                  lambda a, p: [[x for x in a if p(x)] + [x for x in a if not p(x)], sum(1 for x in a if p(x))])

        def swap(h, rng, a):
            n = len(h.m[a])
            if n == 0:
                return None
            i, j = rng.randrange(n), rng.randrange(n)
            new = list(h.m[a])
            new[i], new[j] = new[j], new[i]
            return "(vector-swap! o%d %d %d)" % (a, i, j), new
        mutate("vector-swap!", swap)

        def vset(h, rng, a):
            n = len(h.m[a])
            if n == 0:
                return None
            i, x = rng.randrange(n), elem(rng)
            new = list(h.m[a])
            new[i] = x
            return "(vector-set! o%d %d %d)" % (a, i, x), new
        mutate("vector-set!", vset)

        def fill(h, rng, a):
            s, e = rng_se(rng, len(h.m[a]))
            x = elem(rng)
            new = list(h.m[a])
            new[s:e] = [x] * (e - s)
            return "(vector-fill! o%d %d %d %d)" % (a, x, s, e), new
        mutate("vector-fill!", fill)

        def rev(h, rng, a):
            s, e = rng_se(rng, len(h.m[a]))
            new = list(h.m[a])
            new[s:e] = new[s:e][::-1]
            return "(vector-reverse! o%d %d %d)" % (a, s, e), new
        mutate("vector-reverse!", rev)

        def copy_(h, rng, a):
            b = slot(rng)
            s, e = rng_se(rng, len(h.m[b]))
            if e - s > len(h.m[a]):
                e = s + len(h.m[a])
            at = rng.randrange(0, len(h.m[a]) - (e - s) + 1)
            new = list(h.m[a])
            new[at:at + e - s] = h.m[b][s:e]
            return "(vector-copy! o%d %d o%d %d %d)" % (a, at, b, s, e), new
        mutate("vector-copy!", copy_)

        def rcopy_(h, rng, a):
            b = slot(rng)
            if b == a:
                return None
            s, e = rng_se(rng, len(h.m[b]))
            if e - s > len(h.m[a]):
                e = s + len(h.m[a])
            at = rng.randrange(0, len(h.m[a]) - (e - s) + 1)
            new = list(h.m[a])
            new[at:at + e - s] = h.m[b][s:e][::-1]
            return "(vector-reverse-copy! o%d %d o%d %d %d)" % (a, at, b, s, e), new
        mutate("vector-reverse-copy!", rcopy_)

        def unfold_b(h, rng, a):
            s, e = rng_se(rng, len(h.m[a]))
            new = list(h.m[a])
            for i in range(s, e):
                new[i] = i * 2 + 1
            return "(vector-unfold! (lambda (i) (+ 1 (* i 2))) o%d %d %d)" % (a, s, e), new
        mutate("vector-unfold!", unfold_b)

        def unfold_rb(h, rng, a):
            s, e = rng_se(rng, len(h.m[a]))
            new = list(h.m[a])
            x = 0
            for i in range(e - 1, s - 1, -1):
                new[i] = i + x
                x += 5
            return "(vector-unfold-right! (lambda (i x) (values (+ i x) (+ x 5))) o%d %d %d 0)" % (a, s, e), new
        mutate("vector-unfold-right!", unfold_rb)

        def conv(name, fexpr, fmodel):
            def op(h, rng):
                a = slot(rng)
                s, e = rng_se(rng, len(h.m[a]))
                return name, fexpr % {"a": "o%d" % a, "s": s, "e": e}, fmodel(h.m[a], s, e)
            o.append(op)
        conv("vector->list", "(vector->list %(a)s %(s)d %(e)d)", lambda a, s, e: a[s:e])
        conv("reverse-vector->list", "(reverse-vector->list %(a)s %(s)d %(e)d)", lambda a, s, e: a[s:e][::-1])
        unary("reverse-list->vector", "(reverse-list->vector (vector->list %(a)s))", lambda a: a[::-1])
        unary("list->vector", "(list->vector (reverse-vector->list %(a)s))", lambda a: a[::-1])


def unfold_seed(n):
    out, x = [], 1
    for i in range(n):
        out.append(x)
        x = x + i
    return out


def unfold_right_seed(n):
    out = [0] * n
    x = 0
    for i in range(n - 1, -1, -1):
        out[i] = i + x
        x += 1
    return out


def cumulate(a):
    out, acc = [], 0
    for x in a:
        acc += x
        out.append(acc)
    return out



# ================================================================================================
# SRFI 113 (slots 0,1: sets; slots 2,3: bags)

def sset(rng):
    return rng.randrange(0, 2)


def sbag(rng):
    return rng.randrange(2, 4)


def bag_list(c):
    return sorted(c.elements())


class Srfi113(Lib):
    name = "srfi113"
    imports = "(import (scheme base) (scheme write) (scheme process-context) (srfi 128) (srfi 113))"
    header = ("(define cmp (make-default-comparator))\n"
              "(define (%canon x) (%sorted (if (set? x) (set->list x) (bag-fold cons '() x))))\n"
              ";; rebuild from the elements: a fresh object that shares nothing\n"
              "(define (%fresh x) (if (set? x) (list->set cmp (set->list x))\n"
              "  (let ((b (bag cmp))) (bag-for-each-unique (lambda (e n) (bag-increment! b e n)) x) b)))\n")
    # results of these are built element by element into a new table; all other non-! operations start from
    # set-copy / bag-copy of their first argument
    FRESH = {"set-map", "set-filter", "set-remove", "set-filter!", "set-remove!", "list->set", "set-unfold", "set->bag", "bag-map",
             "bag-filter", "bag-remove!", "list->bag", "alist->bag"}

    def begin(self, h, rng):
        # half of the histories rebuild every stored object from its elements ("safe"): they exercise every
        # operation without depending on copy independence, which the other half observes
        h.safe = rng.random() < 0.5
        h.flag = [False] * N        # object's table came out of hash-table-copy without the mutable flag
        h.sig_extra = {"sharing": "none"}
        # bag-sum is wrong on the unchanged tree (known finding): keep it to a quarter of the histories
        h.disabled = {"bag-sum", "bag-sum!"} if rng.random() < 0.75 else set()

    def track(self, h, name, src, dst):
        if h.safe:
            return
        if name in self.FRESH:
            h.flag[dst] = False
        elif name.endswith("!") and name != "list->set!":
            h.flag[dst] = True      # a linear-update procedure may return a copy (set-xor! does)
        else:
            if h.flag[src]:
                h.sig_extra = {"sharing": "copy-of-copy"}
            h.flag[dst] = True

    def init(self, rng, i):
        # no negative elements: with the table-sharing defect a bag's count can be overwritten by an element, and
        # bag-fold does not terminate on a negative count
        xs = [abs(x) for x in rnd_list(rng)]
        if i < 2:
            return set(xs), "(set cmp %s)" % " ".join(map(str, xs))
        return collections.Counter(xs), "(bag cmp %s)" % " ".join(map(str, xs))

    def canon(self, m):
        return sorted(m) if isinstance(m, set) else bag_list(m)

    def size(self, m):
        return len(m) if isinstance(m, set) else sum(m.values())

    def __init__(self):
        Lib.__init__(self)
        o = self.ops

        lib = self

        def elem(rng):
            return rng.randrange(0, 14)
        FUNS113 = [f for f in FUNS if "(- 5 x)" not in f[0]]

        def src_of(expr):
            i = expr.find("o")
            while i >= 0:
                if expr[i + 1:i + 2] in "0123" and not expr[i - 1].isalnum() and expr[i - 1] not in "-!?":
                    return int(expr[i + 1])
                i = expr.find("o", i + 1)
            return 0

        def sstore(h, d, val, expr, name):
            h.m[d] = set(val)
            lib.track(h, name, src_of(expr), d)
            if h.safe:
                expr = "(%%fresh %s)" % expr
            return name, "(begin (set! o%d %s) (%%canon o%d))" % (d, expr, d), sorted(h.m[d])

        def bstore(h, d, val, expr, name):
            h.m[d] = collections.Counter({k: v for k, v in val.items() if v > 0})
            lib.track(h, name, src_of(expr), d)
            if h.safe:
                expr = "(%%fresh %s)" % expr
            return name, "(begin (set! o%d %s) (%%canon o%d))" % (d, expr, d), bag_list(h.m[d])

        def s_x(name, fexpr, fmodel, inplace=False):
            def op(h, rng):
                a = sset(rng)
                d = a if inplace else sset(rng)
                x, y = elem(rng), elem(rng)
                return sstore(h, d, fmodel(h.m[a], x, y), fexpr % {"a": "o%d" % a, "x": x, "y": y}, name)
            o.append(op)
        s_x("set-adjoin", "(set-adjoin %(a)s %(x)d %(y)d)", lambda a, x, y: a | {x, y})
        s_x("set-adjoin!", "(set-adjoin! %(a)s %(x)d)", lambda a, x, y: a | {x}, inplace=True)
        s_x("set-replace", "(set-replace %(a)s %(x)d)", lambda a, x, y: a)
        s_x("set-delete", "(set-delete %(a)s %(x)d %(y)d)", lambda a, x, y: a - {x, y})
        s_x("set-delete!", "(set-delete! %(a)s %(x)d)", lambda a, x, y: a - {x}, inplace=True)
        s_x("set-delete-all", "(set-delete-all %(a)s (list %(x)d %(y)d 3))", lambda a, x, y: a - {x, y, 3})
        s_x("set-delete-all!", "(set-delete-all! %(a)s (list %(x)d %(y)d))", lambda a, x, y: a - {x, y}, inplace=True)

        def s_obs(name, fexpr, fmodel):
            def op(h, rng):
                a, b = sset(rng), sset(rng)
                x = elem(rng)
                ps, pf = rng.choice(PREDS)
                return name, fexpr % {"a": "o%d" % a, "b": "o%d" % b, "x": x, "p": ps}, fmodel(h.m[a], h.m[b], x, pf), "pure"
            o.append(op)
        s_obs("set-contains?", "(list (set-contains? %(a)s %(x)d))", lambda a, b, x, p: [x in a])
        s_obs("set-member", "(set-member %(a)s %(x)d -77)", lambda a, b, x, p: x if x in a else -77)
        s_obs("set-size", "(set-size %(a)s)", lambda a, b, x, p: len(a))
        s_obs("set-empty?", "(list (set-empty? %(a)s) (set? %(a)s))", lambda a, b, x, p: [len(a) == 0, True])
        s_obs("set-disjoint?", "(list (set-disjoint? %(a)s %(b)s))", lambda a, b, x, p: [not (a & b)])
        s_obs("set-find", "(let ((r (set-find %(p)s %(a)s (lambda () -77)))) (list (or (= r -77) (and (%(p)s r) (set-contains? %(a)s r)))))",
              lambda a, b, x, p: [True])
        s_obs("set-find-none", "(set-find (lambda (x) #f) %(a)s (lambda () -77))", lambda a, b, x, p: -77)
        s_obs("set-count", "(set-count %(p)s %(a)s)", lambda a, b, x, p: sum(1 for e in a if p(e)))
        s_obs("set-any?", "(list (set-any? %(p)s %(a)s) (set-every? %(p)s %(a)s))",
              lambda a, b, x, p: [any(p(e) for e in a), all(p(e) for e in a)])
        s_obs("set-for-each", "(let ((acc 0)) (set-for-each (lambda (x) (set! acc (+ acc (* x x) 1))) %(a)s) acc)",
              lambda a, b, x, p: sum(e * e + 1 for e in a))
        s_obs("set-fold", "(set-fold (lambda (x acc) (+ acc (* 3 x) 1)) 0 %(a)s)", lambda a, b, x, p: sum(3 * e + 1 for e in a))
        s_obs("set->list", "(%%sorted (set->list %(a)s))", lambda a, b, x, p: sorted(a))

        s_obs("set=?", "(list (set=? %(a)s %(b)s) (set<? %(a)s %(b)s) (set>? %(a)s %(b)s) (set<=? %(a)s %(b)s) (set>=? %(a)s %(b)s) (set=? %(a)s (set-copy %(a)s)))",
              lambda a, b, x, p: [a == b, a < b, a > b, a <= b, a >= b, True])
        s_obs("set-partition", "(call-with-values (lambda () (set-partition %(p)s %(a)s)) (lambda (x y) (list (%%canon x) (%%canon y))))",
              lambda a, b, x, p: [sorted(e for e in a if p(e)), sorted(e for e in a if not p(e))])

        def s_pred(name, fexpr, fmodel, inplace=False):
            def op(h, rng):
                a = sset(rng)
                d = a if inplace else sset(rng)
                ps, pf = rng.choice(PREDS)
                return sstore(h, d, fmodel(h.m[a], pf), fexpr % {"a": "o%d" % a, "p": ps}, name)
            o.append(op)
        s_pred("set-filter", "(set-filter %(p)s %(a)s)", lambda a, p: {e for e in a if p(e)})
        s_pred("set-remove", "(set-remove %(p)s %(a)s)", lambda a, p: {e for e in a if not p(e)})
        s_pred("set-filter!", "(set-filter! %(p)s %(a)s)", lambda a, p: {e for e in a if p(e)}, inplace=True)
        s_pred("set-remove!", "(set-remove! %(p)s %(a)s)", lambda a, p: {e for e in a if not p(e)}, inplace=True)

        def s_map(h, rng):
            a, d = sset(rng), sset(rng)
            fs, ff = rng.choice(FUNS113)
            return sstore(h, d, {ff(e) for e in h.m[a]}, "(set-map cmp %s o%d)" % (fs, a), "set-map")
        o.append(s_map)

        def s_un(name, fexpr, fmodel):
            def op(h, rng):
                a, d = sset(rng), sset(rng)
                return sstore(h, d, fmodel(h.m[a]), fexpr % {"a": "o%d" % a}, name)
            o.append(op)
        s_un("set-copy", "(set-copy %(a)s)", lambda a: a)
        s_un("list->set", "(list->set cmp (append (set->list %(a)s) (list 1 1 2)))", lambda a: a | {1, 2})
        s_un("list->set!", "(list->set! (set-copy %(a)s) (list 4 4 5))", lambda a: a | {4, 5})
        s_un("set-unfold", "(set-unfold cmp (lambda (i) (> i (set-size %(a)s))) (lambda (i) (modulo (* i i) 7)) (lambda (i) (+ i 1)) 0)",
             lambda a: {(i * i) % 7 for i in range(len(a) + 1)})

        def s_bin(name, fexpr, fmodel, inplace=False):
            def op(h, rng):
                a = sset(rng)
                b = sset(rng)
                d = a if inplace else sset(rng)
                if inplace and a == b:
                    return None
                return sstore(h, d, fmodel(h.m[a], h.m[b]), fexpr % {"a": "o%d" % a, "b": "o%d" % b}, name)
            o.append(op)
        s_bin("set-union", "(set-union %(a)s %(b)s)", lambda a, b: a | b)
        s_bin("set-intersection", "(set-intersection %(a)s %(b)s)", lambda a, b: a & b)
        s_bin("set-difference", "(set-difference %(a)s %(b)s)", lambda a, b: a - b)
        s_bin("set-xor", "(set-xor %(a)s %(b)s)", lambda a, b: a ^ b)
        s_bin("set-union!", "(set-union! %(a)s %(b)s)", lambda a, b: a | b, inplace=True)
        s_bin("set-intersection!", "(set-intersection! %(a)s %(b)s)", lambda a, b: a & b, inplace=True)
        s_bin("set-difference!", "(set-difference! %(a)s %(b)s)", lambda a, b: a - b, inplace=True)
        s_bin("set-xor!", "(set-xor! %(a)s %(b)s)", lambda a, b: a ^ b, inplace=True)
        s_bin("set-union3", "(set-union %(a)s %(b)s (set cmp 20 21))", lambda a, b: a | b | {20, 21})

        # ---- bags
        C = collections.Counter

        def b_x(name, fexpr, fmodel, inplace=False):
            def op(h, rng):
                a = sbag(rng)
                d = a if inplace else sbag(rng)
                x, y = elem(rng), elem(rng)
                k = rng.randrange(1, 4)
                return bstore(h, d, fmodel(C(h.m[a]), x, y, k), fexpr % {"a": "o%d" % a, "x": x, "y": y, "k": k}, name)
            o.append(op)

        def add(c, x, n):
            c[x] += n
            if c[x] <= 0:
                del c[x]
            return c
        b_x("bag-adjoin", "(bag-adjoin %(a)s %(x)d %(y)d %(x)d)", lambda a, x, y, k: add(add(add(a, x, 1), y, 1), x, 1))
        b_x("bag-adjoin!", "(bag-adjoin! %(a)s %(x)d)", lambda a, x, y, k: add(a, x, 1), inplace=True)
        b_x("bag-increment!", "(begin (bag-increment! %(a)s %(x)d %(k)d) %(a)s)", lambda a, x, y, k: add(a, x, k) if k else a, inplace=True)
        b_x("bag-decrement!", "(begin (bag-decrement! %(a)s %(x)d %(k)d) %(a)s)", lambda a, x, y, k: add(a, x, -k) if k else a, inplace=True)
        b_x("bag-product", "(bag-product %(k)d %(a)s)", lambda a, x, y, k: C({e: n * k for e, n in a.items()}))

        def b_obs(name, fexpr, fmodel):
            def op(h, rng):
                a, b = sbag(rng), sbag(rng)
                x = elem(rng)
                ps, pf = rng.choice(PREDS)
                return name, fexpr % {"a": "o%d" % a, "b": "o%d" % b, "x": x, "p": ps}, fmodel(h.m[a], h.m[b], x, pf), "pure"
            o.append(op)
        b_obs("bag-element-count", "(bag-element-count %(a)s %(x)d)", lambda a, b, x, p: a.get(x, 0))
        b_obs("bag->list", "(%%sorted (bag->list %(a)s))", lambda a, b, x, p: bag_list(a))
        b_obs("bag-size", "(list (bag-size %(a)s) (bag-unique-size %(a)s))", lambda a, b, x, p: [sum(a.values()), len(a)])
        b_obs("bag-contains?", "(list (bag-contains? %(a)s %(x)d) (bag-empty? %(a)s) (bag? %(a)s))",
              lambda a, b, x, p: [x in a, len(a) == 0, True])
        b_obs("bag-count", "(bag-count %(p)s %(a)s)", lambda a, b, x, p: sum(n for e, n in a.items() if p(e)))
        b_obs("bag->alist", "(%%sorted (map (lambda (p) (+ (* 1000 (car p)) (cdr p))) (bag->alist %(a)s)))",
              lambda a, b, x, p: sorted(1000 * e + n for e, n in a.items()))
        b_obs("bag-fold-unique", "(bag-fold-unique (lambda (x n acc) (+ acc (* x n) 1)) 0 %(a)s)",
              lambda a, b, x, p: sum(e * n + 1 for e, n in a.items()))
        b_obs("bag-for-each-unique", "(let ((acc 0)) (bag-for-each-unique (lambda (x n) (set! acc (+ acc (* x x n)))) %(a)s) acc)",
              lambda a, b, x, p: sum(e * e * n for e, n in a.items()))
        b_obs("bag-fold", "(bag-fold (lambda (x acc) (+ acc x 1)) 0 %(a)s)", lambda a, b, x, p: sum((e + 1) * n for e, n in a.items()))
        b_obs("bag=?", "(list (bag=? %(a)s %(b)s) (bag<=? %(a)s %(b)s) (bag>=? %(a)s %(b)s) (bag<? %(a)s %(b)s) (bag=? %(a)s (bag-copy %(a)s)))",
              lambda a, b, x, p: [a == b, sub(a, b), sub(b, a), sub(a, b) and a != b, True])
        b_obs("bag-product-0", "(let ((z (bag-product 0 (bag cmp 1 1 2)))) (list (bag-size z) (bag-unique-size z) (bag-empty? z) (bag-contains? z 1)))",
              lambda a, b, x, p: [0, 0, True, False])
        b_obs("bag-disjoint?", "(list (bag-disjoint? %(a)s %(b)s))", lambda a, b, x, p: [not (set(a) & set(b))])

        def b_bin(name, fexpr, fmodel, inplace=False):
            def op(h, rng):
                a, b = sbag(rng), sbag(rng)
                d = a if inplace else sbag(rng)
                if (inplace and a == b) or name in h.disabled:
                    return None
                return bstore(h, d, fmodel(C(h.m[a]), C(h.m[b])), fexpr % {"a": "o%d" % a, "b": "o%d" % b}, name)
            o.append(op)
        b_bin("bag-union", "(bag-union %(a)s %(b)s)", lambda a, b: a | b)
        b_bin("bag-intersection", "(bag-intersection %(a)s %(b)s)", lambda a, b: a & b)
        b_bin("bag-difference", "(bag-difference %(a)s %(b)s)", lambda a, b: a - b)
        b_bin("bag-xor", "(bag-xor %(a)s %(b)s)", lambda a, b: (a - b) + (b - a))
        b_bin("bag-sum", "(bag-sum %(a)s %(b)s)", lambda a, b: a + b)
        b_bin("bag-union!", "(bag-union! %(a)s %(b)s)", lambda a, b: a | b, inplace=True)
        b_bin("bag-intersection!", "(bag-intersection! %(a)s %(b)s)", lambda a, b: a & b, inplace=True)
        b_bin("bag-difference!", "(bag-difference! %(a)s %(b)s)", lambda a, b: a - b, inplace=True)
        b_bin("bag-xor!", "(bag-xor! %(a)s %(b)s)", lambda a, b: (a - b) + (b - a), inplace=True)
        b_bin("bag-sum!", "(bag-sum! %(a)s %(b)s)", lambda a, b: a + b, inplace=True)

        def b_pred(name, fexpr, fmodel, inplace=False):
            def op(h, rng):
                a = sbag(rng)
                d = a if inplace else sbag(rng)
                ps, pf = rng.choice(PREDS)
                return bstore(h, d, fmodel(h.m[a], pf), fexpr % {"a": "o%d" % a, "p": ps}, name)
            o.append(op)
        b_pred("bag-filter", "(bag-filter %(p)s %(a)s)", lambda a, p: C({e: n for e, n in a.items() if p(e)}))
        b_pred("bag-remove!", "(bag-remove! %(p)s %(a)s)", lambda a, p: C({e: n for e, n in a.items() if not p(e)}), inplace=True)

        def b_un(name, fexpr, fmodel):
            def op(h, rng):
                a, d = sbag(rng), sbag(rng)
                return bstore(h, d, fmodel(C(h.m[a])), fexpr % {"a": "o%d" % a}, name)
            o.append(op)
        b_un("bag-copy", "(bag-copy %(a)s)", lambda a: a)
        b_un("list->bag", "(list->bag cmp (append (bag-fold cons '() %(a)s) (list 1 1 2)))", lambda a: a + C([1, 1, 2]))
        b_un("alist->bag", "(alist->bag cmp (bag->alist %(a)s))", lambda a: a)

        def b_map(h, rng):
            a, d = sbag(rng), sbag(rng)
            fs, ff = rng.choice(FUNS113)
            r = C()
            for e, n in h.m[a].items():
                r[ff(e)] += n
            return bstore(h, d, r, "(bag-map cmp %s o%d)" % (fs, a), "bag-map")
        o.append(b_map)

        def bag2set(h, rng):
            a, d = sbag(rng), sset(rng)
            return sstore(h, d, set(h.m[a]), "(bag->set o%d)" % a, "bag->set")
        o.append(bag2set)

        def set2bag(h, rng):
            a, d = sset(rng), sbag(rng)
            return bstore(h, d, C(h.m[a]), "(set->bag o%d)" % a, "set->bag")
        o.append(set2bag)

        def set2bagb(h, rng):
            a, d = sset(rng), sbag(rng)
            return bstore(h, d, C(h.m[d]) + C(h.m[a]), "(set->bag! o%d o%d)" % (d, a), "set->bag!")
        o.append(set2bagb)


def sub(a, b):
    return all(b.get(e, 0) >= n for e, n in a.items())



# ================================================================================================
# SRFI 146 mappings (persistent; keys and values small integers)

PRED2 = [("(lambda (k v) (even? k))", lambda k, v: k % 2 == 0), ("(lambda (k v) (> v 20))", lambda k, v: v > 20),
         ("(lambda (k v) (< k 5))", lambda k, v: k < 5), ("(lambda (k v) (odd? (+ k v)))", lambda k, v: (k + v) % 2 == 1),
         ("(lambda (k v) #f)", lambda k, v: False), ("(lambda (k v) #t)", lambda k, v: True)]


def flat(d):
    out = []
    for k in sorted(d):
        out += [k, d[k]]
    return out


class Srfi146(Lib):
    name = "srfi146"
    imports = "(import (scheme base) (scheme write) (scheme process-context) (srfi 128) (srfi 146))"
    header = ("(define cmp (make-default-comparator))\n"
              "(define (%flat al) (if (null? al) '() (cons (car (car al)) (cons (cdr (car al)) (%flat (cdr al))))))\n"
              "(define (%canon m) (%flat (mapping->alist m)))\n")

    def init(self, rng, i):
        d = {}
        for _ in range(rng.choice([0, 1, 3, 6, 12, 25])):
            d[rng.randrange(-5, 40)] = rng.randrange(0, 50)
        return d, "(mapping cmp %s)" % " ".join("%d %d" % (k, v) for k, v in d.items())

    def canon(self, m):
        return flat(m)

    def begin(self, h, rng):
        # trees made by tree-split / tree-catenate break later deletions on the unchanged tree (known finding):
        # the range and catenate operations are kept to a third of the histories, and a violation after one of them
        # says so in its signature
        h.split_ops = rng.random() < 0.67
        h.sig_extra = {"after": "none"}

    def __init__(self):
        Lib.__init__(self)
        o = self.ops
        ctr = [100]

        def val():
            ctr[0] += 1
            return ctr[0]

        def key(rng, m):
            if m and rng.random() < 0.5:
                return rng.choice(sorted(m))
            return rng.randrange(-6, 42)

        def store(h, d, val_, expr, name):
            h.m[d] = dict(val_)
            return name, "(begin (set! o%d %s) (%%canon o%d))" % (d, expr, d), flat(h.m[d])

        def upd(name, fexpr, fmodel, bang=False):
            def op(h, rng):
                a = slot(rng)
                d = a if bang else slot(rng)
                k, k2 = key(rng, h.m[a]), key(rng, h.m[a])
                v, v2 = val(), val()
                return store(h, d, fmodel(dict(h.m[a]), k, v, k2, v2),
                             fexpr % {"a": "o%d" % a, "k": k, "v": v, "k2": k2, "v2": v2}, name)
            o.append(op)

        def set2(m, k, v, k2, v2):
            m[k] = v
            m[k2] = v2
            return m

        def adjoin(m, k, v, k2, v2):
            m.setdefault(k, v)
            m.setdefault(k2, v2)
            return m

        def replace(m, k, v, k2, v2):
            if k in m:
                m[k] = v
            return m

        def delete(m, k, v, k2, v2):
            m.pop(k, None)
            m.pop(k2, None)
            return m

        def update(m, k, v, k2, v2):
            m[k] = (m[k] + 1) if k in m else v
            return m
        for bang in (False, True):
            b = "!" if bang else ""
            upd("mapping-set" + b, "(mapping-set" + b + " %(a)s %(k)d %(v)d %(k2)d %(v2)d)", set2, bang)
            upd("mapping-adjoin" + b, "(mapping-adjoin" + b + " %(a)s %(k)d %(v)d %(k2)d %(v2)d)", adjoin, bang)
            upd("mapping-replace" + b, "(mapping-replace" + b + " %(a)s %(k)d %(v)d)", replace, bang)
            upd("mapping-delete" + b, "(mapping-delete" + b + " %(a)s %(k)d %(k2)d)", delete, bang)
            upd("mapping-delete-all" + b, "(mapping-delete-all" + b + " %(a)s (list %(k)d %(k2)d))", delete, bang)
            upd("mapping-update" + b, "(mapping-update" + b + " %(a)s %(k)d (lambda (x) (+ x 1)) (lambda () (- %(v)d 1)))", update, bang)
            upd("mapping-update/default" + b, "(mapping-update" + b + "/default %(a)s %(k)d (lambda (x) (+ x 1)) (- %(v)d 1))", update, bang)

        def intern(h, rng):
            a, d = slot(rng), slot(rng)
            k, v = key(rng, h.m[a]), val()
            m = dict(h.m[a])
            r = m.setdefault(k, v)
            h.m[d] = m
            return ("mapping-intern", "(call-with-values (lambda () (mapping-intern o%d %d (lambda () %d))) (lambda (m v) (set! o%d m) (list v (%%canon m))))"
                    % (a, k, v, d), [r, flat(m)])
        o.append(intern)

        def pop(h, rng):
            a, d = slot(rng), slot(rng)
            if not h.m[a]:
                return ("mapping-pop-empty", "(call-with-values (lambda () (mapping-pop o%d (lambda () (values 1 2 3)))) list)" % a,
                        [1, 2, 3], "pure")
            m = dict(h.m[a])
            k = min(m)
            v = m.pop(k)
            h.m[d] = m
            return ("mapping-pop", "(call-with-values (lambda () (mapping-pop o%d)) (lambda (m k v) (set! o%d m) (list k v (%%canon m))))" % (a, d),
                    [k, v, flat(m)])
        o.append(pop)

        def filt(name, fexpr, fmodel, bang=False):
            def op(h, rng):
                a = slot(rng)
                d = a if bang else slot(rng)
                ps, pf = rng.choice(PRED2)
                return store(h, d, fmodel(h.m[a], pf), fexpr % {"a": "o%d" % a, "p": ps}, name)
            o.append(op)
        filt("mapping-filter", "(mapping-filter %(p)s %(a)s)", lambda m, p: {k: v for k, v in m.items() if p(k, v)})
        filt("mapping-remove", "(mapping-remove %(p)s %(a)s)", lambda m, p: {k: v for k, v in m.items() if not p(k, v)})
        filt("mapping-filter!", "(mapping-filter! %(p)s %(a)s)", lambda m, p: {k: v for k, v in m.items() if p(k, v)}, True)
        filt("mapping-remove!", "(mapping-remove! %(p)s %(a)s)", lambda m, p: {k: v for k, v in m.items() if not p(k, v)}, True)

        def part(h, rng):
            a = slot(rng)
            ps, pf = rng.choice(PRED2)
            m = h.m[a]
            return ("mapping-partition", "(call-with-values (lambda () (mapping-partition %s o%d)) (lambda (x y) (list (%%canon x) (%%canon y))))" % (ps, a),
                    [flat({k: v for k, v in m.items() if pf(k, v)}), flat({k: v for k, v in m.items() if not pf(k, v)})], "pure")
        o.append(part)

        def un(name, fexpr, fmodel):
            def op(h, rng):
                a, d = slot(rng), slot(rng)
                return store(h, d, fmodel(h.m[a]), fexpr % {"a": "o%d" % a}, name)
            o.append(op)
        un("mapping-copy", "(mapping-copy %(a)s)", lambda m: m)
        un("alist->mapping", "(alist->mapping cmp (reverse (mapping->alist %(a)s)))", lambda m: m)
        un("alist->mapping!", "(alist->mapping! (mapping cmp 1000 1) (mapping->alist %(a)s))", lambda m: {**m, 1000: m.get(1000, 1)})
        un("mapping-map", "(mapping-map (lambda (k v) (values (- k) (+ v 1))) cmp %(a)s)", lambda m: {-k: v + 1 for k, v in m.items()})
        un("mapping-map/monotone", "(mapping-map/monotone (lambda (k v) (values (+ k 2) (* 2 v))) cmp %(a)s)", lambda m: {k + 2: 2 * v for k, v in m.items()})
        un("mapping-unfold", "(mapping-unfold (lambda (i) (> i (mapping-size %(a)s))) (lambda (i) (values (* 3 i) i)) (lambda (i) (+ i 1)) 0 cmp)",
           lambda m: {3 * i: i for i in range(len(m) + 1)})

        def binop(name, fexpr, fmodel, bang=False):
            def op(h, rng):
                a, b = slot(rng), slot(rng)
                d = a if bang else slot(rng)
                return store(h, d, fmodel(h.m[a], h.m[b]), fexpr % {"a": "o%d" % a, "b": "o%d" % b}, name)
            o.append(op)
        for bang in (False, True):
            b = "!" if bang else ""
            binop("mapping-union" + b, "(mapping-union" + b + " %(a)s %(b)s)", lambda x, y: dict(y, **x) if False else {**y, **x}, bang)
            binop("mapping-intersection" + b, "(mapping-intersection" + b + " %(a)s %(b)s)", lambda x, y: {k: v for k, v in x.items() if k in y}, bang)
            binop("mapping-difference" + b, "(mapping-difference" + b + " %(a)s %(b)s)", lambda x, y: {k: v for k, v in x.items() if k not in y}, bang)
            binop("mapping-xor" + b, "(mapping-xor" + b + " %(a)s %(b)s)",
                  lambda x, y: {**{k: v for k, v in x.items() if k not in y}, **{k: v for k, v in y.items() if k not in x}}, bang)

        def rangeop(name, fmodel):
            def op(h, rng):
                if not h.split_ops:
                    return None
                a, d = slot(rng), slot(rng)
                k = key(rng, h.m[a])
                bang = rng.random() < 0.3
                h.sig_extra = {"after": "split/catenate"}
                return store(h, d, {x: v for x, v in h.m[a].items() if fmodel(x, k)}, "(%s%s o%d %d)" % (name, "!" if bang else "", a, k), name)
            o.append(op)
        rangeop("mapping-range=", lambda x, k: x == k)
        rangeop("mapping-range<", lambda x, k: x < k)
        rangeop("mapping-range>", lambda x, k: x > k)
        rangeop("mapping-range<=", lambda x, k: x <= k)
        rangeop("mapping-range>=", lambda x, k: x >= k)

        def split(h, rng):
            a = slot(rng)
            k = key(rng, h.m[a])
            m = h.m[a]
            sel = [lambda x: x < k, lambda x: x <= k, lambda x: x == k, lambda x: x >= k, lambda x: x > k]
            return ("mapping-split", "(call-with-values (lambda () (mapping-split o%d %d)) (lambda ms (map %%canon ms)))" % (a, k),
                    [flat({x: v for x, v in m.items() if f(x)}) for f in sel], "pure")
        o.append(split)

        def catenate(h, rng):
            if not h.split_ops:
                return None
            h.sig_extra = {"after": "split/catenate"}
            a, d = slot(rng), slot(rng)
            k = key(rng, h.m[a])
            m = dict(h.m[a])
            m[k] = 999
            return store(h, d, m, "(call-with-values (lambda () (mapping-split o%d %d)) (lambda (lt le eq ge gt) (mapping-catenate cmp lt %d 999 gt)))" % (a, k, k),
                         "mapping-catenate")
        o.append(catenate)

        def q(name, fexpr, fmodel, cond=None):
            def op(h, rng):
                a, b = slot(rng), slot(rng)
                if cond and not cond(h.m[a]):
                    return None
                k = key(rng, h.m[a])
                ps, pf = rng.choice(PRED2)
                return name, fexpr % {"a": "o%d" % a, "b": "o%d" % b, "k": k, "p": ps}, fmodel(h.m[a], h.m[b], k, pf), "pure"
            o.append(op)
        q("mapping-ref", "(mapping-ref %(a)s %(k)d (lambda () -77))", lambda m, b, k, p: m.get(k, -77))
        q("mapping-ref-success", "(mapping-ref %(a)s %(k)d (lambda () -77) (lambda (v) (+ v 1000)))", lambda m, b, k, p: m[k] + 1000 if k in m else -77)
        q("mapping-ref/default", "(mapping-ref/default %(a)s %(k)d -78)", lambda m, b, k, p: m.get(k, -78))
        q("mapping-contains?", "(list (mapping-contains? %(a)s %(k)d) (mapping-empty? %(a)s) (mapping? %(a)s))", lambda m, b, k, p: [k in m, not m, True])
        q("mapping-size", "(mapping-size %(a)s)", lambda m, b, k, p: len(m))
        q("mapping-disjoint?", "(list (mapping-disjoint? %(a)s %(b)s))", lambda m, b, k, p: [not (set(m) & set(b))])
        q("mapping-find", "(call-with-values (lambda () (mapping-find %(p)s %(a)s (lambda () (values -1 -1)))) list)",
          lambda m, b, k, p: next(([x, m[x]] for x in sorted(m) if p(x, m[x])), [-1, -1]))
        q("mapping-count", "(mapping-count %(p)s %(a)s)", lambda m, b, k, p: sum(1 for x, v in m.items() if p(x, v)))
        q("mapping-any?", "(list (mapping-any? %(p)s %(a)s) (mapping-every? %(p)s %(a)s))",
          lambda m, b, k, p: [any(p(x, v) for x, v in m.items()), all(p(x, v) for x, v in m.items())])
        q("mapping-keys", "(list (mapping-keys %(a)s) (mapping-values %(a)s))", lambda m, b, k, p: [sorted(m), [m[x] for x in sorted(m)]])
        q("mapping-entries", "(call-with-values (lambda () (mapping-entries %(a)s)) list)", lambda m, b, k, p: [sorted(m), [m[x] for x in sorted(m)]])
        q("mapping-map->list", "(mapping-map->list (lambda (k v) (- v k)) %(a)s)", lambda m, b, k, p: [m[x] - x for x in sorted(m)])
        q("mapping-for-each", "(let ((acc '())) (mapping-for-each (lambda (k v) (set! acc (cons k acc))) %(a)s) acc)", lambda m, b, k, p: sorted(m)[::-1])
        q("mapping-fold", "(mapping-fold (lambda (k v acc) (cons (+ k v) acc)) '() %(a)s)", lambda m, b, k, p: [x + m[x] for x in sorted(m)][::-1])
        q("mapping-fold/reverse", "(mapping-fold/reverse (lambda (k v acc) (cons (+ k v) acc)) '() %(a)s)", lambda m, b, k, p: [x + m[x] for x in sorted(m)])
        q("mapping=?", "(list (mapping=? cmp %(a)s %(b)s) (mapping<=? cmp %(a)s %(b)s) (mapping=? cmp %(a)s (mapping-copy %(a)s)) (mapping<=? cmp %(a)s %(a)s))",
          lambda m, b, k, p: [m == b, subm(m, b), True, True])
        q("mapping<?", "(list (mapping<? cmp %(a)s %(b)s) (mapping>? cmp %(a)s %(b)s))",
          lambda m, b, k, p: [subm(m, b) and m != b, subm(b, m) and m != b])
        q("mapping>=?", "(list (mapping>=? cmp %(a)s %(b)s))", lambda m, b, k, p: [subm(b, m)])
        q("mapping-min-key", "(list (mapping-min-key %(a)s) (mapping-max-key %(a)s) (mapping-min-value %(a)s) (mapping-max-value %(a)s))",
          lambda m, b, k, p: [min(m), max(m), m[min(m)], m[max(m)]], cond=lambda m: len(m) > 0)
        q("mapping-key-predecessor", "(list (mapping-key-predecessor %(a)s %(k)d (lambda () -99)) (mapping-key-successor %(a)s %(k)d (lambda () -99)))",
          lambda m, b, k, p: [max([x for x in m if x < k], default=-99), min([x for x in m if x > k], default=-99)])


def subm(a, b):
    return all(k in b and b[k] == v for k, v in a.items())



# ================================================================================================
# (chibi iset): integer sets as trees of ranges / bitmaps

class Iset(Lib):
    name = "iset"
    imports = "(import (scheme base) (scheme write) (scheme process-context) (chibi iset))"
    header = "(define (%canon s) (%sorted (iset->list s)))\n"

    def ielem(self, rng, h=None):
        r = rng.random()
        base = h.base if h is not None else 0
        if r < 0.45:
            return base + rng.randrange(0, 300)                 # dense: bitmaps
        if r < 0.65:
            return base + 1000 * rng.randrange(0, 40)           # sparse
        if r < 0.8:
            return base + rng.choice([127, 128, 129, 255, 256, 257, 511, 512, 513, 1023, 1024])
        if r < 0.9:
            return base + rng.randrange(0, 100000)
        return base + rng.choice([0, 1, 2, 3])

    def begin(self, h, rng):
        # iset-union used to build trees with overlapping nodes (repaired, fix 81ffddf); unions are still named in later
        # signatures so that a return of that kind of damage is attributed, and now take part in two thirds of the histories
        h.risky = rng.random() < 0.67
        h.sig_extra = {"after": "none"}

    def init(self, rng, i):
        xs = sorted({self.ielem(rng) for _ in range(rng.choice([0, 1, 3, 8, 20, 40]))})
        return set(xs), "(iset %s)" % " ".join(map(str, xs))

    def canon(self, m):
        return sorted(m)

    def __init__(self):
        Lib.__init__(self)
        o = self.ops
        lib = self

        class H0:
            base = 0
        h0 = H0()

        def store(h, d, val, expr, name):
            h.m[d] = set(val)
            return name, "(begin (set! o%d %s) (%%canon o%d))" % (d, expr, d), sorted(h.m[d])

        def upd(name, fexpr, fmodel, bang=False):
            def op(h, rng):
                a = slot(rng)
                d = a if bang else slot(rng)
                x = lib.ielem(rng, h0)
                y = rng.choice(sorted(h.m[a])) if h.m[a] and rng.random() < 0.6 else lib.ielem(rng, h0)
                return store(h, d, fmodel(h.m[a], x, y), fexpr % {"a": "o%d" % a, "x": x, "y": y}, name)
            o.append(op)
        upd("iset-adjoin", "(iset-adjoin %(a)s %(x)d %(y)d)", lambda s, x, y: s | {x, y})
        upd("iset-adjoin!", "(iset-adjoin! %(a)s %(x)d)", lambda s, x, y: s | {x}, True)
        upd("iset-delete", "(iset-delete %(a)s %(y)d %(x)d)", lambda s, x, y: s - {x, y})
        upd("iset-delete!", "(iset-delete! %(a)s %(y)d)", lambda s, x, y: s - {y}, True)
        upd("list->iset", "(list->iset (list %(x)d %(y)d %(x)d) %(a)s)", lambda s, x, y: s | {x, y})
        upd("list->iset!", "(list->iset! (list %(x)d %(y)d) %(a)s)", lambda s, x, y: s | {x, y}, True)

        def rng_op(h, rng):
            if not h.risky:
                return None
            h.sig_extra = {"after": "union"}
            a, d = slot(rng), slot(rng)
            lo = lib.ielem(rng, h0)
            hi = lo + rng.choice([0, 1, 5, 60, 127, 128, 129, 300, 700])
            return store(h, d, h.m[a] | set(range(lo, hi + 1)), "(iset-union o%d (make-iset %d %d))" % (a, lo, hi), "make-iset-range")
        o.append(rng_op)

        def binop(name, fexpr, fmodel, bang=False):
            def op(h, rng):
                a, b = slot(rng), slot(rng)
                d = a if bang else slot(rng)
                if bang and a == b:
                    return None
                if "union" in name:
                    if not h.risky:
                        return None
                    h.sig_extra = {"after": "union"}
                bexpr = "o%d" % b if not bang else "o%d" % b
                return store(h, d, fmodel(h.m[a], h.m[b]), fexpr % {"a": "o%d" % a, "b": bexpr}, name)
            o.append(op)
        binop("iset-union", "(iset-union %(a)s %(b)s)", lambda x, y: x | y)
        binop("iset-intersection", "(iset-intersection %(a)s %(b)s)", lambda x, y: x & y)
        binop("iset-difference", "(iset-difference %(a)s %(b)s)", lambda x, y: x - y)
        binop("iset-union!", "(iset-union! %(a)s %(b)s)", lambda x, y: x | y, True)
        binop("iset-intersection!", "(iset-intersection! %(a)s %(b)s)", lambda x, y: x & y, True)
        binop("iset-difference!", "(iset-difference! %(a)s %(b)s)", lambda x, y: x - y, True)

        def un(name, fexpr, fmodel):
            def op(h, rng):
                a, d = slot(rng), slot(rng)
                return store(h, d, fmodel(h.m[a]), fexpr % {"a": "o%d" % a}, name)
            o.append(op)
        un("iset-copy", "(iset-copy %(a)s)", lambda s: s)
        un("iset-map", "(iset-map (lambda (x) (+ 3 (* 2 x))) %(a)s)", lambda s: {3 + 2 * x for x in s})
        un("iset-map-collapse", "(iset-map (lambda (x) (quotient x 7)) %(a)s)", lambda s: {x // 7 for x in s})

        def q(name, fexpr, fmodel, cond=None):
            def op(h, rng):
                a, b = slot(rng), slot(rng)
                if cond and not cond(h.m[a]):
                    return None
                x = rng.choice(sorted(h.m[a])) if h.m[a] and rng.random() < 0.5 else lib.ielem(rng, h0)
                exp = fmodel(h.m[a], h.m[b], x)
                if exp is None:
                    return None
                return name, fexpr % {"a": "o%d" % a, "b": "o%d" % b, "x": x}, exp, "pure"
            o.append(op)
        q("iset-contains?", "(list (iset-contains? %(a)s %(x)d) (iset-contains? %(a)s (+ %(x)d 1)) (iset-contains? %(a)s (- %(x)d 1)))",
          lambda s, b, x: [x in s, x + 1 in s, x - 1 in s])
        q("iset-size", "(list (iset-size %(a)s) (iset-empty? %(a)s) (iset? %(a)s))", lambda s, b, x: [len(s), not s, True])
        q("iset->list", "(iset->list %(a)s)", lambda s, b, x: sorted(s))
        q("iset-fold", "(iset-fold (lambda (x acc) (cons x acc)) '() %(a)s)", lambda s, b, x: sorted(s)[::-1])
        q("iset-for-each", "(let ((acc '())) (iset-for-each (lambda (x) (set! acc (cons x acc))) %(a)s) acc)", lambda s, b, x: sorted(s)[::-1])
        q("iset=", "(list (iset= %(a)s %(b)s) (iset<= %(a)s %(b)s) (iset>= %(a)s %(b)s) (iset= %(a)s (iset-copy %(a)s)))",
          lambda s, b, x: [s == b, s <= b, s >= b, True])
        q("iset-cursor", "(let lp ((c (iset-cursor %(a)s)) (acc '())) (if (end-of-iset? c) (reverse acc) (lp (iset-cursor-next %(a)s c) (cons (iset-ref %(a)s c) acc))))",
          lambda s, b, x: sorted(s))
        q("iset-rank", "(iset-rank %(a)s %(x)d)", lambda s, b, x: sorted(s).index(x) if x in s else None, cond=lambda s: len(s) > 0)
        q("iset-select", "(iset-select %(a)s (modulo %(x)d (iset-size %(a)s)))", lambda s, b, x: sorted(s)[x % len(s)], cond=lambda s: len(s) > 0)



# ================================================================================================
# generic sequence adapter used by SRFI 101 (random-access lists), SRFI 117 (list queues), SRFI 134 (ideques)

class SeqLib(Lib):
    to_list = "%s"          # scheme: object -> list
    from_list = "%s"        # scheme: list -> object

    def init(self, rng, i):
        xs = rnd_list(rng)
        return xs, self.from_list % ilist(xs)

    def store(self, h, d, val, expr, name):
        h.m[d] = cut(list(val))
        return name, "(begin (set! o%d (%%cut %s)) (%%canon o%d))" % (d, expr, d), h.m[d]

    def unary(self, name, fexpr, fmodel, cond=None):
        def op(h, rng):
            a, d = slot(rng), slot(rng)
            if cond and not cond(h.m[a]):
                return None
            return self.store(h, d, fmodel(h.m[a]), fexpr % {"a": "o%d" % a}, name)
        self.ops.append(op)

    def binary(self, name, fexpr, fmodel):
        def op(h, rng):
            a, b, d = slot(rng), slot(rng), slot(rng)
            return self.store(h, d, fmodel(h.m[a], h.m[b]), fexpr % {"a": "o%d" % a, "b": "o%d" % b}, name)
        self.ops.append(op)

    def with_k(self, name, fexpr, fmodel, strict=False):
        def op(h, rng):
            a, d = slot(rng), slot(rng)
            n = len(h.m[a])
            if strict and n == 0:
                return None
            k = rng.randrange(0, n if strict else n + 1)
            x = elem(rng)
            return self.store(h, d, fmodel(h.m[a], k, x), fexpr % {"a": "o%d" % a, "k": k, "x": x}, name)
        self.ops.append(op)

    def with_pred(self, name, fexpr, fmodel, obs=False):
        def op(h, rng):
            a, d = slot(rng), slot(rng)
            ps, pf = rng.choice(PREDS)
            if obs:
                return name, fexpr % {"a": "o%d" % a, "p": ps}, fmodel(h.m[a], pf), "pure"
            return self.store(h, d, fmodel(h.m[a], pf), fexpr % {"a": "o%d" % a, "p": ps}, name)
        self.ops.append(op)

    def observe(self, name, fexpr, fmodel, cond=None):
        def op(h, rng):
            a, b = slot(rng), slot(rng)
            if cond and not cond(h.m[a]):
                return None
            k = rng.randrange(0, len(h.m[a])) if h.m[a] else 0
            return name, fexpr % {"a": "o%d" % a, "b": "o%d" % b, "k": k}, fmodel(h.m[a], h.m[b], k), "pure"
        self.ops.append(op)


class Srfi101(SeqLib):
    name = "srfi101"
    imports = "(import (scheme base) (scheme write) (scheme process-context) (prefix (srfi 101) ra:))"
    header = ("(define (%canon x) (ra:random-access-list->linear-access-list x))\n"
              "(define (%from l) (ra:linear-access-list->random-access-list l))\n"
              "(define (%cut x) (if (> (ra:length x) 40) (%from (list-tail (%canon x) (- (ra:length x) 40))) x))\n")
    from_list = "(%%from %s)"

    def store(self, h, d, val, expr, name):
        val = list(val)
        h.m[d] = val[-MAXLEN:] if len(val) > MAXLEN else val
        return name, "(begin (set! o%d (%%cut %s)) (%%canon o%d))" % (d, expr, d), h.m[d]

    def __init__(self):
        Lib.__init__(self)
        self.with_k("cons", "(ra:cons %(x)d %(a)s)", lambda a, k, x: [x] + a)
        self.unary("cdr", "(ra:cdr %(a)s)", lambda a: a[1:], cond=lambda a: len(a) > 0)
        self.unary("cddr", "(ra:cddr %(a)s)", lambda a: a[2:], cond=lambda a: len(a) > 1)
        self.with_k("list-tail", "(ra:list-tail %(a)s %(k)d)", lambda a, k, x: a[k:])
        self.with_k("list-set", "(ra:list-set %(a)s %(k)d %(x)d)", lambda a, k, x: a[:k] + [x] + a[k + 1:], strict=True)
        self.binary("append", "(ra:append %(a)s %(b)s)", lambda a, b: a + b)
        self.binary("append3", "(ra:append %(a)s %(b)s %(a)s)", lambda a, b: a + b + a)
        self.unary("reverse", "(ra:reverse %(a)s)", lambda a: a[::-1])
        self.unary("map", "(ra:map (lambda (x) (- (* 2 x) 1)) %(a)s)", lambda a: [2 * x - 1 for x in a])
        self.binary("map2", "(ra:map + %(a)s %(a)s)", lambda a, b: [x + x for x in a])
        self.with_k("make-list", "(ra:make-list %(k)d %(x)d)", lambda a, k, x: [x] * k)
        self.with_k("list", "(ra:list %(x)d 1 2 %(k)d)", lambda a, k, x: [x, 1, 2, k])

        def ref_update(h, rng):
            a, d = slot(rng), slot(rng)
            n = len(h.m[a])
            if n == 0:
                return None
            k = rng.randrange(n)
            old = h.m[a][k]
            new = h.m[a][:k] + [old + 100] + h.m[a][k + 1:]
            h.m[d] = new
            return ("list-ref/update", "(call-with-values (lambda () (ra:list-ref/update o%d %d (lambda (x) (+ x 100)))) (lambda (v l) (set! o%d l) (list v (%%canon l))))"
                    % (a, k, d), [old, new])
        self.ops.append(ref_update)
        self.observe("list-ref", "(ra:list-ref %(a)s %(k)d)", lambda a, b, k: a[k], cond=lambda a: len(a) > 0)
        self.observe("car", "(list (ra:car %(a)s) (ra:pair? %(a)s) (ra:null? %(a)s) (ra:list? %(a)s))", lambda a, b, k: [a[0], True, False, True],
                     cond=lambda a: len(a) > 0)
        self.observe("cadr", "(list (ra:cadr %(a)s) (ra:caddr %(a)s))", lambda a, b, k: [a[1], a[2]], cond=lambda a: len(a) > 2)
        self.observe("length", "(list (ra:length %(a)s) (ra:null? %(a)s) (ra:length<=? %(a)s %(k)d))",
                     lambda a, b, k: [len(a), len(a) == 0, k <= len(a)])
        self.observe("for-each", "(let ((acc '())) (ra:for-each (lambda (x) (set! acc (cons x acc))) %(a)s) acc)", lambda a, b, k: a[::-1])
        self.observe("equal", "(list (equal? %(a)s %(b)s) (equal? %(a)s (%%from (%%canon %(a)s))))", lambda a, b, k: [a == b, True])


class Srfi117(SeqLib):
    """list queues are mutable: in-place operations act on the live object"""
    name = "srfi117"
    imports = "(import (scheme base) (scheme write) (scheme process-context) (only (srfi 1) last-pair) (srfi 117))"
    header = ("(define (%canon q) (list-copy (list-queue-list q)))\n"
              "(define (%cut q) (if (> (length (list-queue-list q)) 40) (make-list-queue (list-copy (list-tail (list-queue-list q) (- (length (list-queue-list q)) 40)))) q))\n")
    from_list = "(make-list-queue %s)"

    def begin(self, h, rng):
        # list-queue-remove-back! leaves a stale last-pair pointer on the unchanged tree (known finding): it is kept to
        # a third of the histories and named in the signature of whatever goes wrong afterwards
        h.risky = rng.random() < 0.67
        h.sig_extra = {"after": "none"}

    def store(self, h, d, val, expr, name):
        val = list(val)
        h.m[d] = val[-MAXLEN:] if len(val) > MAXLEN else val
        return name, "(begin (set! o%d (%%cut %s)) (%%canon o%d))" % (d, expr, d), h.m[d]

    def __init__(self):
        Lib.__init__(self)
        o = self.ops

        def mutate(name, gen):
            def op(h, rng):
                a = slot(rng)
                r = gen(h, rng, a)
                if r is None:
                    return None
                code, new, res = r
                h.m[a] = list(new)
                return name, "(let ((r %s)) (list r (%%canon o%d)))" % (code, a), [res, h.m[a]]
            o.append(op)
        mutate("add-front!", lambda h, rng, a: (lambda x: ("(begin (list-queue-add-front! o%d %d) 0)" % (a, x), [x] + h.m[a], 0))(elem(rng))
               if len(h.m[a]) < MAXLEN else None)
        mutate("add-back!", lambda h, rng, a: (lambda x: ("(begin (list-queue-add-back! o%d %d) 0)" % (a, x), h.m[a] + [x], 0))(elem(rng))
               if len(h.m[a]) < MAXLEN else None)
        mutate("remove-front!", lambda h, rng, a: ("(list-queue-remove-front! o%d)" % a, h.m[a][1:], h.m[a][0]) if h.m[a] else None)
        def remove_back(h, rng, a):
            if not h.m[a] or not h.risky:
                return None
            if len(h.m[a]) > 1:
                h.sig_extra = {"after": "remove-back!"}
            return "(list-queue-remove-back! o%d)" % a, h.m[a][:-1], h.m[a][-1]
        mutate("remove-back!", remove_back)
        mutate("remove-all!", lambda h, rng, a: ("(list-queue-remove-all! o%d)" % a, [], list(h.m[a])))
        mutate("set-list!", lambda h, rng, a: (lambda xs: ("(begin (list-queue-set-list! o%d %s) 0)" % (a, ilist(xs)), xs, 0))(rnd_list(rng) + [2]))
        mutate("set-list!-last", lambda h, rng, a: (lambda xs: ("(let ((l %s)) (list-queue-set-list! o%d l (last-pair l)) 0)" % (ilist(xs), a), xs, 0))(rnd_list(rng) + [1]))
        mutate("map!", lambda h, rng, a: ("(begin (list-queue-map! (lambda (x) (- 7 x)) o%d) 0)" % a, [7 - x for x in h.m[a]], 0)
               if h.m[a] else None)
        # the empty list: on temporaries, as pure queries (they raise on the unchanged tree)
        self.observe("set-list!-empty", "(%%try (lambda () (let ((q (list-queue 1 2))) (list-queue-set-list! q (list)) (list (list-queue-empty? q) (list-queue-list q)))))",
                     lambda a, b, k: [True, []])
        self.observe("map!-empty", "(%%try (lambda () (let ((q (list-queue))) (list-queue-map! (lambda (x) x) q) (list (list-queue-empty? q) (list-queue-list q)))))",
                     lambda a, b, k: [True, []])
        self.unary("list-queue-copy", "(list-queue-copy %(a)s)", lambda a: a)
        self.unary("list-queue", "(apply list-queue (list-queue-list %(a)s))", lambda a: a)
        self.unary("list-queue-unfold", "(list-queue-unfold (lambda (i) (>= i (length (list-queue-list %(a)s)))) (lambda (i) (* i 3)) (lambda (i) (+ i 1)) 0)",
                   lambda a: [3 * i for i in range(len(a))])
        self.unary("list-queue-unfold-right", "(list-queue-unfold-right (lambda (i) (>= i (length (list-queue-list %(a)s)))) (lambda (i) (* i 3)) (lambda (i) (+ i 1)) 0)",
                   lambda a: [3 * i for i in range(len(a))][::-1])
        self.unary("list-queue-unfold-onto", "(list-queue-unfold (lambda (i) (>= i 3)) (lambda (i) i) (lambda (i) (+ i 1)) 0 (list-queue-copy %(a)s))",
                   lambda a: [0, 1, 2] + a)
        self.unary("make-list-queue", "(make-list-queue (list-copy (list-queue-list %(a)s)))", lambda a: a)
        self.unary("make-list-queue-last", "(let ((l (append (list-copy (list-queue-list %(a)s)) (list 5)))) (make-list-queue l (last-pair l)))", lambda a: a + [5])
        self.unary("list-queue-map", "(list-queue-map (lambda (x) (* x x)) %(a)s)", lambda a: [x * x for x in a])
        self.binary("list-queue-append", "(list-queue-append %(a)s %(b)s)", lambda a, b: a + b)
        self.binary("list-queue-append3", "(list-queue-append %(a)s %(b)s %(a)s)", lambda a, b: a + b + a)
        self.binary("list-queue-append!", "(list-queue-append! (list-queue-copy %(a)s) (list-queue-copy %(b)s) (list-queue))", lambda a, b: a + b)
        self.binary("list-queue-concatenate", "(list-queue-concatenate (list %(a)s (list-queue 1 2) %(b)s))", lambda a, b: a + [1, 2] + b)
        self.observe("front-back", "(list (list-queue-front %(a)s) (list-queue-back %(a)s) (list-queue-empty? %(a)s) (list-queue? %(a)s))",
                     lambda a, b, k: [a[0], a[-1], False, True], cond=lambda a: len(a) > 0)
        self.observe("empty?", "(list (list-queue-empty? %(a)s))", lambda a, b, k: [len(a) == 0])
        self.observe("first-last", "(call-with-values (lambda () (list-queue-first-last %(a)s)) (lambda (f l) (list (list-copy f) (list-copy l))))",
                     lambda a, b, k: [a, a[-1:]])
        self.observe("for-each", "(let ((acc '())) (list-queue-for-each (lambda (x) (set! acc (cons x acc))) %(a)s) acc)", lambda a, b, k: a[::-1])


class Srfi134(SeqLib):
    name = "srfi134"
    imports = "(import (scheme base) (scheme write) (scheme process-context) (srfi 134))"
    header = ("(define (%canon d) (ideque->list d))\n"
              "(define (%cut d) (let* ((l (ideque->list d)) (n (length l))) (if (> n 40) (list->ideque (list-tail l (- n 40))) d)))\n"
              ";; the length field is part of every observation of a deque\n"
              ";; ... and so is the agreement of the end accessors with the list view: front, back, remove-front, remove-back\n"
              "(define (%butlast l) (if (or (null? l) (null? (cdr l))) '() (cons (car l) (%butlast (cdr l)))))\n"
              "(define (%last l) (if (null? (cdr l)) (car l) (%last (cdr l))))\n"
              "(define (%canon d)\n"
              "  (let ((l (ideque->list d)))\n"
              "    (cond ((not (= (length l) (ideque-length d))) (cons -1000000 (cons (ideque-length d) l)))\n"
              "          ((null? l) (if (ideque-empty? d) l (cons -2000000 l)))\n"
              "          ((not (and (equal? (ideque-front d) (car l)) (equal? (ideque-back d) (%last l))\n"
              "                     (equal? (ideque->list (ideque-remove-front d)) (cdr l))\n"
              "                     (equal? (ideque->list (ideque-remove-back d)) (%butlast l))))\n"
              "           (cons -2000000 (cons (ideque-front d) (cons (ideque-back d) l))))\n"
              "          (else l))))\n")
    from_list = "(list->ideque %s)"

    def begin(self, h, rng):
        # ideque-drop / ideque-take-right build deques with a wrong length field on the unchanged tree (known finding):
        # kept to a third of the histories and named in the signature of whatever goes wrong afterwards
        h.risky = rng.random() < 0.67
        h.sig_extra = {"after": "none"}

    def with_k(self, name, fexpr, fmodel, strict=False):
        if name not in ("drop", "take-right"):
            return SeqLib.with_k(self, name, fexpr, fmodel, strict)

        def op(h, rng):
            a, d = slot(rng), slot(rng)
            n = len(h.m[a])
            if n == 0 or not h.risky:
                return None
            k = rng.randrange(0, n)
            h.sig_extra = {"after": "drop"}
            return self.store(h, d, fmodel(h.m[a], k, 0), fexpr % {"a": "o%d" % a, "k": k, "x": 0}, name)
        self.ops.append(op)

    def store(self, h, d, val, expr, name):
        val = list(val)
        h.m[d] = val[-MAXLEN:] if len(val) > MAXLEN else val
        return name, "(begin (set! o%d (%%cut %s)) (%%canon o%d))" % (d, expr, d), h.m[d]

    def __init__(self):
        Lib.__init__(self)
        ne = lambda a: len(a) > 0
        self.with_k("add-front", "(ideque-add-front %(a)s %(x)d)", lambda a, k, x: [x] + a)
        self.with_k("add-back", "(ideque-add-back %(a)s %(x)d)", lambda a, k, x: a + [x])
        self.unary("remove-front", "(ideque-remove-front %(a)s)", lambda a: a[1:], cond=ne)
        self.unary("remove-back", "(ideque-remove-back %(a)s)", lambda a: a[:-1], cond=ne)
        self.with_k("take", "(ideque-take %(a)s %(k)d)", lambda a, k, x: a[:k], strict=True)
        self.with_k("drop", "(ideque-drop %(a)s %(k)d)", lambda a, k, x: a[k:], strict=True)
        self.with_k("take-right", "(ideque-take-right %(a)s %(k)d)", lambda a, k, x: a[len(a) - k:], strict=True)
        self.with_k("drop-right", "(ideque-drop-right %(a)s %(k)d)", lambda a, k, x: a[:len(a) - k], strict=True)
        # n = length is legal (SRFI 134) but rejected on the unchanged tree: observed separately, as pure queries
        self.observe("take-full", "(%%try (lambda () (list (%%canon (ideque-take %(a)s (ideque-length %(a)s))) (%%canon (ideque-drop %(a)s (ideque-length %(a)s))))))",
                     lambda a, b, k: [a, []])
        self.observe("take-right-full", "(%%try (lambda () (list (%%canon (ideque-take-right %(a)s (ideque-length %(a)s))) (%%canon (ideque-drop-right %(a)s (ideque-length %(a)s))))))",
                     lambda a, b, k: [a, []])
        self.observe("split-at-full", "(%%try (lambda () (call-with-values (lambda () (ideque-split-at %(a)s (ideque-length %(a)s))) (lambda (x y) (list (%%canon x) (%%canon y))))))",
                     lambda a, b, k: [a, []])
        self.binary("append", "(ideque-append %(a)s %(b)s)", lambda a, b: a + b)
        self.binary("append3", "(ideque-append %(a)s %(b)s %(a)s)", lambda a, b: a + b + a)
        self.unary("append0", "(ideque-append)", lambda a: [])
        self.unary("reverse", "(ideque-reverse %(a)s)", lambda a: a[::-1])
        self.unary("map", "(ideque-map (lambda (x) (+ (* 2 x) 1)) %(a)s)", lambda a: [2 * x + 1 for x in a])
        self.unary("filter-map", "(ideque-filter-map (lambda (x) (and (even? x) (* x x))) %(a)s)", lambda a: [x * x for x in a if x % 2 == 0])
        self.unary("append-map", "(ideque-append-map (lambda (x) (list x (- x))) %(a)s)", lambda a: [y for x in a for y in (x, -x)])
        self.unary("tabulate", "(ideque-tabulate (ideque-length %(a)s) (lambda (i) (- (* i i) 1)))", lambda a: [i * i - 1 for i in range(len(a))])
        self.unary("unfold", "(ideque-unfold (lambda (i) (>= i (ideque-length %(a)s))) (lambda (i) (* 2 i)) (lambda (i) (+ i 1)) 0)",
                   lambda a: [2 * i for i in range(len(a))])
        self.unary("unfold-right", "(ideque-unfold-right (lambda (i) (>= i (ideque-length %(a)s))) (lambda (i) (* 2 i)) (lambda (i) (+ i 1)) 0)",
                   lambda a: [2 * i for i in range(len(a))][::-1])
        self.unary("ideque", "(apply ideque (ideque->list %(a)s))", lambda a: a)
        self.with_pred("filter", "(ideque-filter %(p)s %(a)s)", lambda a, p: [x for x in a if p(x)])
        self.with_pred("remove", "(ideque-remove %(p)s %(a)s)", lambda a, p: [x for x in a if not p(x)])
        self.with_pred("take-while", "(ideque-take-while %(p)s %(a)s)", lambda a, p: a[:tw_(a, p)])
        self.with_pred("drop-while", "(ideque-drop-while %(p)s %(a)s)", lambda a, p: a[tw_(a, p):])
        self.with_pred("take-while-right", "(ideque-take-while-right %(p)s %(a)s)", lambda a, p: a[len(a) - tw_(a[::-1], p):])
        self.with_pred("drop-while-right", "(ideque-drop-while-right %(p)s %(a)s)", lambda a, p: a[:len(a) - tw_(a[::-1], p)])
        self.with_pred("partition", "(call-with-values (lambda () (ideque-partition %(p)s %(a)s)) (lambda (x y) (list (%%canon x) (%%canon y))))",
                       lambda a, p: [[x for x in a if p(x)], [x for x in a if not p(x)]], obs=True)
        self.with_pred("span", "(call-with-values (lambda () (ideque-span %(p)s %(a)s)) (lambda (x y) (list (%%canon x) (%%canon y))))",
                       lambda a, p: [a[:tw_(a, p)], a[tw_(a, p):]], obs=True)
        self.with_pred("break", "(call-with-values (lambda () (ideque-break %(p)s %(a)s)) (lambda (x y) (list (%%canon x) (%%canon y))))",
                       lambda a, p: [a[:tw_(a, lambda x: not p(x))], a[tw_(a, lambda x: not p(x)):]], obs=True)
        self.with_pred("find", "(list (ideque-find %(p)s %(a)s (lambda () -77)) (ideque-find-right %(p)s %(a)s (lambda () -77)))",
                       lambda a, p: [next((x for x in a if p(x)), -77), next((x for x in reversed(a) if p(x)), -77)], obs=True)
        self.with_pred("count", "(ideque-count %(p)s %(a)s)", lambda a, p: sum(1 for x in a if p(x)), obs=True)
        self.with_pred("any", "(list (ideque-any (lambda (x) (and (%(p)s x) (+ x 50))) %(a)s) (ideque-every (lambda (x) (and (%(p)s x) (+ x 50))) %(a)s))",
                       lambda a, p: [next((x + 50 for x in a if p(x)), False),
                                     True if not a else (a[-1] + 50 if all(p(x) for x in a) else False)], obs=True)

        def split_at(h, rng):
            a = slot(rng)
            if not h.m[a]:
                return None
            k = rng.randrange(0, len(h.m[a]))
            return ("split-at", "(call-with-values (lambda () (ideque-split-at o%d %d)) (lambda (x y) (list (%%canon x) (%%canon y))))" % (a, k),
                    [h.m[a][:k], h.m[a][k:]], "pure")
        self.ops.append(split_at)
        self.observe("front-back", "(list (ideque-front %(a)s) (ideque-back %(a)s) (ideque-empty? %(a)s) (ideque? %(a)s))",
                     lambda a, b, k: [a[0], a[-1], False, True], cond=ne)
        self.observe("length", "(list (ideque-length %(a)s) (ideque-empty? %(a)s))", lambda a, b, k: [len(a), len(a) == 0])
        self.observe("ref", "(ideque-ref %(a)s %(k)d)", lambda a, b, k: a[k], cond=ne)
        self.observe("ideque=", "(list (ideque= = %(a)s %(b)s) (ideque= = %(a)s (list->ideque (ideque->list %(a)s))) (ideque= = %(a)s %(b)s %(a)s) (ideque= =))",
                     lambda a, b, k: [a == b, True, a == b, True])
        self.observe("fold", "(ideque-fold (lambda (x acc) (cons x acc)) '() %(a)s)", lambda a, b, k: a[::-1])
        self.observe("fold-right", "(ideque-fold-right (lambda (x acc) (cons x acc)) '() %(a)s)", lambda a, b, k: a)
        self.observe("for-each", "(let ((acc '())) (ideque-for-each (lambda (x) (set! acc (cons x acc))) %(a)s) acc)", lambda a, b, k: a[::-1])
        self.observe("for-each-right", "(let ((acc '())) (ideque-for-each-right (lambda (x) (set! acc (cons x acc))) %(a)s) acc)", lambda a, b, k: a)
        self.observe("zip", "(ideque->list (ideque-zip %(a)s %(b)s))", lambda a, b, k: [[x, y] for x, y in zip(a, b)])


def tw_(a, p):
    i = 0
    while i < len(a) and p(a[i]):
        i += 1
    return i


LIBS = [Srfi1(), Srfi133(), Srfi113(), Srfi146(), Iset(), Srfi101(), Srfi117(), Srfi134()]
