"""C03 -- compiled evaluation implements the semantics of the core language (DESIGN.md section 3, C03).

Oracle: the definitional interpreter vf/props/c03_ref.py (written from R7RS sections 4 and 7, independent of
chibi's macros).  Every program is run by chibi inside ONE top-level form under a handler that classifies
the outcome; observed = (trace of log! calls, (value v) | (err class ...)); expected = the interpreter's.

Workloads: (i) enumerated variable-capture patterns, (ii) typed random programs, (iii) boundary call
protocols (see c03_gen.py).  Programs whose outcome R7RS does not prescribe (interpreter says OutOfDomain,
order-sensitive, or step budget exceeded) are dropped and counted, never compared.
"""
import concurrent.futures
import random

from .. import build as B
from .. import cases as C
from .. import run as R
from fractions import Fraction

from ..sexpr import Sym, Str, Char, Vec, Dotted
from . import c03_ref as M
from . import c03_gen as G

IMPORTS = "(import (scheme base) (scheme write) (scheme process-context))"

HEADER = r"""
(define %trace '())
(define (%norm x)
  (cond ((or (boolean? x) (number? x) (symbol? x) (char? x) (null? x)) x)
        ((string? x) (string-copy x))
        ((pair? x) (cons (%norm (car x)) (%norm (cdr x))))
        ((vector? x) (vector-map %norm x))
        ((procedure? x) '%proc)
        (else '%other)))
(define (log! x) (set! %trace (cons (%norm x) %trace)))
(define (%has? s sub)
  (let ((n (string-length s)) (m (string-length sub)))
    (let lp ((i 0))
      (cond ((> (+ i m) n) #f)
            ((string=? (substring s i (+ i m)) sub) #t)
            (else (lp (+ i 1)))))))
(define (%class e)
  (cond ((error-object? e)
         (let ((m (error-object-message e)))
           (cond ((not (string? m)) (list 'error '%nonstring (%norm (error-object-irritants e))))
                 ((member m '("not enough args" "too many args" "not enough args for opcode" "too many args for opcode"))
                  '(arity))
                 ((string=? m "undefined variable") '(unbound))
                 ((string=? m "divide by zero") '(div0))
                 ((string=? m "non procedure application") '(notproc))
                 ((%has? m "index out of range") '(range))
                 ((or (%has? m "invalid type") (%has? m ": not a")) '(type))
                 (else (list 'error m (%norm (error-object-irritants e)))))))
        (else (list 'raised (%norm e)))))
(define (%run thunk)
  (set! %trace '())
  (let ((r (call-with-current-continuation
            (lambda (k)
              (with-exception-handler
               (lambda (e) (k (cons 'err (%class e))))
               (lambda () (list 'value (%norm (thunk)))))))))
    (%obs (reverse %trace))
    (%obs r)))
"""


# ---------------------------------------------------------------- observation comparison
def from_sexpr(v):
    """vf.sexpr datum -> the interpreter's observation structure."""
    if isinstance(v, bool):
        return v
    if isinstance(v, Char):
        return ("char", int(v))
    if isinstance(v, int):
        return v
    if isinstance(v, Fraction):
        return ("rat", v.numerator, v.denominator) if v.denominator != 1 else v.numerator
    if isinstance(v, Sym):
        if v == "%proc":
            return M.PROC
        return ("sym", str(v))
    if isinstance(v, Str):
        return ("str", str(v))
    if isinstance(v, Vec):
        return ("vec", tuple(from_sexpr(e) for e in v))
    if isinstance(v, Dotted):
        return ("list", tuple(from_sexpr(e) for e in v.items), from_sexpr(v.tail))
    if isinstance(v, list):
        return ("list", tuple(from_sexpr(e) for e in v), None)
    return ("other", repr(v))


def match(exp, got):
    """exp may contain WILD (value unspecified by R7RS)."""
    if isinstance(exp, M.Wild):
        return True
    if isinstance(exp, M.OProc):
        return isinstance(got, M.OProc)
    if isinstance(exp, bool) or isinstance(got, bool):
        return isinstance(exp, bool) and isinstance(got, bool) and exp == got
    if isinstance(exp, int):
        return isinstance(got, int) and exp == got
    if not isinstance(got, tuple) or exp[0] != got[0]:
        return False
    if exp[0] == "list":
        if len(exp[1]) != len(got[1]):
            return False
        if (exp[2] is None) != (got[2] is None):
            return False
        if exp[2] is not None and not match(exp[2], got[2]):
            return False
        return all(match(a, b) for a, b in zip(exp[1], got[1]))
    if exp[0] == "vec":
        return len(exp[1]) == len(got[1]) and all(match(a, b) for a, b in zip(exp[1], got[1]))
    return exp == got


def outcome_class(o):
    """('list', (sym value, v)) -> 'value' ; errors -> 'err:<class>'"""
    try:
        items = o[1]
        if items[0] == ("sym", "value"):
            return "value"
        return "err:" + items[1][1]
    except Exception:
        return "?"


def expected_many(texts, jobs=None, budget=400000):
    """Interpreter outcomes for many programs, in parallel worker processes."""
    texts = list(texts)
    if len(texts) < 200:
        return [M.run_both(t, budget) for t in texts]
    jobs = jobs or R.JOBS
    chunk = max(50, len(texts) // (jobs * 8))
    with concurrent.futures.ProcessPoolExecutor(max_workers=jobs) as ex:
        return list(ex.map(_run_both, texts, chunksize=chunk))


def _run_both(t):
    return M.run_both(t)


class Prog:
    __slots__ = ("id", "sig", "tops", "main", "kind", "exp")

    def __init__(self, pid, sig, tops, main, kind):
        self.id = pid
        self.sig = sig            # coverage signature (hashable)
        self.tops = tops          # top-level definition texts
        self.main = main          # main expression text
        self.kind = kind          # pattern | random | protocol
        self.exp = None

    def model_text(self):
        return "\n".join(self.tops + [self.main])

    def case_text(self):
        return "\n".join(self.tops + ["(%%case* %s (%%run (lambda () %s)))" % (self.id, self.main)])


def vsig(p, mode, exp=None, got=None):
    """Stable violation signature: workload kind + the pattern / form class + failure mode + outcome classes."""
    sig = {"kind": p.kind, "mode": mode}
    if p.kind == "pattern":
        K, Cc, A, S, F, D = p.sig[1:7]
        sig.update(binder=K, capture=Cc, assign=A, shadow=S, fwd=F)
    elif p.kind == "protocol":
        sig["what"] = "/".join(str(x) for x in p.sig[1:3])
    elif p.kind == "toplevel":
        sig["what"] = "/".join(str(x) for x in p.sig[1:])
    if exp is not None:
        sig["expected"] = exp
    if got is not None:
        sig["observed"] = got
    return sig


def judge(rep, p, res, prop_builds=None):
    """Compare chibi's observation of program p with the interpreter's; True when they agree."""
    wit = {"program": p.model_text(), "tops": p.tops, "main": p.main,
           "expected_trace": M.show_obs(("list", p.exp[1], None)), "expected_outcome": M.show_obs(p.exp[2])}
    if res is None or res.status == "missing":
        rep.inconc("no-output", p.id)
        return None
    if res.status == "timeout":
        rep.inconc("timeout", p.model_text()[:300])
        return None
    if res.status == "crash":
        wit["detail"] = res.detail
        wit["partial_output"] = res.text[:400]
        rep.violation(vsig(p, "crash", outcome_class(p.exp[2])), wit)
        return False
    wit["observed"] = res.text.strip()[:1500]
    try:
        data = res.data()
    except Exception:
        rep.violation(vsig(p, "unparsable-output"), wit)
        return False
    if len(data) != 2:
        rep.violation(vsig(p, "unparsable-output"), wit)
        return False
    trace, outcome = from_sexpr(data[0]), from_sexpr(data[1])
    etrace = ("list", p.exp[1], None)
    ok_t = match(etrace, trace)
    ok_o = match(p.exp[2], outcome)
    if ok_t and ok_o:
        return True
    mode = "wrong-outcome" if ok_t else ("wrong-trace" if ok_o else "wrong-trace+outcome")
    rep.violation(vsig(p, mode, outcome_class(p.exp[2]), outcome_class(outcome)), wit)
    return False


# ---------------------------------------------------------------- workloads
def make_programs(tier, seed, errors=0.03, consts=0.0, n_random=None, pattern_variants=None):
    progs = []
    rng = random.Random(seed * 1000003 + 3)
    # (i) enumerated capture patterns
    maxd = 3 if tier == "quick" else 4
    variants = pattern_variants if pattern_variants is not None else (3 if tier == "quick" else 4)
    n = 0
    for combo in G.pattern_combos(maxd):
        for v in range(variants):
            prng = random.Random("%d/%r/%d" % (seed, combo, v))
            main = G.pattern_program(combo, prng)
            progs.append(Prog("a%d" % n, ("pattern",) + combo, [], main, "pattern"))
            n += 1
    # (iii) boundary protocols
    for i, (sig, main) in enumerate(G.protocol_programs(tier != "quick")):
        progs.append(Prog("b%d" % i, ("protocol",) + tuple(sig), [], main, "protocol"))
    # (iv) top-level sequences (globals assigned / redefined between definition and use)
    for i, (sig, tops, main) in enumerate(toplevel_programs()):
        progs.append(Prog("t%d" % i, sig, tops, main, "toplevel"))
    # (ii) typed random programs
    nr = n_random if n_random is not None else (8000 if tier == "quick" else 200000)
    for i in range(nr):
        g = G.Gen(rng, "r%d" % i, max_nodes=rng.choice([15, 30, 60]), errors=errors, consts=consts)
        tops, main = g.program(rng.randrange(2, 7))
        out = "err" if "error" in g.forms else "ok"
        progs.append(Prog("r%d" % i, ("random", frozenset(g.forms)), tops, main, "random"))
    return progs


def toplevel_programs():
    """(sig, tops, main): sequences of TOP-LEVEL forms - global variables holding procedures that are later assigned or
    redefined, consumers compiled before or after the change, redefinitions that use the old value (R7RS 5.3.1: a
    top-level define of an already bound variable is equivalent to set!)."""
    out = []
    targets = [("car", "cdr", "'(1 2 3)"), ("+", "*", "3 4"), ("list", "vector", "1 2"), ("cadr", "car", "'(5 6 7)"),
               ("(lambda (x) (list 'old x))", "(lambda (x) (list 'new x))", "9"),
               ("car", "(lambda (x) (list 'mine x))", "'(1 2)"), ("(lambda (x) (list 'old x))", "car", "'(7 8)")]
    n = 0
    for old, new, args in targets:
        for change in ("set!", "define"):
            for use in ("operator", "operand", "closure", "apply"):
                for when in ("before", "after", "both"):
                    n += 1
                    g, f, k = "tg%d" % n, "tf%d" % n, "tk%d" % n
                    if use == "operator":
                        consumer = "(define (%s) (%s %s))" % (f, g, args)
                    elif use == "operand":
                        consumer = "(define (%s) (map (lambda (p) (p %s)) (list %s)))" % (f, args, g)
                    elif use == "closure":
                        consumer = "(define %s (let ((n 0)) (lambda () (set! n (+ n 1)) (list n (%s %s)))))" % (f, g, args)
                    else:
                        consumer = "(define (%s) (apply %s (list %s)))" % (f, g, args)
                    chg = "(%s %s %s)" % (change, g, new)
                    tops = ["(define %s %s)" % (g, old)]
                    if when == "before":
                        tops += [consumer, chg]
                        main = "(list (%s))" % f
                    elif when == "after":
                        tops += [chg, consumer]
                        main = "(list (%s))" % f
                    else:
                        tops += [consumer, "(define %s (%s))" % (k, f), chg]
                        main = "(list %s (%s))" % (k, f)
                    out.append((("toplevel", "global-procedure", change, use, when, "prim" if old[0] != "(" else "lambda",
                                 "prim" if new[0] != "(" else "lambda"), tops, main))
    # redefinition / assignment using the old value
    m = 0
    for init, expr in (("5", "(+ {v} 1)"), ("'(1 2)", "(cons 0 {v})"), ("(lambda () 1)", "(let ((old {v})) (lambda () (+ 10 (old))))"),
                       ("10", "(let ((a {v})) (* a a))")):
        for change in ("define", "set!"):
            m += 1
            v = "tv%d" % m
            tops = ["(define %s %s)" % (v, init), "(%s %s %s)" % (change, v, expr.replace("{v}", v))]
            main = "(if (procedure? %s) (%s) %s)" % (v, v, v)
            out.append((("toplevel", "redefine-with-old-value", change, init[:6]), tops, main))
    # a definition after use in a procedure body compiled earlier (forward reference at top level)
    out.append((("toplevel", "forward-reference"), ["(define (tfw1) (tfw2 4))", "(define (tfw2 x) (* x 2))"], "(tfw1)"))
    out.append((("toplevel", "forward-reference-redefined"), ["(define (tfw3) (tfw4 4))", "(define (tfw4 x) (* x 2))",
                                                               "(define tfw5 (tfw3))", "(define (tfw4 x) (* x 3))"], "(list tfw5 (tfw3))"))
    return out


def filter_by_model(rep, progs):
    """Attach expectations; drop (and count) programs outside the compared domain."""
    exps = expected_many([p.model_text() for p in progs])
    keep = []
    for p, e in zip(progs, exps):
        if e[0] == "ok":
            p.exp = e
            keep.append(p)
        else:
            rep.count("dropped_" + e[0].replace("-", "_") + "_" + p.kind)
            if p.kind != "random" and e[0] != "ood":
                # enumerated programs are meant to be inside the domain: make a generator slip visible
                rep.count("dropped_enumerated")
                rep.extra.setdefault("dropped_examples", [])
                if len(rep.extra["dropped_examples"]) < 5:
                    rep.extra["dropped_examples"].append({"program": p.model_text()[:600], "why": list(e)[:3]})
    return keep


def isolated(p):
    """Programs that assign a rest parameter run one per process: a known defect (C03-assigned-rest-elided)
    corrupts the VM stack there and the damage would otherwise surface in whatever case happens to follow."""
    if p.kind == "toplevel":
        return True      # their top-level forms run outside the case wrapper: an error there ends the process
    return p.kind == "protocol" and p.sig[1] == "rest-use" and str(p.sig[2]).startswith("set-target")


def run_on(build, progs, env_extra=None, batch=150, timeout=60, header=None):
    HEADER = header or globals()["HEADER"]
    shared = [(p.id, p.case_text()) for p in progs if not isolated(p)]
    alone = [(p.id, p.case_text()) for p in progs if isolated(p)]
    res, procs = C.run_batches(build, IMPORTS, HEADER, shared, batch=batch, env_extra=env_extra, timeout=timeout,
                               heap="16M/256M")
    if alone:
        res2, procs2 = C.run_batches(build, IMPORTS, HEADER, alone, batch=1, env_extra=env_extra, timeout=timeout,
                                     heap="16M/256M")
        res.update(res2)
        procs += procs2
    return res, procs


def check(rep, tier, seed):
    b = B.ensure("hooks")
    rep.builds.add("hooks")
    progs = make_programs(tier, seed)
    progs = filter_by_model(rep, progs)
    res, procs = run_on(b, progs, env_extra={"CHIBI_VERIF_HEAPCHECK": 1})
    nerr = 0
    for p in progs:
        if p.kind == "random":
            # distinct = set of forms used, reduced to the rarer half so the count is not just "all different"
            rep.case(("random", outcome_class(p.exp[2]), frozenset(f for f in p.sig[1] if f not in
                                                                  ("if", "let", "arith", "+", "-", "*", "const"))))
        else:
            rep.case(p.sig)
        if outcome_class(p.exp[2]) != "value":
            nerr += 1
        ok = judge(rep, p, res.get(p.id))
    for kind in ("pattern", "protocol", "random", "toplevel"):
        ps = [p for p in progs if p.kind == kind]
        rep.extra["programs_" + kind] = len(ps)
        for p in ps[:3]:
            r = res.get(p.id)
            rep.sample({"program": p.model_text()[:700], "expected": M.show_obs(("list", p.exp[1], None)) + " " +
                        M.show_obs(p.exp[2]), "observed": r.text.strip()[:400] if r else None})
    rep.extra["error_outcome_programs"] = nerr
    rep.extra["pattern_signatures"] = len({p.sig for p in progs if p.kind == "pattern"})
    rep.extra["processes"] = len(procs)
    for pr in procs:
        for l in pr.log_lines("HEAPCHECK-FAIL"):
            rep.violation({"kind": "heapcheck", "mode": l.split()[1]}, {"line": l})
        for d in pr.log_kv("HEAPCHECK-SUMMARY"):
            rep.count("heap_checks", d.get("runs", 0))
            rep.count("heap_objects_checked", d.get("objects", 0))
    rep.rule = ("(i) every combination binder{param,rest,let,letrec,internal define,named-let} x capture{none,inner,escaping} x "
                "assignment{never,own scope,inner lambda,before,after capture} x shadowed x forward-referenced x closure depth "
                "1..%d, each with seeded bystander variables; (ii) seeded typed random programs (int/bool/list/procedure, <=60 "
                "nodes, depth<=6, ~3%% deliberate error outcomes); (iii) enumerated call protocols (0..8 fixed+rest x argument "
                "counts x call route, apply with 0..300 arguments, case incl. => and bignum data, do edge forms, quasiquote "
                "nesting 0-3 with vectors, 0..5 values).  distinct = capture-pattern tuple / protocol tuple / (outcome class, "
                "set of non-ubiquitous forms used) of a random program; programs the interpreter rejects as outside R7RS's "
                "prescribed behaviour are dropped (dropped_* counters)" % (3 if tier == "quick" else 4))
    rep.assumptions = ["the definitional interpreter c03_ref.py implements R7RS 4/5.3/7.3 for the generated subset",
                       "a program whose outcome is the same under left-to-right and right-to-left operand evaluation (and "
                       "that has at most one effectful operand per application) has one R7RS-prescribed outcome",
                       "chibi's error messages identify the error class (fixed strings in vm.c / eval.c)",
                       "the observation reader (vf/sexpr.py) and chibi's `write` of integers, symbols, lists are correct"]


def replay(path):
    """./check C03 --replay <file>: re-run the witnesses of a replay file (interpreter vs the hooks build)."""
    import json
    from .. import report
    d = json.load(open(path))
    b = B.ensure("hooks")
    bad = 0
    for i, w in enumerate(d.get("witnesses", [])):
        if "main" not in w:
            print("witness %d has no program" % i)
            continue
        p = Prog("w%d" % i, ("replay",), w.get("tops", []), w["main"], "replay")
        e = M.run_both(p.model_text())
        print("program :", p.model_text())
        if e[0] != "ok":
            print("interpreter: outside the compared domain:", e)
            continue
        p.exp = e
        res, _ = C.run_batches(b, IMPORTS, HEADER, [(p.id, p.case_text())], batch=1, timeout=60)
        rep = report.Report("C03", "replay", d.get("seed", 0))
        judge(rep, p, res.get(p.id))
        r = res.get(p.id)
        print("expected:", M.show_obs(("list", e[1], None)), M.show_obs(e[2]))
        print("observed:", (r.text.strip() if r and r.status == "ok" else (r.status if r else None)))
        if rep.violations:
            bad += 1
            print("=> still disagrees:", rep.violations[0][0])
        else:
            print("=> agrees now")
    return 1 if bad else 0
