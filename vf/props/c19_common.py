"""Shared pieces of the C19 (codec libraries) check: Scheme-side observation helpers, literals, case records."""
from fractions import Fraction

from ..sexpr import Sym, Str, scm_str

IMPORTS = ("(import (scheme base) (scheme write) (scheme inexact) (scheme char) (scheme process-context) "
           "(except (scheme bytevector) bytevector-copy!) "
           "(chibi base64) (chibi quoted-printable) (chibi uri) (chibi json) (chibi csv) "
           "(srfi 160 base) (srfi 160 f16) (srfi 160 f8) "
           "(prefix (only (chibi bytevector) bytevector-u16-ref-le bytevector-u16-ref-be bytevector-u32-ref-le "
           "bytevector-u32-ref-be bytevector-ber-ref bytevector-ber-set! integer->bytevector bytevector->integer "
           "bytevector->hex-string hex-string->bytevector integer->hex-string hex-string->integer) cb:))")

HEADER = r"""
(define %hexd "0123456789abcdef")
(define (hx bv)
  (let ((out (open-output-string)) (n (bytevector-length bv)))
    (do ((i 0 (+ i 1))) ((= i n) (get-output-string out))
      (let ((b (bytevector-u8-ref bv i)))
        (write-char (string-ref %hexd (quotient b 16)) out)
        (write-char (string-ref %hexd (remainder b 16)) out)))))
(define (obf x)
  (cond ((nan? x) '(f nan))
        ((infinite? x) (if (> x 0) '(f inf) '(f -inf)))
        ((eqv? x -0.0) '(f negzero))
        (else (list 'f (exact x)))))
(define (ob x)
  (cond ((bytevector? x) (hx x))
        ((string? x) (list 's (hx (string->utf8 x))))
        ((eof-object? x) 'eof)
        ((boolean? x) x)
        ((and (number? x) (exact? x)) x)
        ((real? x) (obf x))
        ((symbol? x) (list 'y (hx (string->utf8 (symbol->string x)))))
        ((null? x) '())
        ((pair? x) (if (list? x) (cons 'l (map ob x)) (list 'p (ob (car x)) (ob (cdr x)))))
        ((vector? x) (cons 'v (map ob (vector->list x))))
        ((char? x) (list 'c (char->integer x)))
        (else 'other)))
(define (obe x) (if (and (pair? x) (eq? (car x) 'err)) x (ob x)))
(define (%tm thunk)
  (call-with-current-continuation
   (lambda (k)
     (with-exception-handler
      (lambda (e)
        (k (list 'err (if (error-object? e)
                          (let ((m (error-object-message e))) (if (string? m) m "?"))
                          "non-error-object"))))
      thunk))))
(define-syntax %t (syntax-rules () ((_ e) (%tm (lambda () e)))))
(define (b64-enc-port d)
  (let ((out (open-output-bytevector)))
    (base64-encode (open-input-bytevector d) out)
    (get-output-bytevector out)))
(define (b64-dec-port d)
  (let ((out (open-output-bytevector)))
    (base64-decode (open-input-bytevector d) out)
    (get-output-bytevector out)))
(define (b64-enc-sport s)
  (let ((out (open-output-string)))
    (base64-encode (open-input-string s) out)
    (get-output-string out)))
(define (b64-dec-sport s)
  (let ((out (open-output-string)))
    (base64-decode (open-input-string s) out)
    (get-output-string out)))
(define (jobs v)
  (cond ((string? v) (list 's (hx (string->utf8 v))))
        ((eq? v 'null) 'null)
        ((symbol? v) (list 'y (hx (string->utf8 (symbol->string v)))))
        ((boolean? v) v)
        ((and (number? v) (exact? v)) (list 'i v))
        ((real? v) (obf v))
        ((vector? v) (cons 'a (map jobs (vector->list v))))
        ((null? v) '(o))
        ((pair? v)
         (if (list? v)
             (cons 'o (map (lambda (p) (if (pair? p) (list (jobs (car p)) (jobs (cdr p))) '(badpair))) v))
             'improper))
        (else 'other)))
(define (csv-parse grammar str)
  (csv->list (csv-read->list (csv-parser grammar)) (open-input-string str)))
(define (csv-unparse grammar rows)
  (let ((out (open-output-string)))
    ((csv-write (csv-writer grammar)) rows out)
    (get-output-string out)))
"""


# vf.cases.PRELUDE flushes only at the end of a case: a process that dies inside a case has not yet shown the
# marker of that case, and the runner blames the previous one.  Local variant that flushes the marker first.
PRELUDE = r"""
(define (%classify e)
  (cond ((and (error-object? e) (file-error? e)) 'file-error)
        ((and (error-object? e) (read-error? e)) 'read-error)
        ((error-object? e) 'error)
        (else (list 'raised e))))
(define (%try thunk)
  (call-with-current-continuation
   (lambda (k)
     (with-exception-handler
      (lambda (e) (k (list 'err (%classify e))))
      thunk))))
(define (%obs x) (write x) (newline))
(define-syntax %case
  (syntax-rules ()
    ((_ id expr) (begin (newline) (display "#") (display 'id) (newline) (flush-output-port)
                        (%obs (%try (lambda () expr)))
                        (flush-output-port)))))
"""


def bvlit(b):
    return "#u8(" + " ".join(map(str, b)) + ")"


def is_err(o):
    return isinstance(o, list) and len(o) == 2 and o[0] == Sym("err")


def err_msg(o):
    return str(o[1]) if is_err(o) else None


def as_bytes(o):
    """observation of a bytevector (hex string) -> bytes, else None"""
    if isinstance(o, Str):
        try:
            return bytes.fromhex(str(o))
        except ValueError:
            return None
    return None


def as_text(o):
    """observation (s hex) of a string -> (python str or None if not UTF-8, raw bytes) ; None if not a string obs"""
    if isinstance(o, list) and len(o) == 2 and o[0] == Sym("s") and isinstance(o[1], Str):
        raw = bytes.fromhex(str(o[1]))
        try:
            return raw.decode("utf-8", "surrogatepass"), raw
        except UnicodeDecodeError:
            return None, raw
    return None


def as_float(o):
    """observation (f q) -> Fraction | 'nan' | 'inf' | '-inf' | 'negzero' ; None if not a flonum observation"""
    if isinstance(o, list) and len(o) == 2 and o[0] == Sym("f"):
        v = o[1]
        if isinstance(v, Sym):
            return str(v)
        if isinstance(v, (int, Fraction)) and not isinstance(v, bool):
            return Fraction(v)
    return None


def show(o, limit=300):
    s = repr(o)
    return s if len(s) <= limit else s[:limit] + "..."


def len_class(n):
    if n == 0:
        return "0"
    if n <= 3:
        return str(n)
    if n <= 100:
        return "4-100"
    if n <= 1024:
        return "101-1024"
    return ">1024"


class Case:
    """One case file entry: `form` is the Scheme expression whose value is observed with (%case id form);
    `sig` the coverage signature; `judge(obs)` returns a list of (signature dict, detail) violations."""
    __slots__ = ("id", "form", "sig", "judge", "info", "own_process")

    def __init__(self, form, sig, judge, info=None, own_process=False):
        self.id = None
        self.form = form
        self.sig = sig
        self.judge = judge
        self.info = info
        self.own_process = own_process


def dbl_expr(x):
    """Scheme expression that evaluates to exactly the double x without relying on the decimal reader."""
    import math
    if x != x:
        return "+nan.0"
    if x in (float("inf"), float("-inf")):
        return "+inf.0" if x > 0 else "-inf.0"
    if x == 0:
        return "-0.0" if math.copysign(1, x) < 0 else "0.0"
    n, d = abs(x).as_integer_ratio()
    e = 0
    while n % 2 == 0:
        n //= 2
        e += 1
    e -= d.bit_length() - 1
    sign = "-" if x < 0 else ""
    # n < 2^53 (odd part of the significand), value = n * 2^e
    if -1022 <= e <= 970:
        return "(* %s%d. (expt 2. %d))" % (sign, n, e)
    # subnormals / tiny / huge: split the scaling so that every intermediate is exact
    if e > 970:
        return "(* (* %s%d. (expt 2. %d)) (expt 2. %d))" % (sign, n, e - 600, 600)
    return "(* (* %s%d. (expt 2. %d)) (expt 2. %d))" % (sign, n, e + 600, -600)


def text_lit(s):
    """Scheme expression for the string s.  chibi's reader turns the escape \\x80; inside a string literal into
    the raw byte 0x80 (not UTF-8; a reader defect outside this property), so U+0080 is spliced in as a character."""
    if "\x80" not in s:
        return scm_str(s)
    parts = s.split("\x80")
    return "(string-append %s)" % " (string (integer->char 128)) ".join(scm_str(p) for p in parts)
