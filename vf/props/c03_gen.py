"""Program generators for C03 (also used by C09).

Every generated program is a list of top-level definitions (possibly empty) plus ONE main expression.
All generators obey the order-insensitivity rules of DESIGN 2.4: in an application / let / named-let /
do binding list at most one operand has effects (log!, set!, a call of an effectful procedure, a possible
error) and no sibling operand reads a variable that operand may assign; loop counters and recursion
parameters are never assigned by generated code.  (The interpreter additionally runs each program
left-to-right and right-to-left and the caller drops programs whose outcome differs.)
"""

# ====================================================================== (i) enumerated capture patterns
KINDS = ["param", "rest", "let", "letrec", "define", "nlet"]
CAPS = ["none", "inner", "escape"]
ASSIGNS = ["never", "own", "inner", "before", "after"]


def pattern_combos(max_depth):
    out = []
    for d in range(1, max_depth + 1):
        for k in KINDS:
            for c in CAPS:
                for a in ASSIGNS:
                    if c == "none" and a not in ("never", "own"):
                        continue
                    for s in (False, True):
                        for f in (False, True):
                            out.append((k, c, a, s, f, d))
    return out


def _chain(rng, depth, innermost_body, extra_refs=()):
    """(lambda (q1) .. (lambda (qD) body)) with a bystander local on some levels.
    Returns (text, names of the level locals)."""
    locs = []
    text = None
    for lvl in range(depth, 0, -1):
        q = "q%d" % lvl
        if lvl == depth:
            inner = innermost_body
        else:
            inner = text
        style = rng.choice(["none", "let", "define", "none"]) if lvl < depth else rng.choice(["none", "define"])
        t = "t%d" % lvl
        if style == "let":
            locs.append(t)
            text = "(lambda (%s) (let ((%s (* %s 2))) %s))" % (q, t, q, inner)
        elif style == "define":
            locs.append(t)
            text = "(lambda (%s) (define %s (* %s 2)) %s)" % (q, t, q, inner)
        else:
            text = "(lambda (%s) %s)" % (q, inner)
    return text, locs


def _call_chain(h, depth, base):
    t = h
    for i in range(1, depth + 1):
        t = "(%s %d)" % (t, base + i)
    return t


def _shadow_block(variant):
    if variant == 0:
        return "(let ((x (list 'sh x))) (log! x) (set! x 'shset) (log! x))"
    if variant == 1:
        return "((lambda (x) (log! x) (set! x 'shset) (log! x)) (list 'sh x))"
    if variant == 2:
        return "(let () (define x 'shdef) (log! x) (set! x 'shset) (log! x))"
    return "(let lp ((x (list 'sh x)) (n 0)) (log! x) (if (< n 1) (lp (list 'again x) (+ n 1)) 'ok))"


def pattern_program(combo, rng):
    """One program exercising variable x with the given attributes; returns main-expression text."""
    K, C, A, S, F, D = combo
    b2proc = K == "letrec"
    b2ref = "(b2 2)" if b2proc else "b2"
    b1_captured = rng.random() < 0.6
    b2_assigned = (not b2proc) and rng.random() < 0.5
    shv = rng.randrange(4)

    # ---- innermost lambda body
    qs = " ".join("q%d" % i for i in range(1, D + 1))
    chain_locals = []
    inner = []
    refs = "x" if C != "none" else "'nox"

    set_only = A == "inner" and not S and rng.random() < 0.4     # inner lambda assigns x without ever reading it

    def finish_inner(locs):
        parts = ["(log! (list 'in %s %s o1%s%s))" % ("'setonly" if set_only else refs, qs, " b1" if b1_captured else "",
                                                      "".join(" " + t for t in locs))]
        if set_only:
            parts.append("(set! x (+ 1000 q%d))" % D)
            parts.append("'assigned")
        elif C != "none":
            if A == "inner":
                parts.append("(set! x (+ 1000 q%d))" % D)
                parts.append("(log! x)")
            if S:
                parts.append(_shadow_block(shv))
                parts.append("(log! x)")
            parts.append("x")
        else:
            parts.append("(+ q1 o1)")
        return " ".join(parts)

    # build the chain twice: first to learn which level locals exist (rng decides), then with the body
    st = rng.getstate()
    _, locs = _chain(rng, D, "BODY")
    rng.setstate(st)
    chain, locs = _chain(rng, D, finish_inner(locs))

    # ---- own-scope statements
    body = []
    defs = []
    if F:
        if K == "define":
            early = "(define (early n) (let ((r (late (+ n 1)))) (list 'early n x r)))"
        else:
            early = "(define (early n) (list 'early n (late (+ n 1))))"
        late_set = " (set! x (list 'lateset m))" if (A in ("own", "before") and C == "none") else ""
        late = "(define (late m) (log! (list 'late m x))%s (list m x))" % late_set
        defs = [early, late]
    body.append("(log! (list 'own0 x b1 %s))" % b2ref)
    if A in ("own", "before"):
        body.append("(set! x 21)")
        body.append("(log! x)")
    if b2_assigned:
        body.append("(set! b2 (+ b2 5))")
    if F:
        body.append("(log! (early 1))")
    inner_stmts = []
    if C == "inner":
        inner_stmts.append("(log! (list 'call0 %s))" % _call_chain("h", D, 0))
    elif C == "escape":
        inner_stmts.append("(set! keep (cons h keep))")
        if rng.random() < 0.5:
            inner_stmts.append("(log! (list 'call0 %s))" % _call_chain("h", D, 0))
    else:
        inner_stmts.append("(log! (list 'call0 %s))" % _call_chain("h", D, 0))
    if C != "none" and A in ("own", "after"):
        inner_stmts.append("(set! x 24)")
        inner_stmts.append("(log! x)")
    if C == "inner":
        inner_stmts.append("(log! (list 'call1 %s))" % _call_chain("h", D, 10))
    if S:
        if C == "none":
            inner_stmts.append(_shadow_block(shv))
        inner_stmts.append("(log! (((lambda (x) (lambda (z) (list 'h2 x z))) 55) 6))")
    if F and C != "none":
        inner_stmts.append("(log! (early 2))")
    inner_stmts.append("(log! (list 'own1 x b1 %s))" % b2ref)
    hbind = rng.choice(["let", "define"]) if K not in ("define",) else "let"
    tail_value = "x"
    if K == "nlet":
        tail_value = "(if (< i 1) (lp (+ i 1) (+ b1 1) (list 'next x) b2) (list 'done x))"
    if hbind == "let" or defs or K in ("define", "rest"):
        body.append("(let ((h %s)) %s %s)" % (chain, " ".join(inner_stmts), tail_value))
        scope_body = " ".join(defs + body)
    else:
        # h as an internal define of the scope body (must precede the statements)
        scope_body = "(define h %s) " % chain + " ".join(body + inner_stmts) + " " + tail_value

    # ---- the binder
    if K == "param":
        scope = "((lambda (b1 x b2) %s) 1 10 2)" % scope_body
    elif K == "rest":
        scope = "((lambda (b1 . x) (define b2 2) %s) 1 10 11)" % scope_body
    elif K == "let":
        scope = "(let ((b1 1) (x 10) (b2 2)) %s)" % scope_body
    elif K == "letrec":
        scope = ("(letrec ((b1 1) (x 10) (b2 (lambda (n) (if (= n 0) 7 (+ 1 (b2 (- n 1))))))) %s)" % scope_body)
    elif K == "define":
        pre = "(define b1 1) "
        if F:
            # early precedes the definition of x: a genuine forward reference to a later internal define
            scope_body2 = " ".join([defs[0], "(define x 10)", "(define b2 2)", defs[1]] + body)
            scope = "((lambda (p0) %s%s) 0)" % (pre, scope_body2)
        else:
            scope = "((lambda (p0) %s(define x 10) (define b2 2) %s) 0)" % (pre, scope_body)
    else:
        scope = "(let lp ((i 0) (b1 1) (x 10) (b2 2)) %s)" % scope_body
    prog = ("(let ((keep '()) (o1 100)) (log! (list 'result %s)) "
            "(for-each (lambda (k) (log! (list 'later %s))) (reverse keep)) "
            "(for-each (lambda (k) (log! (list 'last %s))) keep) 'end)"
            % (scope, _call_chain("k", D, 20), _call_chain("k", D, 30)))
    return prog


# ====================================================================== (ii) typed random programs
class E:
    """Generated expression: text, variables read, variables possibly assigned ('*' = unknown), has effects."""
    __slots__ = ("t", "R", "W", "eff")

    def __init__(self, t, R=frozenset(), W=frozenset(), eff=False):
        self.t = t
        self.R = frozenset(R)
        self.W = frozenset(W)
        self.eff = eff


class V:
    """Variable in scope."""
    __slots__ = ("name", "ty", "assignable", "nargs", "rest", "R", "W", "eff")

    def __init__(self, name, ty, assignable=False, nargs=0, rest=False, R=frozenset(), W=frozenset(), eff=False):
        self.name = name
        self.ty = ty                  # int | list | proc
        self.assignable = assignable
        self.nargs = nargs
        self.rest = rest
        self.R = R
        self.W = W
        self.eff = eff


def _u(*es):
    R, W, eff = set(), set(), False
    for e in es:
        R |= e.R
        W |= e.W
        eff = eff or e.eff
    return R, W, eff


class Gen:
    """Typed random programs: int / bool / list-of-int / procedure-returning-int.

    consts: probability of replacing a pure int subexpression by a constant-only foldable expression
    (used by C09 to aim at the simplifier)."""

    def __init__(self, rng, uid, max_nodes=60, errors=0.03, consts=0.0):
        self.r = rng
        self.uid = uid
        self.n = 0
        self.nodes = 0
        self.max_nodes = max_nodes
        self.errors = errors
        self.consts = consts
        self.forms = set()            # form names used (signature of the program)
        self.topdefs = []

    def fresh(self, p="v"):
        self.n += 1
        return "%s%d" % (p, self.n)

    def lit(self):
        return str(self.r.choice([0, 1, 2, 3, 5, 7, 10, -1, -4, 12, 100]))

    def use(self, name):
        self.forms.add(name)
        self.nodes += 1

    def small(self):
        return self.nodes >= self.max_nodes

    # ---- which variables may a pure sibling read?
    @staticmethod
    def readable(v, forbid):
        if v.name in forbid:
            return False
        if "*" in forbid and v.assignable:
            return False
        return True

    # ---- pure expressions --------------------------------------------------
    def const_int(self, d):
        """Constant-only expression (foldable)."""
        self.use("const")
        if d <= 0 or self.r.random() < 0.4:
            return self.r.choice(["0", "1", "2", "7", "-3", "4611686018427387903", "-4611686018427387904",
                                  "4611686018427387904", "100000000000000000000", "255"])
        op = self.r.choice(["+", "-", "*", "quotient", "remainder", "+", "-"])
        a, b = self.const_int(d - 1), self.const_int(d - 1)
        if op in ("quotient", "remainder") and self.r.random() < 0.85:
            b = self.r.choice(["1", "2", "7", "-3"])
        return "(%s %s %s)" % (op, a, b)

    def pure_int(self, env, d, forbid=frozenset()):
        self.nodes += 1
        ints = [v for v in env if v.ty == "int" and self.readable(v, forbid)]
        lists = [v for v in env if v.ty == "list" and self.readable(v, forbid)]
        r = self.r.random()
        if self.consts and r < self.consts:
            t = self.const_int(2)
            if "quotient" in t or "remainder" in t:
                # may divide by zero: only as a whole guarded expression elsewhere; keep pure exprs total
                t = t.replace("quotient", "+").replace("remainder", "-")
            return E(t)
        if d <= 0 or self.small() or r < 0.25:
            if ints and self.r.random() < 0.7:
                v = self.r.choice(ints)
                return E(v.name, {v.name})
            return E(self.lit())
        c = self.r.choice(["+", "-", "*", "if", "let", "length", "car", "quot", "case", "cond", "vref", "call", "and",
                           "min", "abs", "let*"])
        if c in ("+", "-"):
            self.use(c)
            a, b = self.pure_int(env, d - 1, forbid), self.pure_int(env, d - 1, forbid)
            return E("(%s %s %s)" % (c, a.t, b.t), a.R | b.R)
        if c == "*":
            self.use(c)
            a = self.pure_int(env, d - 1, forbid)
            return E("(* %s %s)" % (a.t, self.r.choice(["2", "3", "-1", "0"])), a.R)
        if c == "min":
            self.use("min")
            a, b = self.pure_int(env, d - 1, forbid), self.pure_int(env, d - 1, forbid)
            return E("(%s %s %s)" % (self.r.choice(["min", "max"]), a.t, b.t), a.R | b.R)
        if c == "abs":
            self.use("abs")
            a = self.pure_int(env, d - 1, forbid)
            return E("(abs %s)" % a.t, a.R)
        if c == "if":
            self.use("if")
            b = self.pure_bool(env, d - 1, forbid)
            x, y = self.pure_int(env, d - 1, forbid), self.pure_int(env, d - 1, forbid)
            return E("(if %s %s %s)" % (b.t, x.t, y.t), b.R | x.R | y.R)
        if c == "let":
            self.use("let")
            x = self.fresh()
            a = self.pure_int(env, d - 1, forbid)
            b = self.pure_int(env + [V(x, "int")], d - 1, forbid)
            return E("(let ((%s %s)) %s)" % (x, a.t, b.t), a.R | (b.R - {x}))
        if c == "let*":
            self.use("let*")
            x, y = self.fresh(), self.fresh()
            a = self.pure_int(env, d - 1, forbid)
            b = self.pure_int(env + [V(x, "int")], d - 1, forbid)
            cc = self.pure_int(env + [V(x, "int"), V(y, "int")], d - 1, forbid)
            return E("(let* ((%s %s) (%s %s)) %s)" % (x, a.t, y, b.t, cc.t), a.R | (b.R - {x}) | (cc.R - {x, y}))
        if c == "length" and lists:
            self.use("length")
            v = self.r.choice(lists)
            return E("(length %s)" % v.name, {v.name})
        if c == "car":
            self.use("car")
            l = self.pure_list(env, d - 1, forbid)
            x = self.fresh()
            return E("(let ((%s %s)) (if (pair? %s) (car %s) 0))" % (x, l.t, x, x), l.R)
        if c == "quot":
            self.use("quotient")
            a = self.pure_int(env, d - 1, forbid)
            return E("(%s %s %s)" % (self.r.choice(["quotient", "remainder", "modulo"]), a.t,
                                      self.r.choice(["2", "3", "-2", "7"])), a.R)
        if c == "case":
            self.use("case")
            a = self.pure_int(env, d - 1, forbid)
            x, y, z = (self.pure_int(env, d - 2, forbid) for _ in range(3))
            if self.r.random() < 0.4:
                self.use("case=>")
                return E("(case (remainder %s 3) ((0) %s) ((1 -1) => (lambda (k) (+ k %s))) (else => (lambda (k) (- %s k))))"
                         % (a.t, x.t, y.t, z.t), a.R | x.R | y.R | z.R)
            return E("(case (remainder %s 3) ((0) %s) ((1 -1) %s) (else %s))" % (a.t, x.t, y.t, z.t),
                     a.R | x.R | y.R | z.R)
        if c == "cond":
            self.use("cond")
            b1, b2 = self.pure_bool(env, d - 1, forbid), self.pure_bool(env, d - 1, forbid)
            x, y, z = (self.pure_int(env, d - 2, forbid) for _ in range(3))
            if self.r.random() < 0.4:
                self.use("cond=>")
                l = self.pure_list(env, d - 2, forbid)
                return E("(cond (%s %s) ((memv %s %s) => length) (else %s))" % (b1.t, x.t, y.t, l.t, z.t),
                         b1.R | x.R | y.R | l.R | z.R)
            return E("(cond (%s %s) (%s %s) (else %s))" % (b1.t, x.t, b2.t, y.t, z.t),
                     b1.R | b2.R | x.R | y.R | z.R)
        if c == "vref":
            self.use("vector-ref")
            xs = [self.pure_int(env, d - 2, forbid) for _ in range(self.r.randrange(1, 4))]
            k = self.r.randrange(len(xs))
            return E("(vector-ref (vector %s) %d)" % (" ".join(x.t for x in xs), k), frozenset().union(*[x.R for x in xs]))
        if c == "and":
            self.use("and/or")
            b = self.pure_bool(env, d - 1, forbid)
            x, y = self.pure_int(env, d - 1, forbid), self.pure_int(env, d - 1, forbid)
            return E("(or (and %s %s) %s)" % (b.t, x.t, y.t), b.R | x.R | y.R)
        if c == "call":
            procs = [v for v in env if v.ty == "proc" and not v.eff and not v.W
                     and all(self.readable_name(env, n, forbid) for n in v.R)]
            if procs:
                self.use("call")
                f = self.r.choice(procs)
                args = [self.pure_int(env, d - 2, forbid) for _ in range(f.nargs + (self.r.randrange(3) if f.rest else 0))]
                R = set(f.R) | {f.name}
                for a in args:
                    R |= a.R
                return E("(%s%s)" % (f.name, "".join(" " + a.t for a in args)), R)
        a, b = self.pure_int(env, d - 1, forbid), self.pure_int(env, d - 1, forbid)
        return E("(+ %s %s)" % (a.t, b.t), a.R | b.R)

    def readable_name(self, env, name, forbid):
        for v in env:
            if v.name == name:
                return self.readable(v, forbid)
        return name not in forbid and "*" not in forbid

    def pure_bool(self, env, d, forbid=frozenset()):
        self.nodes += 1
        c = self.r.choice(["<", "=", "null?", "not", "and", "or", "eqv?", "lit", "<", "<", "zero?", "pair?"])
        if d <= 0 or self.small():
            c = "<"
        if c in ("<", "="):
            a, b = self.pure_int(env, d - 1, forbid), self.pure_int(env, d - 1, forbid)
            return E("(%s %s %s)" % (self.r.choice(["<", "=", ">", "<=", ">="]), a.t, b.t), a.R | b.R)
        if c == "zero?":
            a = self.pure_int(env, d - 1, forbid)
            return E("(%s %s)" % (self.r.choice(["zero?", "odd?", "even?", "negative?", "positive?"]), a.t), a.R)
        if c in ("null?", "pair?"):
            l = self.pure_list(env, d - 1, forbid)
            return E("(%s %s)" % (c, l.t), l.R)
        if c == "not":
            a = self.pure_bool(env, d - 1, forbid)
            return E("(not %s)" % a.t, a.R)
        if c in ("and", "or"):
            self.use("and/or")
            a, b = self.pure_bool(env, d - 1, forbid), self.pure_bool(env, d - 1, forbid)
            return E("(%s %s %s)" % (c, a.t, b.t), a.R | b.R)
        if c == "eqv?":
            a, b = self.pure_int(env, d - 1, forbid), self.pure_int(env, d - 1, forbid)
            return E("(%s %s %s)" % (self.r.choice(["eqv?", "equal?"]), a.t, b.t), a.R | b.R)
        return E(self.r.choice(["#t", "#f"]))

    def pure_list(self, env, d, forbid=frozenset()):
        self.nodes += 1
        lists = [v for v in env if v.ty == "list" and self.readable(v, forbid)]
        r = self.r.random()
        if d <= 0 or self.small() or r < 0.3:
            if lists and self.r.random() < 0.6:
                v = self.r.choice(lists)
                return E(v.name, {v.name})
            return E(self.r.choice(["'()", "'(1 2 3)", "'(4)", "(list 1 2)", "'(0 -1)"]))
        c = self.r.choice(["list", "cons", "cdr", "append", "reverse", "map", "qq", "qq", "if", "vec"])
        if c == "list":
            xs = [self.pure_int(env, d - 1, forbid) for _ in range(self.r.randrange(0, 4))]
            return E("(list%s)" % "".join(" " + x.t for x in xs), frozenset().union(*[x.R for x in xs]) if xs else ())
        if c == "cons":
            a, l = self.pure_int(env, d - 1, forbid), self.pure_list(env, d - 1, forbid)
            return E("(cons %s %s)" % (a.t, l.t), a.R | l.R)
        if c == "cdr":
            l = self.pure_list(env, d - 1, forbid)
            x = self.fresh()
            return E("(let ((%s %s)) (if (pair? %s) (cdr %s) %s))" % (x, l.t, x, x, x), l.R)
        if c == "append":
            self.use("append")
            a, b = self.pure_list(env, d - 1, forbid), self.pure_list(env, d - 1, forbid)
            return E("(append %s %s)" % (a.t, b.t), a.R | b.R)
        if c == "reverse":
            a = self.pure_list(env, d - 1, forbid)
            return E("(reverse %s)" % a.t, a.R)
        if c == "map":
            self.use("map")
            l = self.pure_list(env, d - 1, forbid)
            x = self.fresh()
            b = self.pure_int(env + [V(x, "int")], d - 1, forbid)
            return E("(map (lambda (%s) %s) %s)" % (x, b.t, l.t), l.R | (b.R - {x}))
        if c == "qq":
            self.use("quasiquote")
            a, b = self.pure_int(env, d - 1, forbid), self.pure_int(env, d - 1, forbid)
            l = self.pure_list(env, d - 1, forbid)
            shape = self.r.choice(["`(,%s 2 ,@%s ,%s)", "`(1 ,%s ,@%s . ,(list %s))", "`(,@(list %s) ,@%s ,%s)",
                                   "`(,%s ,@%s ,@(list %s 9))"])
            return E(shape % (a.t, l.t, b.t), a.R | b.R | l.R)
        if c == "vec":
            self.use("vector->list")
            xs = [self.pure_int(env, d - 1, forbid) for _ in range(self.r.randrange(0, 3))]
            return E("(vector->list `#(,@(list%s) 5))" % "".join(" " + x.t for x in xs),
                     frozenset().union(*[x.R for x in xs]) if xs else ())
        b = self.pure_bool(env, d - 1, forbid)
        x, y = self.pure_list(env, d - 1, forbid), self.pure_list(env, d - 1, forbid)
        return E("(if %s %s %s)" % (b.t, x.t, y.t), b.R | x.R | y.R)

    # ---- operand lists with at most one effectful member -------------------
    def operands(self, env, d, n, eff_ok=True):
        """n int operands; at most one effectful, the others pure and not reading what it may assign."""
        k = self.r.randrange(n) if (n and eff_ok and self.r.random() < 0.7) else -1
        effe = self.expr(env, d) if k >= 0 else None
        forbid = effe.W if effe is not None else frozenset()
        out = []
        for i in range(n):
            if i == k:
                out.append(effe)
            else:
                out.append(self.pure_int(env, min(d, 2), forbid))
        return out

    # ---- possibly effectful int expressions --------------------------------
    def error_expr(self, env, d):
        self.use("error")
        a = self.pure_int(env, 1)
        c = self.r.choice(["car", "arity", "unbound", "raise", "error", "vref", "div0", "notproc", "arity-rest",
                           "raise-list"])
        self.forms.add("err:" + c)
        if c == "car":
            t = "(%s %s)" % (self.r.choice(["car", "cdr"]), a.t)
        elif c == "arity":
            t = "((lambda (p q) (+ p q)) %s)" % a.t
        elif c == "arity-rest":
            t = "((lambda (p q . r) (+ p q)) %s)" % a.t
        elif c == "unbound":
            t = "(+ %s undefined-%s-%s)" % (a.t, self.uid, self.fresh("u"))
        elif c == "raise":
            t = "(raise %s)" % self.r.choice(["'boom", a.t, "#f"])
        elif c == "raise-list":
            t = "(raise (list 'r %s))" % a.t
        elif c == "error":
            t = '(error "boom-%d" %s \'sym)' % (self.r.randrange(10), a.t)
        elif c == "vref":
            t = "(vector-ref (vector 1 2) %s)" % self.r.choice(["2", "-1", "5"])
        elif c == "div0":
            t = "(quotient %s (- 3 3))" % a.t
        else:
            t = "(%s 1)" % a.t
        return E(t, a.R, (), True)

    def expr(self, env, d):
        self.nodes += 1
        if d <= 0 or self.small():
            return self.pure_int(env, 0)
        if self.errors and self.r.random() < self.errors:
            return self.error_expr(env, d)
        aints = [v for v in env if v.ty == "int" and v.assignable]
        procs = [v for v in env if v.ty == "proc"]
        opts = ["pure", "arith", "if", "let", "let*", "letrec", "seq-set", "seq-log", "lambda-app", "define",
                "named-let", "counter", "rest", "shadow", "cond", "and-or", "when", "do", "case", "apply", "values",
                "letrec*", "fwd-define", "box", "let-values", "do-closure", "list-acc", "hof"]
        if procs:
            opts += ["call"] * 5
        c = self.r.choice(opts)
        if c == "pure":
            return self.pure_int(env, d)
        if c == "arith":
            self.use("arith")
            ops = self.operands(env, d - 1, self.r.randrange(1, 4))
            R, W, eff = _u(*ops)
            return E("(%s %s)" % (self.r.choice("+-"), " ".join(o.t for o in ops)), R, W, eff)
        if c == "if":
            self.use("if")
            a = self.expr(env, d - 1)
            k = self.pure_int(env, 1)
            x, y = self.expr(env, d - 1), self.expr(env, d - 1)
            R, W, eff = _u(a, k, x, y)
            if a.eff and (k.R & a.W or "*" in a.W and k.R):
                k = E(self.lit())
            return E("(if (< %s %s) %s %s)" % (a.t, k.t, x.t, y.t), R, W, eff)
        if c == "let":
            self.use("let")
            x, y = self.fresh(), self.fresh()
            ops = self.operands(env, d - 1, 2)
            ax, ay = self.r.random() < 0.5, self.r.random() < 0.5
            b = self.expr(env + [V(x, "int", ax), V(y, "int", ay)], d - 1)
            R, W, eff = _u(*ops)
            return E("(let ((%s %s) (%s %s)) %s)" % (x, ops[0].t, y, ops[1].t, b.t),
                     R | (b.R - {x, y}), W | (b.W - {x, y}), eff or b.eff)
        if c == "let*":
            self.use("let*")
            x, y = self.fresh(), self.fresh()
            a = self.expr(env, d - 1)
            vx = V(x, "int", self.r.random() < 0.5)
            b = self.expr(env + [vx], d - 1)
            vy = V(y, "int", self.r.random() < 0.5)
            cc = self.expr(env + [vx, vy], d - 1)
            R, W, eff = _u(a, b, cc)
            return E("(let* ((%s %s) (%s %s)) %s)" % (x, a.t, y, b.t, cc.t), R - {x, y}, W - {x, y}, eff)
        if c == "letrec":
            self.use("letrec")
            f, a = self.fresh("f"), self.fresh()
            inner = self.expr(env + [V(a, "int")], d - 2)
            base = self.pure_int(env + [V(a, "int")], 1)
            tmp = self.fresh()
            body = "(if (< %s 1) %s (let ((%s %s)) (+ %s (%s (- %s 1)))))" % (a, base.t, tmp, inner.t, tmp, f, a)
            R, W, eff = _u(inner, base)
            return E("(letrec ((%s (lambda (%s) %s))) (%s %d))" % (f, a, body, f, self.r.randrange(0, 4)),
                     R - {a}, W - {a}, eff)
        if c == "letrec*":
            self.use("letrec*")
            x, f, a = self.fresh(), self.fresh("f"), self.fresh()
            i0 = self.pure_int(env, 1)
            fb = self.expr(env + [V(x, "int", True), V(a, "int")], d - 2)
            vf = V(f, "proc", False, 1, False, fb.R - {a}, fb.W - {a}, fb.eff)
            b = self.expr(env + [V(x, "int", True), vf], d - 1)
            R, W, eff = _u(i0, fb, b)
            return E("(letrec* ((%s %s) (%s (lambda (%s) %s))) %s)" % (x, i0.t, f, a, fb.t, b.t),
                     R - {x, f, a}, W - {x, f, a}, eff)
        if c == "seq-set" and aints:
            self.use("set!")
            x = self.r.choice(aints)
            a, b = self.expr(env, d - 1), self.expr(env, d - 1)
            R, W, eff = _u(a, b)
            return E("(begin (set! %s %s) %s)" % (x.name, a.t, b.t), R, W | {x.name}, True)
        if c == "seq-log":
            self.use("log!")
            a, b = self.expr(env, d - 1), self.expr(env, d - 1)
            R, W, eff = _u(a, b)
            return E("(begin (log! %s) %s)" % (a.t, b.t), R, W, True)
        if c == "lambda-app":
            self.use("lambda-app")
            a, b = self.fresh(), self.fresh()
            ops = self.operands(env, d - 1, 2)
            body = self.expr(env + [V(a, "int", self.r.random() < 0.5), V(b, "int", self.r.random() < 0.5)], d - 1)
            R, W, eff = _u(*ops)
            return E("((lambda (%s %s) %s) %s %s)" % (a, b, body.t, ops[0].t, ops[1].t),
                     R | (body.R - {a, b}), W | (body.W - {a, b}), eff or body.eff)
        if c == "define":
            self.use("internal-define")
            x, g, a = self.fresh(), self.fresh("g"), self.fresh()
            i0 = self.expr(env, d - 1)
            vx = V(x, "int", True)
            gb = self.expr(env + [vx, V(a, "int", self.r.random() < 0.5)], d - 1)
            vg = V(g, "proc", False, 1, False, gb.R - {a}, gb.W - {a}, gb.eff)
            b = self.expr(env + [vx, vg], d - 1)
            R, W, eff = _u(i0, gb, b)
            return E("(let () (define %s %s) (define (%s %s) %s) %s)" % (x, i0.t, g, a, gb.t, b.t),
                     R - {x, g, a}, W - {x, g, a}, eff)
        if c == "fwd-define":
            self.use("forward-define")
            g1, g2, a, b2, x = self.fresh("g"), self.fresh("g"), self.fresh(), self.fresh(), self.fresh()
            i0 = self.pure_int(env, 1)
            vx = V(x, "int", True)
            body2 = self.expr(env + [vx, V(b2, "int")], d - 2)
            # g1 (defined first) calls g2 (defined later); x is defined between them
            vg1 = V(g1, "proc", False, 1, False, (body2.R - {b2}) | {x}, body2.W - {b2}, body2.eff)
            bb = self.expr(env + [vx, vg1], d - 1)
            R, W, eff = _u(i0, body2, bb)
            return E("(let () (define (%s %s) (%s (+ %s %s))) (define %s %s) (define (%s %s) %s) %s)"
                     % (g1, a, g2, a, x, x, i0.t, g2, b2, body2.t, bb.t),
                     R - {x, g1, g2, a, b2}, W - {x, g1, g2, a, b2}, eff)
        if c == "named-let":
            self.use("named-let")
            lp, i, acc = self.fresh("lp"), self.fresh(), self.fresh()
            a0 = self.pure_int(env, 1)
            inner = self.expr(env + [V(i, "int"), V(acc, "int")], d - 2)
            return E("(let %s ((%s 0) (%s %s)) (if (< %s %d) (%s (+ %s 1) (+ %s %s)) %s))"
                     % (lp, i, acc, a0.t, i, self.r.randrange(1, 4), lp, i, acc, inner.t, acc),
                     a0.R | (inner.R - {i, acc}), inner.W - {i, acc}, inner.eff)
        if c == "do":
            self.use("do")
            i, acc, k = self.fresh(), self.fresh(), self.fresh()
            a0 = self.pure_int(env, 1)
            # k has no step expression: it is implicitly re-read as its own step, so a sibling step may not assign it
            vk = V(k, "int", False)
            inner = self.expr(env + [V(i, "int"), V(acc, "int"), vk], d - 2)
            res = self.pure_int(env + [V(i, "int"), V(acc, "int"), vk], 1)
            # k has no step: assigned by the body (assignments persist to the next iteration by value)
            body = "(set! %s (+ %s 1))" % (k, k) if self.r.random() < 0.5 else ""
            return E("(do ((%s 0 (+ %s 1)) (%s 5) (%s %s (+ %s %s))) ((= %s %d) %s) %s)"
                     % (i, i, k, acc, a0.t, acc, inner.t, i, self.r.randrange(0, 4), res.t, body),
                     a0.R | ((inner.R | res.R) - {i, acc, k}), inner.W - {i, acc, k}, inner.eff)
        if c == "do-closure":
            self.use("do-closure")
            i, fs, f = self.fresh(), self.fresh(), self.fresh()
            n = self.r.randrange(1, 4)
            return E("(let ((%s (do ((%s 0 (+ %s 1)) (%s '() (cons (lambda () %s) %s))) ((= %s %d) %s)))) "
                     "(apply + (map (lambda (%s) (%s)) %s)))" % (fs, i, i, fs, i, fs, i, n, fs, f, f, fs))
        if c == "counter":
            self.use("counter")
            cn, k = self.fresh("cnt"), self.fresh()
            k0 = self.pure_int(env, 1)
            b = self.expr(env + [V(cn, "proc", False, 0, False, frozenset(), frozenset(), True)], d - 1)
            return E("(let ((%s (let ((%s %s)) (lambda () (set! %s (+ %s 1)) %s)))) (begin (%s) (%s) %s))"
                     % (cn, k, k0.t, k, k, k, cn, cn, b.t), k0.R | (b.R - {cn}), b.W - {cn}, True)
        if c == "rest":
            self.use("rest")
            f, a, r = self.fresh("f"), self.fresh(), self.fresh("r")
            nargs = self.r.randrange(1, 6)
            ops = self.operands(env, d - 1, nargs)
            R, W, eff = _u(*ops)
            return E("(let ((%s (lambda (%s . %s) (+ %s (* 10 (length %s)) (if (null? %s) 0 (car %s)) "
                     "(apply + %s))))) (%s %s))" % (f, a, r, a, r, r, r, r, f, " ".join(o.t for o in ops)), R, W, eff)
        if c == "shadow" and aints:
            self.use("shadow")
            x = self.r.choice(aints)
            a = self.expr(env, d - 1)
            if x.name in a.W or "*" in a.W:
                return a
            # the outer x is read by a sibling operand: the inner binding's init must not assign it
            return E("(+ (let ((%s %s)) (begin (set! %s (+ %s 1)) %s)) %s)" % (x.name, a.t, x.name, x.name, x.name, x.name),
                     a.R | {x.name}, a.W, a.eff)
        if c == "cond":
            self.use("cond")
            a, b, cc, dd = (self.expr(env, d - 1) for _ in range(4))
            k1, k2 = self.pure_int(env, 1), self.pure_int(env, 1)
            R, W, eff = _u(a, b, cc, dd, k1, k2)
            return E("(cond ((< %s 0) %s) ((= %s %s) %s) (else %s))" % (a.t, b.t, k1.t, k2.t, cc.t, dd.t), R, W, eff)
        if c == "case":
            self.use("case")
            a, b, cc, dd = (self.expr(env, d - 1) for _ in range(4))
            R, W, eff = _u(a, b, cc, dd)
            arrow = self.r.random() < 0.4
            if arrow:
                self.use("case=>")
                return E("(case (modulo %s 4) ((0 2) %s) ((1) => (lambda (k) (+ k %s))) (else %s))" % (a.t, b.t, cc.t, dd.t),
                         R, W, eff)
            return E("(case (modulo %s 4) ((0 2) %s) ((1) %s) (else %s))" % (a.t, b.t, cc.t, dd.t), R, W, eff)
        if c == "and-or":
            self.use("and/or")
            a, b, cc = self.expr(env, d - 1), self.expr(env, d - 1), self.expr(env, d - 1)
            k = self.pure_int(env, 1)
            R, W, eff = _u(a, b, cc, k)
            return E("(if (%s (< %s 3) (< %s 3)) %s %s)" % (self.r.choice(["and", "or"]), a.t, b.t, cc.t, k.t), R, W, eff)
        if c == "when" and aints:
            self.use("when/unless")
            x = self.r.choice(aints)
            k = self.pure_int(env, 1)
            b = self.expr(env, d - 1)
            R, W, eff = _u(k, b)
            return E("(begin (%s (< %s 4) (set! %s (+ %s 2))) %s)" % (self.r.choice(["when", "unless"]), k.t, x.name,
                                                                      x.name, b.t), R | {x.name}, W | {x.name}, True)
        if c == "apply":
            self.use("apply")
            n = self.r.randrange(0, 3)
            ops = self.operands(env, d - 1, n + 1)
            l = self.pure_list(env, 1, _u(*ops)[1])
            R, W, eff = _u(l, *ops)
            return E("(apply + %s %s)" % (" ".join(o.t for o in ops), l.t), R, W, eff)
        if c == "values":
            self.use("call-with-values")
            ops = self.operands(env, d - 1, self.r.randrange(0, 4))
            R, W, eff = _u(*ops)
            p, r = self.fresh(), self.fresh("r")
            if self.r.random() < 0.5 and ops:
                names = [self.fresh() for _ in ops]
                return E("(call-with-values (lambda () (values %s)) (lambda (%s) (- %s)))"
                         % (" ".join(o.t for o in ops), " ".join(names), " ".join(names)), R, W, eff)
            return E("(call-with-values (lambda () (values %s)) (lambda %s (apply + (length %s) %s)))"
                     % (" ".join(o.t for o in ops), r, r, r), R, W, eff)
        if c == "let-values":
            self.use("let-values")
            a, b, r = self.fresh(), self.fresh(), self.fresh("r")
            ops = self.operands(env, d - 1, 3)
            R, W, eff = _u(*ops)
            body = self.expr(env + [V(a, "int", True), V(b, "int"), V(r, "list")], d - 1)
            return E("(let-values (((%s %s . %s) (values %s))) %s)" % (a, b, r, " ".join(o.t for o in ops), body.t),
                     R | (body.R - {a, b, r}), W | (body.W - {a, b, r}), eff or body.eff)
        if c == "box":
            self.use("vector-set!")
            bx = self.fresh("bx")
            a, b = self.expr(env, d - 1), self.expr(env, d - 1)
            R, W, eff = _u(a, b)
            return E("(let ((%s (vector 0 %s))) (vector-set! %s 0 %s) (+ (vector-ref %s 0) (vector-ref %s 1)))"
                     % (bx, a.t, bx, b.t, bx, bx), R, W, eff)
        if c == "list-acc":
            self.use("list-acc")
            acc, i = self.fresh("acc"), self.fresh()
            inner = self.expr(env + [V(i, "int")], d - 2)
            n = self.r.randrange(0, 4)
            return E("(let ((%s '())) (do ((%s 0 (+ %s 1))) ((= %s %d)) (set! %s (cons %s %s))) (apply + (length %s) %s))"
                     % (acc, i, i, i, n, acc, inner.t, acc, acc, acc), inner.R - {i}, inner.W - {i}, True)
        if c == "hof":
            self.use("higher-order")
            f, g, a = self.fresh("f"), self.fresh("g"), self.fresh()
            body = self.expr(env + [V(a, "int", self.r.random() < 0.5)], d - 2)
            arg = self.pure_int(env, 1, body.W | ({"*"} if body.eff else set()))
            return E("((lambda (%s) (+ (%s %s) 1)) (lambda (%s) %s))" % (g, g, arg.t, a, body.t),
                     arg.R | (body.R - {a}), body.W - {a}, body.eff)
        if c == "call":
            self.use("call")
            f = self.r.choice(procs)
            n = f.nargs + (self.r.randrange(3) if f.rest else 0)
            # the call itself may assign f.W: no argument may be effectful AND read/assign those; keep args simple
            forbid = set(f.W) | ({"*"} if f.eff else set())
            args = [self.pure_int(env, 1, forbid) for _ in range(n)]
            if args and not f.eff and not f.W and self.r.random() < 0.5:
                k = self.r.randrange(n)
                args[k] = self.expr(env, d - 1)
                for j in range(n):
                    if j != k:
                        args[j] = self.pure_int(env, 1, args[k].W)
                if any(nm in args[k].W or "*" in args[k].W for nm in f.R):
                    args[k] = self.pure_int(env, 1, forbid)
            R, W, eff = _u(*args) if args else (set(), set(), False)
            return E("(%s%s)" % (f.name, "".join(" " + a.t for a in args)), R | set(f.R) | {f.name}, W | set(f.W),
                     eff or f.eff)
        return self.pure_int(env, d)

    # ---- whole program -------------------------------------------------------
    def program(self, d):
        """-> (list of top-level definition texts, main expression text)"""
        x, y, l = self.fresh("x"), self.fresh("y"), self.fresh("l")
        env = [V(x, "int", True), V(y, "int", True), V(l, "list")]
        tops = []
        if self.r.random() < 0.5:
            g = "g%s" % self.uid
            gf = "gf%s" % self.uid
            a = self.fresh()
            self.use("toplevel-define")
            tops.append("(define %s %s)" % (g, self.lit()))
            vg = V(g, "int", True)
            body = self.expr([vg, V(a, "int", self.r.random() < 0.5)], max(1, d - 2))
            tops.append("(define (%s %s) %s)" % (gf, a, body.t))
            env += [vg, V(gf, "proc", False, 1, False, body.R - {a}, body.W - {a}, body.eff)]
        e1 = self.expr(env, d)
        e2 = self.expr(env, max(1, d - 2))
        extra = " %s" % env[3].name if len(env) > 3 else ""
        main = ("(let ((%s 1) (%s 2) (%s (list 3 4))) (log! %s) (log! (list %s %s%s)) %s)"
                % (x, y, l, e1.t, x, y, extra, e2.t))
        return tops, main


# ====================================================================== (iii) boundary call protocols
def protocol_programs(thorough=False):
    """-> list of (signature tuple, main expression text)"""
    out = []
    # fixed + rest parameters, direct / via variable / via apply / define with dotted formals
    for nfix in range(0, 9):
        params = ["p%d" % i for i in range(nfix)]
        for rest in (False, True):
            formals = "(" + " ".join(params) + ")"
            if rest and not params:
                formals = "r"
            elif rest:
                formals = "(" + " ".join(params) + " . r)"
            body = "(list %s)" % " ".join(params + (["r"] if rest else []))
            for nargs in sorted({max(0, nfix - 1), nfix, nfix + 1, nfix + 3}):
                args = " ".join(str(100 + i) for i in range(nargs))
                sig = ("call", nfix, rest, nargs - nfix)
                out.append((sig + ("direct",), "((lambda %s %s)%s)" % (formals, body, " " + args if args else "")))
                out.append((sig + ("let",), "(let ((f (lambda %s %s))) (log! 'before) (f%s))"
                            % (formals, body, " " + args if args else "")))
                out.append((sig + ("apply",), "(apply (lambda %s %s) (list%s))" % (formals, body, " " + args if args else "")))
                out.append((sig + ("apply-mixed",), "(apply (lambda %s %s) %s(list%s))"
                            % (formals, body, "".join("%d " % (100 + i) for i in range(min(nargs, 2))),
                               "".join(" %d" % (100 + i) for i in range(min(nargs, 2), nargs)))))
                dform = "(f%s%s)" % ("".join(" " + p for p in params), " . r" if rest else "")
                out.append((sig + ("define",), "(let () (define %s %s) (f%s))" % (dform, body, " " + args if args else "")))
                # assigned parameters (boxed) in every position
                if nfix and nargs >= nfix:
                    sets = " ".join("(set! %s (+ %s 1))" % (p, p) for p in params)
                    rs = "(set! r (cons 'x r))" if rest else ""
                    out.append((sig + ("set-all",), "((lambda %s %s %s %s)%s)" % (formals, sets, rs, body, " " + args)))
                    out.append((sig + ("set-in-closure",), "((lambda %s ((lambda () %s %s)) %s)%s)"
                                % (formals, sets, rs, body, " " + args)))
    # every syntactic position in which a rest parameter can be used exactly once (or only assigned): the
    # unused-rest-parameter elision (simplify.c usedp / vm.c call protocol) must see each of them
    rest_uses = [
        ("ref", "r"), ("operand", "(list a (length r))"), ("if-test", "(if (null? r) 'none 'some)"),
        ("if-then", "(if (< a 5) r 'no)"), ("if-else", "(if (> a 5) 'no r)"), ("seq-first", "(begin (log! r) a)"),
        ("seq-last", "(begin (log! a) r)"), ("set-value-local", "(let ((y 0)) (set! y r) y)"),
        ("set-value-param", "(begin (set! a r) a)"), ("set-target-then-read", "(begin (set! r (list a)) r)"),
        ("set-target-only", "(begin (set! r 5) a)"), ("set-target-in-lambda", "(begin ((lambda () (set! r 5))) a)"),
        ("set-target-self", "(begin (set! r (cons a r)) a)"), ("lambda-body", "((lambda () r))"),
        ("lambda-bound", "(let ((g (lambda () r))) (g))"), ("lambda-set-value", "(let ((y 0)) ((lambda () (set! y r))) y)"),
        ("lambda-2-deep", "(((lambda () (lambda () r))))"), ("define-init", "(let () (define y r) y)"),
        ("define-body", "(let () (define (g) r) (g))"), ("and", "(and a r)"), ("or", "(or #f r)"),
        ("when", "(when (< a 5) r)"), ("case-branch", "(case a ((1) r) (else 'no))"),
        ("cond-test", "(cond ((null? r) 'none) (else 'some))"), ("quasi-splice", "`(a ,@r)"), ("apply", "(apply + a r)"),
        ("named-let-init", "(let lp ((l r) (n 0)) (if (null? l) n (lp (cdr l) (+ n 1))))"),
        ("do-init", "(do ((l r (cdr l)) (n 0 (+ n 1))) ((null? l) n))"), ("operator", "((if (null? r) list vector) a)"),
        ("shadow-lambda", "((lambda (r) r) a)"), ("shadow-let", "(let ((r (list a a))) r)"), ("unused", "(list a)"),
        ("length-only", "(length r)"), ("let-init", "(let ((y r)) (list a y))"), ("vector-elt", "(vector a r)"),
    ]
    for name, use in rest_uses:
        for nfix, fixed in ((1, "a"), (0, ""), (2, "a b")):
            if nfix == 0 and " a" in use.replace("(", " ").replace(")", " "):
                continue
            formals = "r" if nfix == 0 else "(%s . r)" % fixed
            for extra in (0, 1, 3):
                args = " ".join(str(i + 1) for i in range(nfix + extra))
                sig = ("rest-use", name, nfix, extra)
                out.append((sig + ("direct",), "((lambda %s %s)%s)" % (formals, use, " " + args if args else "")))
                out.append((sig + ("bound",), "(let ((f (lambda %s %s))) (let* ((v1 (f%s)) (v2 (f%s))) (list v1 v2)))"
                            % (formals, use, " " + args if args else "", " " + args if args else "")))
                out.append((sig + ("apply",), "(apply (lambda %s %s) (list%s))" % (formals, use, " " + args if args else "")))
    # many parameters / many internal defines / many let variables: local slot indexing beyond what the core library uses
    for n in (1, 2, 5, 8, 9, 12, 16, 17, 24, 33):
        names = ["v%d" % i for i in range(n)]
        out.append((("many", "params", n), "((lambda (%s) (set! %s (+ %s 1000)) (list %s)) %s)"
                    % (" ".join(names), names[-1], names[-1], " ".join(names), " ".join(str(i) for i in range(n)))))
        out.append((("many", "defines", n), "((lambda (p) %s (define (get) (list p %s)) (set! %s 'changed) (get)) 'p)"
                    % (" ".join("(define %s %d)" % (nm, i) for i, nm in enumerate(names)), " ".join(names), names[n // 2])))
        out.append((("many", "defines-closures", n), "((lambda (p) %s (list %s)) 7)"
                    % (" ".join("(define (%s) (+ p %d%s))" % (nm, i, (" (%s)" % names[i + 1]) if i + 1 < n else "")
                                for i, nm in enumerate(names)), " ".join("(%s)" % nm for nm in names))))
        out.append((("many", "lets", n), "(let (%s) (let ((g (lambda () (list %s)))) (set! %s 'changed) (g)))"
                    % (" ".join("(%s %d)" % (nm, i) for i, nm in enumerate(names)), " ".join(reversed(names)), names[0])))
        out.append((("many", "free-vars", n), "(let (%s) ((lambda (q) ((lambda () (set! %s q) (list %s)))) 'q))"
                    % (" ".join("(%s %d)" % (nm, i) for i, nm in enumerate(names)), names[-1], " ".join(names))))
    # apply with long argument lists
    ns = [0, 1, 2, 3, 7, 8, 9, 15, 16, 17, 31, 32, 33, 63, 64, 65, 100, 127, 128, 129, 200, 255, 256, 257, 300]
    for n in ns:
        mk = "(let lp ((i %d) (acc '())) (if (= i 0) acc (lp (- i 1) (cons i acc))))" % n
        out.append((("apply-n", n, "rest-lambda"), "(apply (lambda r (list (length r) (apply + r) r)) %s)" % mk))
        out.append((("apply-n", n, "list"), "(apply list %s)" % mk))
        out.append((("apply-n", n, "+"), "(apply + %s)" % mk))
        out.append((("apply-n", n, "fixed2+rest"), "(apply (lambda (a b . r) (list a b (length r) r)) 'x %s)" % mk))
        out.append((("apply-n", n, "fixed3"), "(apply (lambda (a b c) (list a b c)) %s)" % mk))
        out.append((("apply-n", n, "define-rest"), "(let () (define (f . args) (if (null? args) 'none (list (car args) (length args)))) (apply f %s))" % mk))
        out.append((("apply-n", n, "vector"), "(vector-length (apply vector %s))" % mk))
    # case
    keys = ["0", "1", "5", "-1", "'a", "'b", "'z", "#\\a", "#\\b", "#t", "#f", "'()", "100000000000000000000",
            "(* 10000000000 10000000000)", "(- 4611686018427387904 1)", "4611686018427387904", "(list 1)",
            "(vector)", "2"]
    for k in keys:
        out.append((("case", k, "plain"),
                    "(case %s ((0) 'zero) ((1 2 3) 'small) ((a) 'sym-a) ((b z) 'sym-bz) ((#\\a) 'char-a) ((#t) 'true) "
                    "((#f) 'false) ((()) 'nil) ((100000000000000000000) 'big) ((4611686018427387904) 'big62) "
                    "((4611686018427387903) 'fixmax) ((\"s\") 'str) (((1)) 'lst) ((-1) 'neg) (else 'other))" % k))
        out.append((("case", k, "=>"),
                    "(case %s ((0) => (lambda (x) (list 'zero x))) ((1 2 3 a b) => (lambda (x) (list 'hit x))) "
                    "((100000000000000000000 4611686018427387904) => (lambda (x) (list 'big x))) "
                    "(else => (lambda (x) (list 'else x))))" % k))
        out.append((("case", k, "no-else"), "(list 'r (case %s ((0) 'zero) ((5 #\\b z) 'hit)))" % k))
        out.append((("case", k, "effects"),
                    "(let ((n 0)) (let ((r (case (begin (set! n (+ n 1)) %s) ((0 1) (log! 'a) 'first) ((2 a) (log! 'b) 'second) "
                    "(else (log! 'c) 'third)))) (list r n)))" % k))
    # do
    dos = [
        ("no-step", "(let ((v (vector 0 0 0))) (do ((i 0 (+ i 1)) (k 7)) ((= i 3) (list k v)) (vector-set! v i (+ i k))))"),
        ("no-step-set", "(do ((i 0 (+ i 1)) (k 7)) ((= i 3) k) (set! k (+ k i)))"),
        ("no-body", "(do ((i 0 (+ i 1)) (acc '() (cons i acc))) ((= i 4) acc))"),
        ("no-vars", "(let ((n 0)) (do () ((= n 3) n) (set! n (+ n 1))))"),
        ("multi-result", "(do ((i 0 (+ i 1))) ((= i 2) (log! 'r1) (log! i) 'r3))"),
        ("no-result", "(list 'x (do ((i 0 (+ i 1))) ((= i 2))))"),
        ("closures", "(map (lambda (f) (f)) (do ((i 0 (+ i 1)) (fs '() (cons (lambda () i) fs))) ((= i 4) fs)))"),
        ("closures-set", "(map (lambda (f) (f)) (do ((i 0 (+ i 1)) (k 0) (fs '() (cons (lambda () (set! k (+ k 10)) (list i k)) fs))) ((= i 3) fs) (set! k (+ k 1))))"),
        ("parallel-step", "(do ((a 1 b) (b 2 a) (i 0 (+ i 1))) ((= i 3) (list a b)))"),
        ("zero-iter", "(do ((i 0 (+ i 1))) (#t (log! 'once) i) (log! 'never))"),
        ("nested", "(do ((i 0 (+ i 1)) (acc '())) ((= i 3) acc) (do ((j 0 (+ j 1))) ((= j i)) (set! acc (cons (list i j) acc))))"),
        ("test-effect", "(let ((n 0)) (do ((i 0 (+ i 1))) ((begin (set! n (+ n 1)) (= i 2)) n)))"),
    ]
    for name, t in dos:
        out.append((("do", name), t))
    # quasiquote
    qqs = [
        "`()", "`a", "`5", "`(a b)", "`(a ,x)", "`(a ,@l)", "`(,@l)", "`(,@l . tail)", "`(,@l ,@l)", "`(a . ,x)",
        "`(a ,@l . ,x)", "`(,x . ,y)", "`#(a ,x)", "`#(,@l)", "`#(1 ,@l 2 ,x)", "`#()", "`(a #(b ,x) (c ,@l))",
        "`(a `(b ,(c ,x)))", "`(a `(b ,(c ,@l)))", "`(a `(b ,@(c ,x)))", "`(a `(b `(c ,(d ,(e ,x)))))",
"`(1 `(2 ,(3 ,@l 4)))", "`(1 `#(2 ,(3 ,x)))", "`#(1 `(2 ,(3 ,x)))",
        "`(,(+ x 1) ,(list x y))", "`((,x) ((,y)))", "`(,@'() ,@l ,@'())", "`(,@'())", "`(a ,@'() . b)",
        "`(quote ,x)", "`',x", "`(a (unquote x) (unquote-splicing l))", "(quasiquote (a (unquote x)))",
        "`(a . `(b ,(c ,x)))", "`(,@l . ,l)", "`(,x ,@(map (lambda (e) (* e e)) l) ,y)", "`(,@(list x y) . ,(+ x y))",
        "`(a `(b ,,x))", "`(a `(b ,@,l))", "`(a `(b ,',x))", "`#(a `#(b ,(c ,x)))",
        "`(x ,`(y ,x))", "`(x ,`(y ,@`(z ,x)))", "`,x", "`(,`,x)",
        "(let ((name 'a)) `(list ,name ',name))", "(let ((name1 'x) (name2 'y)) `(a `(b ,,name1 ,',name2 d) e))",
    ]
    for q in qqs:
        out.append((("quasiquote", q), "(let ((x 5) (y 6) (l (list 1 2 3))) %s)" % q))
    # multiple values
    for n in range(0, 6):
        vals = " ".join(str(10 + i) for i in range(n))
        out.append((("values", n, "list"), "(call-with-values (lambda () (values%s)) list)" % (" " + vals if vals else "")))
        out.append((("values", n, "rest"), "(call-with-values (lambda () (values%s)) (lambda r (list 'got r)))" % (" " + vals if vals else "")))
        out.append((("values", n, "fixed2"), "(call-with-values (lambda () (values%s)) (lambda (a b) (list a b)))" % (" " + vals if vals else "")))
        out.append((("values", n, "apply"), "(call-with-values (lambda () (apply values (list%s))) (lambda (a . r) (list a r)))" % (" " + vals if vals else "")))
        out.append((("values", n, "via-if"), "(call-with-values (lambda () (if (< 1 2) (values%s) 'no)) list)" % (" " + vals if vals else "")))
        out.append((("values", n, "via-begin"), "(call-with-values (lambda () (log! 'p) (values%s)) (lambda r (log! 'c) r))" % (" " + vals if vals else "")))
        if n >= 1:
            fs = " ".join("v%d" % i for i in range(n))
            out.append((("values", n, "let-values"), "(let-values (((%s) (values %s)) ((z) 99)) (list %s z))" % (fs, vals, fs)))
            out.append((("values", n, "let*-values"), "(let*-values (((%s) (values %s)) ((z . w) (values v0 v0))) (list %s z w))" % (fs, vals, fs)))
            out.append((("values", n, "define-values"), "(let () (define-values (%s . more) (values %s 'm1 'm2)) (list %s more))" % (fs, vals, fs)))
            out.append((("values", n, "let-values-formals"), "(let-values ((all (values %s))) all)" % vals))
    # derived forms at their edges
    misc = [
        ("and-empty", "(list (and) (or) (and 1) (or #f) (and 1 2 #f 3) (or #f #f 3 (car 5)))"),
        ("and-tail", "(let lp ((i 0)) (and (< i 2000) (or (= i 1999) (lp (+ i 1)))))"),
        ("cond-test-only", "(list (cond (#f 1) (5)) (cond ((assv 2 '((1 . a) (2 . b))) => cdr) (else 'none)) (cond ((memv 9 '(1 2)) => car) (else 'none)))"),
        ("cond-no-match", "(list 'r (cond (#f 1)))"),
        ("when-unless", "(list (when #t 1 2 3) (unless #f 4 5) (when (car '(#t)) (log! 'w) 'x))"),
        ("when-false", "(list 'r (when #f 1) (unless #t 2))"),
        ("let*-dup", "(let* ((x 1) (x (+ x 1)) (x (* x 10))) x)"),
        ("let*-empty", "(let* () (define z 3) z)"),
        ("letrec-even-odd", "(letrec ((ev? (lambda (n) (if (= n 0) #t (od? (- n 1))))) (od? (lambda (n) (if (= n 0) #f (ev? (- n 1)))))) (list (ev? 100) (od? 7)))"),
        ("letrec*-order", "(letrec* ((a 1) (b (+ a 1)) (c (lambda () (+ a b d))) (d (* b 10))) (c))"),
        ("named-let-shadow", "(let lp ((lp2 1) (i 0)) (if (< i 3) (lp (* lp2 2) (+ i 1)) lp2))"),
        ("named-let-noargs", "(let ((n 0)) (let lp () (if (< n 5) (begin (set! n (+ n 1)) (lp)) n)))"),
        ("named-let-init-scope", "(let ((f (lambda (x) (* x 100)))) (let f ((x (f 2)) (i 0)) (if (< i 1) (f (+ x 1) (+ i 1)) x)))"),
        ("internal-define-after-use", "(let ((x 1)) (define (g) (h 2)) (define y (* x 10)) (define (h n) (+ n y x)) (g))"),
        ("internal-define-shadow-param", "((lambda (x y) (define y 5) (define (g) (list x y)) (set! x (+ x 1)) (g)) 1 2)"),
        ("internal-define-closure-first", "(let () (define f (let ((n 0)) (lambda () (set! n (+ n 1)) (g n)))) (define (g k) (* k 2)) (let* ((a (f)) (b (f))) (list a b)))"),
        ("internal-define-values", "(let () (define a 1) (define-values (b c) (values (+ a 1) (+ a 2))) (define (s) (+ a b c)) (s))"),
        ("begin-nested", "(begin (log! 1) (begin (log! 2) 3))"),
        ("set!-closure-shared", "(let ((n 0)) (let ((inc (lambda () (set! n (+ n 1)) n)) (get (lambda () n))) (inc) (inc) (list (get) n)))"),
        ("deep-closure", "((((((lambda (a) (lambda (b) (lambda (c) (lambda (d) (lambda (e) (set! a (+ a 1)) (list a b c d e)))))) 1) 2) 3) 4) 5)"),
        ("many-locals", "(let ((a 1) (b 2) (c 3) (d 4) (e 5) (f 6) (g 7) (h 8) (i 9) (j 10) (k 11) (l 12)) (define m 13) (define n 14) (define (sum) (+ a b c d e f g h i j k l m n)) (set! g 70) (set! m 130) (let* ((s1 (sum)) (s2 ((lambda () (set! a 100) (sum))))) (list s1 s2)))"),
        ("apply-primitive", "(list (apply car '((1 2))) (apply cons 1 '(2)) (apply apply (list + (list 1 2))) (apply max 1 2 '(5 3)))"),
        ("map-multi", "(list (map + '(1 2 3) '(10 20 30)) (map (lambda (x y z) (list x y z)) '(1 2) '(3 4) '(5 6)) (map car '((a) (b))))"),
        ("for-each-order", "(let ((acc '())) (for-each (lambda (x y) (set! acc (cons (+ x y) acc))) '(1 2 3) '(10 20 30)) acc)"),
        ("vector-for-each", "(let ((acc '())) (vector-for-each (lambda (x) (set! acc (cons x acc))) (vector 1 2 3)) (list acc (vector-map (lambda (x) (* 2 x)) (vector 1 2))))"),
        ("error-in-operand", "(list 1 (car '()) 2)"),
        ("error-arity-primitive", "(let ((f car)) (f 1 2))"),
        ("error-notproc", "(let ((f 5)) (f 1))"),
        ("error-raise-in-loop", "(do ((i 0 (+ i 1))) ((= i 5) 'done) (log! i) (when (= i 2) (raise (list 'stop i))))"),
        ("error-irritants", "(error \"boom-x\" 1 'two \"three\" (list 4 5) (vector 6))"),
        ("error-no-irritants", "(error \"boom-y\")"),
        ("unbound-operator", "(this-procedure-is-not-defined-c03 1 2)"),
        ("unbound-set", "(begin (log! 'before) (set! this-variable-is-not-defined-c03 1) 'after)"),
    ]
    for name, t in misc:
        out.append((("misc", name), t))
    return out
