"""C19 -- codec libraries invert each other and are total on hostile input (DESIGN.md section 3, C19).

Oracles: Python's stdlib codecs (base64, quopri, urllib.parse, json, csv, struct, int.to_bytes, str.encode) as
independent implementations, plus the grammars of the formats for encoder-output validity.  Three directions per
codec: chibi-encode -> Python-decode (and grammar check), Python-encode -> chibi-decode, chibi round trip.
Totality: mutated / random byte strings go to every decoder; the outcome must be a value or a Scheme error inside
the watchdog, on the hooks build and on the ASan + red-zone build (asan-rz).

Modules: c19_common (Scheme helpers), c19_json ((chibi json)), c19_acc (numeric accessors)."""
import base64
import csv
import io
import json
import quopri
import random
import re
import urllib.parse
from email.header import decode_header

from .. import build as B
from .. import cases as C
from ..sexpr import Sym, Str
from . import c19_acc as ACC
from . import c19_json as J
from .c19_common import (Case, IMPORTS, HEADER, PRELUDE, bvlit, is_err, err_msg, as_bytes, as_text, show, len_class, text_lit)

# ---------------------------------------------------------------------------------------------
# data generators
# ---------------------------------------------------------------------------------------------
TEXT_CLASSES = {
    "ascii-unreserved": "abcXYZ019-_.~",
    "ascii-punct": " !\"#$%&'()*+,/:;<=>?@[\\]^`{|}",
    "control": "\t\n\r\x01\x1f\x7f",
    "latin1": "\u00e9\u00ff\u0080\u00a0\u00df",
    "bmp": "\u20ac\u65e5\u672c\u2028\u03bb\uffff\u0800",
    "astral": "\U0001F600\U00010000\U0010FFFF",
}


def gen_text(rng, cls, maxlen=12):
    n = rng.randrange(1, maxlen + 1)
    base = TEXT_CLASSES["ascii-unreserved"]
    own = TEXT_CLASSES[cls]
    s = "".join(rng.choice(own) if rng.random() < 0.5 else rng.choice(base) for _ in range(n))
    if not any(c in own for c in s):
        s += rng.choice(own)
    return s


def gen_bytes(rng, n):
    k = rng.random()
    if k < 0.6:
        return bytes(rng.getrandbits(8) for _ in range(n))
    if k < 0.7:
        return bytes([rng.choice([0, 0xFF, 0x3D, 0x0A, 0x0D, 0x20])]) * n
    if k < 0.85:
        return bytes((i * 7 + 3) & 0xFF for i in range(n))
    return bytes(rng.choice(b"abc XYZ=\r\n\t_?.,09") for _ in range(n))


def data_lengths(rng, quick):
    ls = list(range(0, 101))
    ls += [127, 128, 129, 255, 256, 257, 1023, 1024, 1025, 2047, 2048, 2049, 2222, 2223, 2224, 3071, 3072, 3073, 4094, 4095, 4096]
    ls += [rng.randrange(101, 4097) for _ in range(30 if quick else 600)]
    return ls


# ---------------------------------------------------------------------------------------------
# base64
# ---------------------------------------------------------------------------------------------
def b64_cases(rng, quick):
    cases = []
    for n in data_lengths(rng, quick):
        d = gen_bytes(rng, n)
        py = base64.b64encode(d)
        variant, alt = rng.choice([
            ("urlsafe", base64.urlsafe_b64encode(d)), ("mime-wrapped", base64.encodebytes(d)),
            ("crlf-wrapped", b"\r\n".join(py[i:i + 76] for i in range(0, len(py), 76))),
            ("unpadded", py.rstrip(b"=")), ("spaces", b" ".join(py[i:i + 4] for i in range(0, len(py), 4)))])
        form = ("(let* ((d %s) (e (%%t (base64-encode-bytevector d)))) (list (obe e) (if (bytevector? e) (%%t (ob (base64-decode-bytevector e))) 'skipped)"
                " (%%t (ob (base64-decode-bytevector %s))) (%%t (ob (base64-decode-bytevector %s)))))" % (bvlit(d), bvlit(py), bvlit(alt)))
        cases.append(Case(form, ("base64", "bytevector", "len%%3=%d" % (n % 3), len_class(n), variant),
                          _judge_b64(form, d, py, "bytevector", variant)))
    # port variants: chunked implementations (2048-byte reads when encoding, 2964-character reads when decoding)
    plens = [0, 1, 2, 3, 57, 100, 2046, 2047, 2048, 2049, 2050, 2222, 2223, 2224, 2964, 3000, 4095, 4096, 4446, 6144, 8892]
    plens += [rng.randrange(4, 5000) for _ in range(10 if quick else 200)]
    for n in plens:
        d = gen_bytes(rng, n)
        py = base64.b64encode(d)
        form = "(let ((d %s)) (list (%%t (ob (b64-enc-port d))) (%%t (ob (b64-dec-port %s)))))" % (bvlit(d), bvlit(py))
        cases.append(Case(form, ("base64", "port", _chunk_class(n, 2048), _chunk_class(len(py), 2964)), _judge_b64_port(form, d, py)))
    # wrapped and irregularly wrapped encodings through the streaming (binary port) decoder and the one-shot decoder:
    # ignored bytes (line breaks) falling next to the decoder's chunk boundary, inside a 4-character quantum
    widths = [76, 64, 60, 75, 77, 19, 10, 7, 5, 3, 1]
    for n in [2000, 2223, 3000, 4096] + [rng.randrange(2230, 9000) for _ in range(3 if quick else 60)]:
        d = gen_bytes(rng, n)
        py = base64.b64encode(d)
        for w in (rng.sample(widths, 5) if quick else widths):
            sep = rng.choice([b"\n", b"\r\n"])
            wrapped = sep.join(py[i:i + w] for i in range(0, len(py), w))
            form = "(list (%%t (ob (b64-dec-port %s))) (%%t (ob (base64-decode-bytevector %s))))" % (bvlit(wrapped), bvlit(wrapped))
            cases.append(Case(form, ("base64", "wrapped", "width%%4=%d" % (w % 4), "lf" if sep == b"\n" else "crlf",
                                     _chunk_class(len(wrapped), 2964)), _judge_b64_wrapped(form, d, w)))
    # string and textual-port variants
    for cls in TEXT_CLASSES:
        for _ in range(4 if quick else 40):
            t = gen_text(rng, cls, rng.choice([3, 12, 60]))
            py = base64.b64encode(t.encode("utf-8")).decode("ascii")
            form = ("(let ((t %s)) (list (%%t (ob (base64-encode-string t))) (%%t (ob (base64-decode-string %s)))"
                    " (%%t (ob (b64-enc-sport t))) (%%t (ob (b64-dec-sport %s)))))" % (text_lit(t), text_lit(py), text_lit(py)))
            cases.append(Case(form, ("base64", "string", cls), _judge_b64_str(form, t, py, cls)))
    # RFC 2047 headers
    for _ in range(12 if quick else 120):
        cls = rng.choice(["ascii-unreserved", "latin1", "bmp", "astral"])
        t = gen_text(rng, cls, rng.choice([5, 30, 80, 200]))
        form = "(%%t (ob (base64-encode-header \"utf-8\" %s)))" % text_lit(t)
        cases.append(Case(form, ("base64", "header", cls, len_class(len(t.encode("utf-8")))), _judge_header(form, t, "base64", "B")))
    return cases


def _chunk_class(n, chunk):
    if n == 0:
        return "len=0"
    if n % chunk == 0:
        return "len=k*%d" % chunk
    if n > chunk:
        return "len>%d" % chunk
    return "len<%d" % chunk


def _v(codec, api, mode, cls, form, exp, got, **kw):
    sig = {"codec": codec, "api": api, "mode": mode, "class": cls}
    sig.update(kw)
    return (sig, {"form": form[:200000] + ("..." if len(form) > 200000 else ""), "expected": show(exp), "observed": show(got)})


def _judge_b64(form, d, py, api, variant):
    cls = "len%%3=%d" % (len(d) % 3)

    def judge(o):
        if not (isinstance(o, list) and len(o) == 4):
            return [_v("base64", api, "unparsable-observation", cls, form, py, o)]
        e, back, frompy, fromalt = o
        out = []
        if is_err(e) or as_bytes(e) != py:
            out.append(_v("base64", "encode-" + api, "error" if is_err(e) else "wrong-output", cls, form, py, e))
        elif is_err(back) or as_bytes(back) != d:
            out.append(_v("base64", "roundtrip-" + api, "error" if is_err(back) else "wrong-output", cls, form, d.hex(), back))
        if is_err(frompy) or as_bytes(frompy) != d:
            out.append(_v("base64", "decode-" + api, "error" if is_err(frompy) else "wrong-output", cls, form, d.hex(), frompy, input="python-b64encode"))
        if is_err(fromalt) or as_bytes(fromalt) != d:
            out.append(_v("base64", "decode-" + api, "error" if is_err(fromalt) else "wrong-output", cls, form, d.hex(), fromalt, input=variant))
        return out
    return judge


def _judge_b64_port(form, d, py):
    def judge(o):
        if not (isinstance(o, list) and len(o) == 2):
            return [_v("base64", "port", "unparsable-observation", "-", form, py, o)]
        out = []
        e, dd = o
        if is_err(e) or as_bytes(e) != py:
            out.append(_v("base64", "encode-port", "error" if is_err(e) else "wrong-output", _chunk_class(len(d), 2048), form, py, e))
        if is_err(dd) or as_bytes(dd) != d:
            out.append(_v("base64", "decode-port", "error" if is_err(dd) else "wrong-output", _chunk_class(len(py), 2964), form, d.hex(), dd))
        return out
    return judge


def _judge_b64_wrapped(form, d, w):
    cls = "width%%4=%d" % (w % 4)

    def judge(o):
        if not (isinstance(o, list) and len(o) == 2):
            return [_v("base64", "wrapped", "unparsable-observation", cls, form, d.hex(), o)]
        out = []
        for api, x in (("decode-port", o[0]), ("decode-bytevector", o[1])):
            if is_err(x) or as_bytes(x) != d:
                out.append(_v("base64", api, "error" if is_err(x) else "wrong-output", cls, form, d.hex(), x, input="line-wrapped"))
        return out
    return judge


def _judge_b64_str(form, t, py, cls):
    def judge(o):
        if not (isinstance(o, list) and len(o) == 4):
            return [_v("base64", "string", "unparsable-observation", cls, form, py, o)]
        out = []
        for api, x, want in (("encode-string", o[0], py), ("decode-string", o[1], t), ("encode-string-port", o[2], py), ("decode-string-port", o[3], t)):
            tx = as_text(x)
            if is_err(x) or tx is None or tx[0] != want:
                out.append(_v("base64", api, "error" if is_err(x) else "wrong-output", cls, form, want, x))
        return out
    return judge


def _judge_header(form, t, codec, enc):
    """RFC 2047: encoded-words of at most 75 characters, separated by CRLF + linear white space; decoding gives t."""
    def judge(o):
        tx = as_text(o)
        cls = "header"
        if is_err(o) or tx is None or tx[0] is None:
            return [_v(codec, "encode-header", "error" if is_err(o) else "not-text", cls, form, t, o)]
        text = tx[0]
        lines = text.split("\r\n")
        for ln in lines:
            w = ln.strip(" \t")
            if not re.fullmatch(r"=\?utf-8\?%s\?[!-~]*\?=" % enc, w) or "?" in w[10:-2].replace("?", "", 0) and False:
                return [_v(codec, "encode-header", "not-an-encoded-word", cls, form, "=?utf-8?%s?...?=" % enc, ln)]
            if len(ln) > 76:
                return [_v(codec, "encode-header", "line-too-long", cls, form, "<= 76", len(ln))]
        try:
            parts = decode_header(text)
            raw = b"".join(p if isinstance(p, bytes) else p.encode("ascii") for p, _ in parts)
            ok = raw.decode("utf-8") == t
        except Exception as ex:           # the Python decoder rejects it
            return [_v(codec, "encode-header", "python-cannot-decode", cls, form, t, "%s: %s" % (type(ex).__name__, ex))]
        if not ok:
            return [_v(codec, "encode-header", "decodes-to-other-text", cls, form, t, raw[:200])]
        return []
    return judge


# ---------------------------------------------------------------------------------------------
# quoted-printable
# ---------------------------------------------------------------------------------------------
_QP_LINE = re.compile(rb"(?:[!-<>-~]|[ \t](?=.)|=[0-9A-F]{2})*=?")

QP_VALID_FORMS = [   # RFC 2045 encodings a decoder must accept: (class, encoded, decoded)
    ("soft-break-lf", b"abc=\ndef", b"abcdef"), ("soft-break-crlf", b"abc=\r\ndef", b"abcdef"),
    ("soft-break-at-end", b"abc=\n", b"abc"), ("soft-break-at-end", b"abc=\r\n", b"abc"),
    ("trailing-space-before-newline", b"abc \t\r\ndef", b"abc\r\ndef"), ("trailing-space-at-end", b"abc ", b"abc"),
    ("trailing-space-at-end", b"abc=20 \t", b"abc "),
    ("hex-escape", b"=41=42=3D=0D=0A=FF", b"AB=\r\n\xff"), ("hex-escape-at-end", b"ab=41", b"abA"),
    ("literal", b"hello, world", b"hello, world"), ("hard-newline", b"a\r\nb\nc", b"a\r\nb\nc"),
    ("inner-space", b"a b\tc d", b"a b\tc d"),
]


def qp_valid(e):
    """-> None or reason: lines of at most 76 characters, printable ASCII, =XX upper-case escapes, soft breaks"""
    for ln in re.split(rb"\r\n|\n", e):
        if len(ln) > 76:
            return "line-too-long"
        if not _QP_LINE.fullmatch(ln):
            return "forbidden-byte-or-escape"
        if ln.endswith((b" ", b"\t")):
            return "trailing-whitespace"
    return None


def qp_cases(rng, quick):
    cases = []
    lens = list(range(0, 40)) + [60, 70, 73, 74, 75, 76, 77, 78, 79, 80, 100, 150, 151, 152, 228, 300, 1000, 4096]
    lens += [rng.randrange(40, 2000) for _ in range(20 if quick else 400)]
    for n in lens:
        for kind in ("binary", "text"):
            d = gen_bytes(rng, n) if kind == "binary" else bytes(rng.choice(b"abcdefghij klmnop.,;=?_\r\n\t") for _ in range(n))
            py = quopri.encodestring(d)
            py_ok = quopri.decodestring(py) == d and b"\r" not in d    # quopri leaves a bare CR raw and normalises CR LF: not usable there
            form = ("(let* ((d %s) (e (%%t (quoted-printable-encode-bytevector d)))) (list (obe e) (if (bytevector? e) (%%t (ob (quoted-printable-decode-bytevector e))) 'skipped)"
                    " (%%t (ob (quoted-printable-decode-bytevector %s)))))" % (bvlit(d), bvlit(py if py_ok else b"")))
            cases.append(Case(form, ("qp", "bytevector", kind, len_class(n)), _judge_qp(form, d, py if py_ok else None, kind)))
    for cls, enc, dec in QP_VALID_FORMS:
        form = "(list (%%t (ob (quoted-printable-decode-bytevector %s))) (%%t (ob (quoted-printable-decode-string %s))))" % (bvlit(enc), text_lit(enc.decode("latin-1")))
        cases.append(Case(form, ("qp", "decode-valid-form", cls), _judge_qp_form(form, cls, enc, dec)))
    for cls in TEXT_CLASSES:
        for _ in range(3 if quick else 30):
            t = gen_text(rng, cls, rng.choice([3, 12, 40]))
            form = ("(let* ((t %s) (e (%%t (quoted-printable-encode-string t)))) (list (obe e) (if (string? e) (%%t (ob (quoted-printable-decode-string e))) 'skipped)))" % text_lit(t))
            cases.append(Case(form, ("qp", "string", cls), _judge_qp_str(form, t, cls)))
    for _ in range(6 if quick else 60):
        cls = rng.choice(["ascii-unreserved", "latin1", "bmp"])
        t = gen_text(rng, cls, rng.choice([5, 30, 80]))
        form = "(%%t (ob (quoted-printable-encode-header \"utf-8\" %s)))" % text_lit(t)
        cases.append(Case(form, ("qp", "header", cls), _judge_qp_header(form, t)))
    return cases


def _enc_class(n):
    return "encoded-length<=76" if n <= 76 else "encoded-length>76"


def _judge_qp(form, d, py, kind):
    def judge(o):
        if not (isinstance(o, list) and len(o) == 3):
            return [_v("qp", "bytevector", "unparsable-observation", kind, form, "-", o)]
        e, back, frompy = o
        out = []
        eb = as_bytes(e)
        if is_err(e) or eb is None:
            out.append(_v("qp", "encode", "error" if is_err(e) else "not-a-bytevector", kind, form, "-", e))
        else:
            bad = qp_valid(eb)
            if bad:
                out.append(_v("qp", "encode", bad, _enc_class(len(eb)), form, "RFC 2045 text", eb[:200]))
            if quopri.decodestring(eb) != d:
                out.append(_v("qp", "encode", "python-decodes-to-other-bytes", kind, form, d.hex()[:200], quopri.decodestring(eb).hex()[:200]))
            if is_err(back) or as_bytes(back) != d:
                out.append(_v("qp", "roundtrip", "error" if is_err(back) else "wrong-output", kind, form, d.hex()[:200], back))
        if py is not None and (is_err(frompy) or as_bytes(frompy) != d):
            out.append(_v("qp", "decode", "error" if is_err(frompy) else "wrong-output", kind, form, d.hex()[:200], frompy, input="python-quopri"))
        return out
    return judge


def _judge_qp_form(form, cls, enc, dec):
    def judge(o):
        if not (isinstance(o, list) and len(o) == 2):
            return [_v("qp", "decode", "unparsable-observation", cls, form, dec, o)]
        out = []
        a, b = o
        if is_err(a) or as_bytes(a) != dec:
            out.append(_v("qp", "decode-bytevector", "error" if is_err(a) else "wrong-output", "valid-form:" + cls, form, dec, a))
        tb = as_text(b)
        if is_err(b) or tb is None or tb[1] != dec:
            out.append(_v("qp", "decode-string", "error" if is_err(b) else "wrong-output", "valid-form:" + cls, form, dec, b))
        return out
    return judge


def _judge_qp_str(form, t, cls):
    def judge(o):
        if not (isinstance(o, list) and len(o) == 2):
            return [_v("qp", "string", "unparsable-observation", cls, form, t, o)]
        e, back = o
        te = as_text(e)
        if is_err(e) or te is None or te[0] is None:
            return [_v("qp", "encode-string", "error" if is_err(e) else "not-text", cls, form, t, e)]
        out = []
        bad = qp_valid(te[1])
        if bad:
            out.append(_v("qp", "encode-string", bad, _enc_class(len(te[1])), form, "RFC 2045 text", te[0][:200]))
        if quopri.decodestring(te[1]) != t.encode("utf-8"):
            out.append(_v("qp", "encode-string", "python-decodes-to-other-bytes", cls, form, t, quopri.decodestring(te[1])))
        tb = as_text(back)
        if is_err(back) or tb is None or tb[0] != t:
            out.append(_v("qp", "roundtrip-string", "error" if is_err(back) else "wrong-output", cls, form, t, back))
        return out
    return judge


def _judge_qp_header(form, t):
    inner = _judge_header(form, t, "qp", "Q")

    def judge(o):
        if isinstance(o, Str):          # the procedure returns a bytevector of ASCII text
            b = as_bytes(o)
            o = [Sym("s"), Str(b.hex())] if b is not None else o
        return inner(o)
    return judge


# ---------------------------------------------------------------------------------------------
# URI escaping
# ---------------------------------------------------------------------------------------------
_URI_OK = re.compile(r"(?:[A-Za-z0-9\-_.~!*'()]|%[0-9A-Fa-f]{2})*")
_URI_OK_PLUS = re.compile(r"(?:[A-Za-z0-9\-_.~!*'()+]|%[0-9A-Fa-f]{2})*")


def uri_cases(rng, quick):
    cases = []
    for cls in TEXT_CLASSES:
        for _ in range(12 if quick else 300):
            s = gen_text(rng, cls, rng.choice([1, 4, 12, 40]))
            q, qp = urllib.parse.quote(s, safe=""), urllib.parse.quote_plus(s)
            form = ("(let* ((s %s) (e (%%t (uri-encode s))) (p (%%t (uri-encode s #t)))) (list (obe e) (if (string? e) (%%t (ob (uri-decode e))) 'skipped) (%%t (ob (uri-decode %s)))"
                    " (obe p) (if (string? p) (%%t (ob (uri-decode p #t))) 'skipped) (%%t (ob (uri-decode %s #t)))))" % (text_lit(s), text_lit(q), text_lit(qp)))
            cases.append(Case(form, ("uri", "encode/decode", cls), _judge_uri(form, s, cls)))
    for _ in range(40 if quick else 600):
        cls = rng.choice(["ascii-unreserved", "ascii-punct", "ascii-punct", "control", "latin1", "bmp"])
        pairs = []
        for i in range(rng.randrange(1, 5)):
            k = gen_text(rng, cls if rng.random() < 0.5 else "ascii-unreserved", 6)
            v = None if rng.random() < 0.15 else ("" if rng.random() < 0.1 else gen_text(rng, cls, 8))
            pairs.append((k, v))
        plus = rng.random() < 0.5
        al = "(list %s)" % " ".join("(cons %s %s)" % (text_lit(k), "#f" if v is None else text_lit(v)) for k, v in pairs)
        pyq = urllib.parse.urlencode([(k, v) for k, v in pairs if v is not None], quote_via=urllib.parse.quote_plus if plus else urllib.parse.quote)
        form = ("(let* ((al %s) (q (%%t (uri-alist->query al %s)))) (list (obe q) (if (string? q) (%%t (map (lambda (p) (list (ob (car p)) (ob (cdr p)))) (uri-query->alist q %s))) 'skipped)"
                " (%%t (map (lambda (p) (list (ob (car p)) (ob (cdr p)))) (uri-query->alist %s %s)))))" % (al, "#t" if plus else "#f", "#t" if plus else "#f", text_lit(pyq), "#t" if plus else "#f"))
        shape = "valueless-key-before-pair" if any(v is None for k, v in pairs[:-1]) else "plain"
        cases.append(Case(form, ("uri", "query", cls, "plus" if plus else "noplus", shape), _judge_uri_query(form, pairs, plus, cls, shape)))
    return cases


def _judge_uri(form, s, cls):
    def judge(o):
        if not (isinstance(o, list) and len(o) == 6):
            return [_v("uri", "encode/decode", "unparsable-observation", cls, form, s, o)]
        out = []
        for plus, (e, back, frompy) in ((False, o[0:3]), (True, o[3:6])):
            sfx = "+plus" if plus else ""
            te = as_text(e)
            if is_err(e) or te is None or te[0] is None:
                out.append(_v("uri", "encode" + sfx, "error" if is_err(e) else "not-text", cls, form, s, e))
            else:
                enc = te[0]
                if not (_URI_OK_PLUS if plus else _URI_OK).fullmatch(enc):
                    out.append(_v("uri", "encode" + sfx, "output-not-percent-encoded", cls, form, "unreserved / %XX only", enc[:200]))
                if (urllib.parse.unquote_plus(enc) if plus else urllib.parse.unquote(enc)) != s:
                    out.append(_v("uri", "encode" + sfx, "python-decodes-to-other-text", cls, form, s, urllib.parse.unquote(enc)[:200]))
                tb = as_text(back)
                if is_err(back) or tb is None or tb[0] != s:
                    out.append(_v("uri", "roundtrip" + sfx, "error" if is_err(back) else "wrong-output", cls, form, s, back))
            tp = as_text(frompy)
            if is_err(frompy) or tp is None or tp[0] != s:
                out.append(_v("uri", "decode" + sfx, "error" if is_err(frompy) else "wrong-output", cls, form, s, frompy, input="python-quote"))
        return out
    return judge


def _pairs_obs(x):
    """((s k) (s v)|#f) list -> python pairs or None"""
    if not isinstance(x, list):
        return None
    out = []
    for p in x:
        if not (isinstance(p, list) and len(p) == 2):
            return None
        k = as_text(p[0])
        v = None if p[1] is False else as_text(p[1])
        if k is None or (p[1] is not False and v is None):
            return None
        out.append((k[0], None if p[1] is False else v[0]))
    return out


def _judge_uri_query(form, pairs, plus, cls, shape):
    def judge(o):
        if not (isinstance(o, list) and len(o) == 3):
            return [_v("uri", "query", "unparsable-observation", cls, form, pairs, o)]
        q, back, frompy = o
        out = []
        tq = as_text(q)
        if is_err(q) or tq is None or tq[0] is None:
            out.append(_v("uri", "alist->query", "error" if is_err(q) else "not-text", cls, form, pairs, q))
        else:
            want = [(k, "" if v is None else v) for k, v in pairs]
            got = urllib.parse.parse_qsl(tq[0], keep_blank_values=True) if plus else \
                [tuple(urllib.parse.unquote(x) for x in (kv.split("=", 1) + [""])[:2]) for kv in tq[0].split("&")]
            if got != want:
                out.append(_v("uri", "alist->query", "python-parses-other-pairs", cls, form, want, got))
            pb = None if is_err(back) else _pairs_obs(back)
            # a pair written as "k=" reads back as ("k" . "") and one written as "k" as ("k" . #f)
            if pb != [(k, v) for k, v in pairs]:
                out.append(_v("uri", "query-roundtrip", "error" if is_err(back) else "wrong-output", cls, form, pairs, back, shape=shape))
        pp = None if is_err(frompy) else _pairs_obs(frompy)
        if pp != [(k, v) for k, v in pairs if v is not None]:
            out.append(_v("uri", "query->alist", "error" if is_err(frompy) else "wrong-output", cls, form, [p for p in pairs if p[1] is not None], frompy, input="python-urlencode"))
        return out
    return judge


# ---------------------------------------------------------------------------------------------
# CSV
# ---------------------------------------------------------------------------------------------
CSV_GRAMMARS = {
    # name: (scheme grammar expr, python reader/writer kwargs, characters a field may not contain, expected line end)
    "default": ("default-csv-grammar", dict(delimiter=",", quotechar='"', doublequote=True), "", "\n"),
    "semicolon": ("(csv-grammar '((separator-chars #\\;)))", dict(delimiter=";", quotechar='"', doublequote=True), "", "\n"),
    "single-quote": ("(csv-grammar '((quote-char . #\\')))", dict(delimiter=",", quotechar="'", doublequote=True), "", "\n"),
    "escape-char": ("(csv-grammar '((escape-char . #\\\\) (quote-doubling-escapes? . #f)))",
                    dict(delimiter=",", quotechar='"', doublequote=False, escapechar="\\"), "", "\n"),
    "tsv": ("default-tsv-grammar", dict(delimiter="\t", quoting=csv.QUOTE_NONE, quotechar=None), "\t\r\n", "\n"),
    "crlf": ("(csv-grammar '((record-separator . crlf)))", dict(delimiter=",", quotechar='"', doublequote=True), "", "\r\n"),
}
FIELD_CLASSES = ["plain", "needs-quoting", "empty-fields", "single-empty-field", "unicode", "spaces", "newlines"]


def gen_rows(rng, cls, forbid):
    def fld():
        if cls == "plain":
            s = "".join(rng.choice("abcXYZ019._-") for _ in range(rng.randrange(1, 8)))
        elif cls == "needs-quoting":
            s = "".join(rng.choice("ab,;\"'\\c") for _ in range(rng.randrange(1, 8)))
        elif cls == "empty-fields":
            s = "" if rng.random() < 0.6 else "x"
        elif cls == "unicode":
            s = "".join(rng.choice("aé日\U0001F600,\"") for _ in range(rng.randrange(1, 6)))
        elif cls == "spaces":
            s = rng.choice([" a", "a ", " ", "a b", "\ta"])
        elif cls == "newlines":
            s = "".join(rng.choice("ab\n\r,\"") for _ in range(rng.randrange(1, 8)))
        else:
            s = ""
        return "".join(c for c in s if c not in forbid)
    if cls == "single-empty-field":
        return [[""]] if rng.random() < 0.5 else [["a", "b"], [""], ["c"]]
    rows = []
    for _ in range(rng.randrange(1, 5)):
        row = [fld() for _ in range(rng.randrange(1, 5))]
        if row == [""]:
            row = ["", ""]
        rows.append(row)
    return rows


def csv_cases(rng, quick):
    cases = []
    for gname, (gexpr, pykw, forbid, eol) in CSV_GRAMMARS.items():
        for cls in FIELD_CLASSES:
            if gname == "tsv" and cls in ("newlines",):
                continue
            for _ in range(6 if quick else 120):
                rows = gen_rows(rng, cls, forbid + ("\"" if gname == "tsv" else ""))
                buf = io.StringIO(newline="")
                try:
                    # CR LF terminator: Python then quotes fields containing CR or LF; LF only when no field has a CR.
                    # escape-char grammar: chibi understands the escape character inside quoted fields only -> quote all
                    has_cr = any("\r" in f for r in rows for f in r)
                    wkw = dict(pykw)
                    if gname == "escape-char":
                        wkw["quoting"] = csv.QUOTE_ALL
                    csv.writer(buf, lineterminator="\r\n" if has_cr or gname == "crlf" or rng.random() < 0.5 else "\n", **wkw).writerows(rows)
                    pytext = buf.getvalue()
                except csv.Error:
                    pytext = None
                rexpr = "(list %s)" % " ".join("(list %s)" % " ".join(text_lit(f) for f in r) for r in rows)
                form = ("(let* ((g %s) (rows %s) (t (%%t (csv-unparse g rows)))) (list (obe t) (if (string? t) (%%t (ob (csv-parse g t))) 'skipped) %s))"
                        % (gexpr, rexpr, "(%%t (ob (csv-parse g %s)))" % text_lit(pytext) if pytext is not None else "'skipped"))
                cases.append(Case(form, ("csv", gname, cls), _judge_csv(form, rows, gname, cls, pykw, eol, pytext is not None)))
    return cases


def _rows_obs(x):
    if not (isinstance(x, list) and x[:1] == [Sym("l")]) and x != []:
        return None
    rows = []
    for r in (x[1:] if x else []):
        if r == []:
            rows.append([])
            continue
        if not (isinstance(r, list) and r[:1] == [Sym("l")]):
            return None
        row = []
        for f in r[1:]:
            t = as_text(f)
            if t is None:
                return None
            row.append(t[0])
        rows.append(row)
    return rows


def _judge_csv(form, rows, gname, cls, pykw, eol, have_py):
    def judge(o):
        if not (isinstance(o, list) and len(o) == 3):
            return [_v("csv", "csv", "unparsable-observation", cls, form, rows, o, grammar=gname)]
        t, back, frompy = o
        out = []
        tt = as_text(t)
        if is_err(t) or tt is None or tt[0] is None:
            out.append(_v("csv", "write", "error" if is_err(t) else "not-text", cls, form, rows, t, grammar=gname))
        else:
            text = tt[0]
            try:
                got = list(csv.reader(io.StringIO(text, newline=""), strict=True, **pykw))
            except csv.Error as ex:
                got = "csv.Error: %s" % ex
            if got != rows:
                out.append(_v("csv", "write", "python-reads-other-rows", cls, form, rows, got, grammar=gname))
            elif eol == "\r\n" and text.count("\r\n") < len(rows):
                out.append(_v("csv", "write", "record-separator-option-ignored", cls, form, "records end in CR LF", text[:120], grammar=gname))
            rb = None if is_err(back) else _rows_obs(back)
            if rb != rows:
                out.append(_v("csv", "roundtrip", "error" if is_err(back) else "wrong-output", cls, form, rows, back, grammar=gname))
        if have_py:
            rp = None if is_err(frompy) else _rows_obs(frompy)
            if rp != rows:
                out.append(_v("csv", "read", "error" if is_err(frompy) else "wrong-output", cls, form, rows, frompy, grammar=gname, input="python-csv-writer"))
        return out
    return judge


# ---------------------------------------------------------------------------------------------
# UTF-8 / UTF-16 / UTF-32 <-> string
# ---------------------------------------------------------------------------------------------
def utf_cases(rng, quick):
    cases = []
    for cls in TEXT_CLASSES:
        for _ in range(10 if quick else 200):
            s = gen_text(rng, cls, rng.choice([1, 3, 10, 40]))
            n = len(s)
            a = rng.randrange(0, n + 1)
            b = rng.randrange(a, n + 1)
            enc = s.encode("utf-8", "surrogatepass")
            ba, bb = len(s[:a].encode("utf-8")), len(s[:b].encode("utf-8"))
            form = ("(let ((s %s) (bv %s)) (list (%%t (ob (string->utf8 s))) (%%t (ob (utf8->string bv))) (%%t (ob (string->utf8 s %d %d))) (%%t (ob (utf8->string bv %d %d)))"
                    " (%%t (cons 'l (map char->integer (string->list (utf8->string bv)))))))" % (text_lit(s), bvlit(enc), a, b, ba, bb))
            cases.append(Case(form, ("utf8", cls), _judge_utf8(form, s, a, b, cls)))
            be16, le16 = s.encode("utf-16-be"), s.encode("utf-16-le")
            be32, le32 = s.encode("utf-32-be"), s.encode("utf-32-le")
            form = ("(let ((s %s)) (list (%%t (ob (string->utf16 s))) (%%t (ob (string->utf16 s 'little))) (%%t (ob (utf16->string %s))) (%%t (ob (utf16->string %s 'little)))"
                    " (%%t (ob (utf16->string %s))) (%%t (ob (utf16->string %s)))"
                    " (%%t (ob (string->utf32 s))) (%%t (ob (string->utf32 s 'little))) (%%t (ob (utf32->string %s))) (%%t (ob (utf32->string %s 'little)))"
                    " (%%t (ob (utf32->string %s)))))"
                    % (text_lit(s), bvlit(be16), bvlit(le16), bvlit(b"\xfe\xff" + be16), bvlit(b"\xff\xfe" + le16),
                       bvlit(be32), bvlit(le32), bvlit(b"\xff\xfe\x00\x00" + le32)))
            cases.append(Case(form, ("utf16/32", cls), _judge_utf16(form, s, cls, be16, le16, be32, le32)))
    return cases


def _judge_utf8(form, s, a, b, cls):
    def judge(o):
        if not (isinstance(o, list) and len(o) == 5):
            return [_v("utf8", "utf8", "unparsable-observation", cls, form, s, o)]
        out = []
        enc = s.encode("utf-8")
        for api, x, want in (("string->utf8", o[0], enc), ("string->utf8/range", o[2], s[a:b].encode("utf-8"))):
            if is_err(x) or as_bytes(x) != want:
                out.append(_v("utf8", api, "error" if is_err(x) else "wrong-output", cls, form, want.hex(), x))
        for api, x, want in (("utf8->string", o[1], s), ("utf8->string/range", o[3], s[a:b])):
            t = as_text(x)
            if is_err(x) or t is None or t[0] != want:
                out.append(_v("utf8", api, "error" if is_err(x) else "wrong-output", cls, form, want, x))
        cps = o[4]
        if is_err(cps) or not (isinstance(cps, list) and cps[1:] == [ord(c) for c in s]):
            out.append(_v("utf8", "utf8->string/code-points", "error" if is_err(cps) else "wrong-output", cls, form, [ord(c) for c in s], cps))
        return out
    return judge


def _judge_utf16(form, s, cls, be16, le16, be32, le32):
    def judge(o):
        if not (isinstance(o, list) and len(o) == 11):
            return [_v("utf16/32", "utf16/32", "unparsable-observation", cls, form, s, o)]
        out = []
        for api, x, want in (("string->utf16", o[0], be16), ("string->utf16/little", o[1], le16), ("string->utf32", o[6], be32), ("string->utf32/little", o[7], le32)):
            if is_err(x) or as_bytes(x) != want:
                out.append(_v(api.split("/")[0][8:], api, "error" if is_err(x) else "wrong-output", cls, form, want.hex(), x))
        for api, x in (("utf16->string", o[2]), ("utf16->string/little", o[3]), ("utf16->string/bom-be", o[4]), ("utf16->string/bom-le", o[5]),
                       ("utf32->string", o[8]), ("utf32->string/little", o[9]), ("utf32->string/bom-le", o[10])):
            t = as_text(x)
            if is_err(x) or t is None or t[0] != s:
                out.append(_v(api[:5], api, "error" if is_err(x) else "wrong-output", cls, form, s, x))
        return out
    return judge


# ---------------------------------------------------------------------------------------------
# hostile input (totality)
# ---------------------------------------------------------------------------------------------
def mutate(rng, b):
    b = bytearray(b)
    for _ in range(rng.randrange(1, 4)):
        k = rng.random()
        if k < 0.2 and b:
            del b[rng.randrange(len(b)):]                                   # truncate
        elif k < 0.45 and b:
            b[rng.randrange(len(b))] = rng.getrandbits(8)                    # flip
        elif k < 0.65:
            i = rng.randrange(len(b) + 1)
            b[i:i] = bytes(rng.getrandbits(8) for _ in range(rng.randrange(1, 4)))   # insert
        elif k < 0.8 and b:
            i = rng.randrange(len(b))
            del b[i:i + rng.randrange(1, 4)]                                 # delete
        elif b:
            i = rng.randrange(len(b))
            j = rng.randrange(i, min(len(b), i + 20) + 1)
            b[i:i] = b[i:j] * rng.randrange(1, 4)                             # duplicate a chunk
    return bytes(b[:4096])


def ascii_only(b):
    return bytes(c & 0x7F for c in b)


SUMMARY = ("(lambda (r) (cond ((bytevector? r) (list 'bv (bytevector-length r))) ((string? r) (list 'str (string-length r)))"
           " ((pair? r) 'pair) ((vector? r) 'vector) ((number? r) 'number) ((null? r) 'null) ((symbol? r) 'symbol) ((boolean? r) 'boolean) ((eof-object? r) 'eof) (else 'other)))")


def hostile_cases(rng, n):
    decoders = [
        ("base64", "decode-bytevector", "bytes", "(base64-decode-bytevector %s)"),
        ("base64", "decode-string", "ascii", "(base64-decode-string %s)"),
        ("base64", "decode-port", "bytes", "(b64-dec-port %s)"),
        ("qp", "decode-bytevector", "bytes", "(quoted-printable-decode-bytevector %s)"),
        ("qp", "decode-string", "ascii", "(quoted-printable-decode-string %s)"),
        ("uri", "decode", "ascii", "(uri-decode %s)"),
        ("uri", "decode+plus", "text", "(uri-decode %s #t)"),
        ("uri", "query->alist", "ascii", "(uri-query->alist %s #t)"),
        ("uri", "string->uri", "ascii", "(let ((u (string->uri %s))) (if u (uri->string u) u))"),
        ("json", "string->json", "text", "(string->json %s)"),
        ("json", "json-read/bytes", "bytes", "(json-read (open-input-bytevector %s))"),
        ("json", "read-then-write", "text", "(json->string (string->json %s))"),
        ("csv", "parse", "text", "(csv-parse default-csv-grammar %s)"),
        ("csv", "parse-tsv", "text", "(csv-parse default-tsv-grammar %s)"),
        ("utf8", "utf8->string", "bytes", "(let ((s (utf8->string %s))) (list (string-length s) (bytevector-length (string->utf8 s)) (apply + (map char->integer (string->list s)))))"),
        ("utf16", "utf16->string", "bytes", "(let ((s (utf16->string %s))) (list (string-length s) (bytevector-length (string->utf8 s))))"),
        ("utf32", "utf32->string", "bytes", "(let ((s (utf32->string %s))) (string-length s))"),
        ("chibi-bytevector", "hex-string->bytevector", "ascii", "(cb:hex-string->bytevector %s)"),
        ("chibi-bytevector", "ber-ref", "bytes", "(cb:bytevector-ber-ref %s)"),
    ]
    seeds = {}

    def seed_for(codec):
        d = gen_bytes(rng, rng.choice([0, 1, 2, 3, 5, 10, 30, 100, 400, 3000]))
        t = gen_text(rng, rng.choice(list(TEXT_CLASSES)), 20)
        if codec == "base64":
            return base64.b64encode(d)
        if codec == "qp":
            return quopri.encodestring(d)
        if codec == "uri":
            return rng.choice([urllib.parse.quote(t), "http://u:p@host:80/p/%41?a=1&b=%zz;c#f", "a=%31&b=+%2", "%", "%4", "%%%"]).encode()
        if codec == "json":
            v = J.gen_value(rng, rng.choice([1, 3, 6]), True)
            return json.dumps(v, ensure_ascii=rng.random() < 0.5).encode("utf-8", "surrogatepass")
        if codec == "csv":
            return "a,b\r\n\"c\"\"d\",\"e\nf\"\n,\n".encode() + t.encode()
        if codec in ("utf16", "utf32"):
            return t.encode("utf-16" if codec == "utf16" else "utf-32") + d[:7]
        if codec == "utf8":
            return t.encode("utf-8") + d[:9]
        return d

    cases = []
    for i in range(n):
        codec, api, kind, tmpl = decoders[i % len(decoders)]
        raw = seed_for(codec)
        how = rng.random()
        if how < 0.15:
            data, hk = raw, "valid"
        elif how < 0.8:
            data, hk = mutate(rng, raw), "mutated"
        else:
            data, hk = gen_bytes(rng, rng.choice([1, 2, 3, 7, 16, 64, 300, 4096])), "random"
        if codec == "json" and rng.random() < 0.15:
            data, hk = rng.choice([b"[" * 3000, b'{"a":' * 1500, b'"' + b"\\u" * 700, b'"\\ud800\\u', b'"' + b"x" * 127 + b"\\", b'"' + b"\xf0" * 130,
                                   b"[1e999999999]", b"-", b"[1,", b'{"a"', b'"\\u12', b"nul", b"\xff\xfe", b"[" + b"1," * 2000 + b"1]"]), "crafted"
        if kind == "ascii":
            arg = text_lit(ascii_only(data).decode("ascii"))
        elif kind == "text":
            arg = text_lit(data.decode("utf-8", "replace"))
        else:
            arg = bvlit(data)
        form = "(%%t (%s %s))" % (SUMMARY, tmpl % arg)
        cases.append(Case(form, ("hostile", codec, api, hk), _judge_hostile(form, codec, api), info={"hostile": True, "codec": codec, "api": api}))
    return cases


def _judge_hostile(form, codec, api):
    def judge(o):
        return []          # any value and any Scheme error is fine; crashes / timeouts are decided by the runner status
    return judge


# ---------------------------------------------------------------------------------------------
def run_cases(rep, build, variant, cases, batch, timeout, stats, state):
    for i, c in enumerate(cases):
        c.id = "%s%d" % (variant[0], i)
    pairs = [(c.id, "(%%case %s %s)" % (c.id, c.form)) for c in cases if not c.own_process]
    own = [(c.id, "(%%case %s %s)" % (c.id, c.form)) for c in cases if c.own_process]
    env = {"CHIBI_VERIF_HEAPCHECK": 1}
    res, procs = C.run_batches(build, IMPORTS, HEADER, pairs, batch=batch, env_extra=env, timeout=timeout, heap="64M/768M", prelude=PRELUDE)
    if own:
        r2, p2 = C.run_batches(build, IMPORTS, HEADER, own, batch=1, env_extra=env, timeout=timeout, heap="64M/768M", prelude=PRELUDE)
        res.update(r2)
        procs += p2
    json_fail = state.setdefault("json_fail", {})      # (class, mode) of atomic JSON failures, kept across chunks
    pending = []
    for c in cases:
        r = res.get(c.id)
        hostile = bool(c.info and c.info.get("hostile"))
        rep.case((variant,) + tuple(c.sig) if variant != "hooks" else tuple(c.sig))
        key = "%s:%s" % (variant, c.sig[0] if not hostile else "hostile")
        stats[key] = stats.get(key, 0) + 1
        if r is None or r.status == "missing":
            rep.inconc("no-output", c.form[:200])
            continue
        if r.status == "timeout":
            rep.inconc("timeout", {"variant": variant, "form": c.form[:300]})
            stats["hostile-timeout"] = stats.get("hostile-timeout", 0) + (1 if hostile else 0)
            continue
        if r.status == "crash":
            san = (r.detail or {}).get("sanitizer")
            frame = "?"
            if san:
                frs = [f for f in san["frames"] if not f.startswith("__") and f not in ("memcpy", "memmove", "memset")]
                frame = frs[0] if frs else "?"
                sig = {"kind": "asan", "codec": c.sig[1] if hostile else c.sig[0], "frame": frame, "error": san["kind"].split(" on ")[0][:60]}
            else:
                sig = {"kind": "crash", "codec": c.sig[1] if hostile else c.sig[0], "how": (r.detail or {}).get("how"), "variant": variant}
            if c.info and c.info.get("oob"):
                sig["op"] = c.info["op"]
                sig["class"] = c.info["cls"]
            rep.violation(sig, {"variant": variant, "form": c.form[:40000], "detail": r.detail})
            continue
        try:
            data = r.data()
        except Exception:
            data = None
        if not data or len(data) != 1:
            if hostile:
                # a value whose printed form is not a datum: still a value
                stats["hostile-value"] = stats.get("hostile-value", 0) + 1
                continue
            rep.violation({"codec": c.sig[0], "mode": "unparsable-output"}, {"form": c.form[:600], "got": r.text[:400]})
            continue
        o = data[0]
        if hostile:
            k = "hostile-error" if is_err(o) else "hostile-value"
            stats[k] = stats.get(k, 0) + 1
            continue
        vs = c.judge(o)
        for sig, wit in vs:
            wit["variant"] = variant
            if sig.get("codec") == "json" and c.sig[2] != "composite":
                json_fail.setdefault(sig["dir"], set()).add((sig["class"].split(":")[0], sig["mode"]))
            if sig.get("codec") == "json" and sig.get("class") == "composite":
                pending.append((c, sig, wit))
            else:
                rep.violation(sig, wit)
    # a composite JSON failure is attributed to the leaf classes that fail on their own, in the same way, in this
    # run (so that it matches the finding of the root cause); anything else is a failure of the structure itself
    for c, sig, wit in pending:
        dirs = [sig["dir"]] + (["read"] if sig["dir"] == "roundtrip" else [])
        bad = set()
        for d in dirs:
            bad |= json_fail.get(d, set())
        leafs = [l for l in c.info["leafs"] if (l, sig["mode"]) in bad]
        if leafs:
            for l in leafs:
                rep.violation(dict(sig, **{"class": l, "via": "composite"}), wit)
        else:
            rep.violation(dict(sig, **{"class": "composite-structure"}), wit)
    for p in procs:
        for l in p.log_lines("HEAPCHECK-FAIL"):
            rep.violation({"op": "heapcheck", "mode": l.split()[1] if len(l.split()) > 1 else "?"}, {"line": l, "variant": variant})
        for d in p.log_kv("HEAPCHECK-SUMMARY"):
            rep.count("heap_checks", d.get("runs", 0))
            rep.count("heap_objects_checked", d.get("objects", 0))
    ghost = res.get("__ghost__")
    if ghost is not None:
        rep.violation({"kind": "ghost-output"}, {"trailing": ghost.text})
    return len(procs)


def check(rep, tier, seed):
    rng = random.Random(seed * 7919 + 19)
    quick = tier == "quick"
    b = B.ensure("hooks")
    rep.builds.add("hooks")
    stats = {}
    state = {}
    cases = []
    cases += b64_cases(rng, quick)
    cases += qp_cases(rng, quick)
    cases += uri_cases(rng, quick)
    cases += J.make_cases(rng, 1500)
    cases += csv_cases(rng, quick)
    cases += utf_cases(rng, quick)
    cases += ACC.mkcases(rng, quick)
    n_round = len(cases)
    host = hostile_cases(rng, 12000)
    timeout = 90 if quick else 240
    nproc = run_cases(rep, b, "hooks", cases + host, 400, timeout, stats, state)
    n_host = len(host)
    samples = cases[:3] + host[:3]
    if not quick:
        # the thorough tier adds chunks (bounded memory): composite JSON values, accessor sweeps with other
        # random data, hostile inputs
        for k in range(20):
            crng = random.Random(seed * 7919 + 100 + k)
            more = J.composite_cases(crng, 5000)
            more += [c for c in ACC.mkcases(crng, quick) if not (c.info and c.info.get("oob"))]
            more += [c for c in b64_cases(crng, True) + qp_cases(crng, True) + csv_cases(crng, True) + uri_cases(crng, True) + utf_cases(crng, True)]
            h = hostile_cases(crng, 50000)
            n_round += len(more)
            n_host += len(h)
            nproc += run_cases(rep, b, "hooks", more + h, 500, timeout, stats, state)
    # the same kind of hostile inputs and the accessor sweep under ASan with red zones
    ba = B.ensure("asan-rz")
    rep.builds.add("asan-rz")
    n_ahost = 0
    for k in range(1 if quick else 6):
        arng = random.Random(seed * 7919 + 1919 + k)
        ahost = hostile_cases(arng, 3000 if quick else 25000)
        n_ahost += len(ahost)
        aacc = ACC.mkcases(arng, quick)
        # one out-of-range access per accessor and class is enough under ASan (each one ends its process)
        seen = set()
        keep = []
        for c in aacc:
            if c.info and c.info.get("oob"):
                key = (c.info["op"].replace("-native", ""), c.info["cls"])
                if k > 0 or c.info["cls"] in ("at-length", "past-end") or key in seen:
                    continue
                seen.add(key)
                c.own_process = True
            keep.append(c)
        nproc += run_cases(rep, ba, "asan-rz", ahost + keep, 400, 120 if quick else 300, stats, state)
    for c in samples:
        rep.sample({"signature": list(c.sig), "form": c.form[:300]})
    rep.extra["cases_by_codec"] = stats
    rep.extra["round_trip_cases"] = n_round
    rep.extra["hostile_inputs_hooks"] = n_host
    rep.extra["hostile_inputs_asan"] = n_ahost
    rep.extra["processes"] = nproc
    rep.rule = ("per codec (base64 incl. string/port/header variants, quoted-printable, URI escaping and query strings, JSON, CSV with 6 grammars, "
                "UTF-8/16/32, numeric accessors of (scheme bytevector), (chibi bytevector), (srfi 160)): byte strings of every length 0-100 and "
                "sampled to 4096 incl. chunk and line-wrap boundaries, texts by character class (unreserved, punctuation, control, Latin-1, BMP, "
                "astral), JSON atoms by class (every escape, control characters, surrogate pairs, integers around 2^53 / fixnum / 2^64, doubles "
                "short / exponent / 17-digit, literals) in three positions plus composite values to depth 8, accessor sweeps over type x "
                "endianness x every offset x boundary values and every out-of-range offset class; each case observes chibi-encode (checked by "
                "the Python decoder and the format grammar), chibi round trip and chibi-decode of Python-encoded data; hostile inputs are "
                "valid encodings mutated by truncate/flip/insert/delete/duplicate, random bytes and crafted JSON; distinct = (codec, api, input "
                "class ...) tuple of the generator, (build variant added for the ASan runs)")
    rep.assumptions = ["Python's base64, quopri, urllib.parse, json, csv, struct, email.header and str.encode are correct",
                       "quopri is used for the Python->chibi direction only on data it round-trips itself (it normalises CR LF)",
                       "numbers in JSON are compared numerically and exactly (an integer read back as an equal flonum is accepted)",
                       "mini-float conversions of non-representable values only have to land on a neighbouring representable value",
                       "for hostile input any value and any Scheme error is accepted; only crashes, sanitizer reports and watchdog expiry count",
                       "out-of-range accessor offsets are probed inside the allocation slack of a 17-byte bytevector on the non-ASan build"]


def replay(path):
    """Re-run the witness forms of a replay file on the build variant they were observed on; prints the raw observation."""
    with open(path) as fh:
        data = json.load(fh)
    print("signature:", json.dumps(data.get("signature")))
    for w in data.get("witnesses", []):
        form = w.get("form")
        if not form or form.endswith("..."):
            print("  (witness form was truncated; see the replay file)")
            continue
        b = B.ensure(w.get("variant", "hooks"))
        res, procs = C.run_file(b, IMPORTS, HEADER, [("w", "(%%case w %s)" % form)], prelude=PRELUDE, heap="64M/768M")
        r = res.get("w")
        print("  form:    ", form[:400])
        print("  expected:", w.get("expected"))
        print("  observed:", (r.status, r.text.strip()[:600]) if r else None)
        if r is not None and r.detail and r.detail.get("sanitizer"):
            print("  sanitizer:", r.detail["sanitizer"])
    return 0
