"""C05 -- tail calls run in constant space; deep recursion ends cleanly (DESIGN.md section 3, C05).

Constant space is decided on a logical quantity: the VM's evaluation-stack depth, read by the foreign
procedure (stack-top) of /verif/native/probe.c (the VM publishes `top` before every foreign call).

Part A  tail loops.  A loop procedure calls (note i) and then reaches its recursive call through a
        composition of R7RS 3.5 tail contexts; (note i) records (stack-top) at iterations 10, 10^3, 10^5
        (thorough: up to 10^7 for a sample).  All samples of one loop must be EQUAL and the loop must
        finish.  Every single context x every call variant (direct, apply, closure in a vector, rest
        callee, case-lambda callee, optional-argument callee, named let, mutual recursion of 2 and 3
        procedures), every ordered pair of contexts (quick) / triple (thorough).
Part B  controls.  The same loops with the recursive call in a NON-tail position must show a growing
        stack, otherwise the probe is blind (harness failure, exit 2).
Part C  deep non-tail recursion of several shapes returns the right value for depths 10 .. 90 % of what
        fits below SEXP_MAX_STACK_SIZE (slots per frame are measured with the probe, not assumed).
Part D  beyond the maximum, from the command line: the process ends with the out-of-stack message and
        a non-zero exit code, not a signal.
Part E  beyond the maximum, embedded (native/deeprec.c: sexp_eval_string with no Scheme handler -- chibi
        returns out-of-stack to the embedding caller, it does not deliver it to Scheme handlers): the result
        is the context's out-of-stack exception object, and the same context then evaluates probe
        programs and further deep recursions correctly; also inside a green thread.
Part F  beyond the maximum inside a green thread of a running program: thread-join! raises the error
        object, the program continues and computes correctly.
"""
import itertools
import os
import random
import re

from .. import build as B
from .. import cases as C
from .. import run as R
from ..sexpr import Sym

IMPORTS = ("(import (scheme base) (scheme write) (scheme load) (scheme case-lambda) (scheme process-context) "
           "(srfi 18))")

# name -> template; {T} is the hole (in tail position), {d} a level number that keeps local names apart.
# i and n are the loop variable and the bound; every template steers control into {T} while i < n.
CONTEXTS = {
    "if-then": "(if (< i n) {T} 0)",
    "if-else": "(if (>= i n) 0 {T})",
    "if-one-armed": "(if (< i n) {T})",
    "cond-clause": "(cond ((>= i n) 0) ((< i n) {T}) (else 1))",
    "cond-else": "(cond ((>= i n) 0) (else {T}))",
    "cond-arrow": "(cond ((and (< i n) i) => (lambda (x{d}) {T})) (else 0))",
    "case-clause": "(case (if (< i n) 1 2) ((2) 0) ((1 3) {T}) (else 0))",
    "case-else": "(case (if (< i n) 1 2) ((2) 0) (else {T}))",
    "and-last": "(and (< i n) #t {T})",
    "or-last": "(or (>= i n) #f {T})",
    "when": "(when (< i n) 0 {T})",
    "unless": "(unless (>= i n) 0 {T})",
    "let": "(let ((x{d} i)) {T})",
    "let*": "(let* ((x{d} i) (y{d} x{d})) {T})",
    "letrec": "(letrec ((g{d} (lambda () i))) {T})",
    "letrec*": "(letrec* ((g{d} (lambda () i)) (h{d} (lambda () (g{d})))) {T})",
    "named-let-body": "(let lp{d} ((j{d} 0)) (if (< j{d} 1) (lp{d} (+ j{d} 1)) {T}))",
    "let-values": "(let-values (((a{d} b{d}) (values i n))) {T})",
    "let*-values": "(let*-values (((a{d}) (values i)) ((b{d}) (values a{d}))) {T})",
    "begin": "(begin 0 {T})",
    "body-with-define": "(let () (define z{d} i) {T})",
    "do-result": "(do ((j{d} 0 (+ j{d} 1))) ((= j{d} 1) 0 {T}))",
    "lambda-body": "((lambda (x{d}) {T}) i)",
    "apply-lambda": "(apply (lambda (x{d}) {T}) (list i))",
    "call-with-values-consumer": "(call-with-values (lambda () (values i n)) (lambda (a{d} b{d}) {T}))",
    "callcc-receiver": "(call/cc (lambda (k{d}) {T}))",
}
# every iteration through call/cc copies the whole stack: when the receiver is not called by a tail call the
# loop is quadratic, so these loops are sampled at 10 / 100 / 1000 only
SMALL_N = {"callcc-receiver"}

CONTROLS = {
    "operand": "(car (list {T}))",
    "let-init": "(let ((r {T})) (if r r r))",
    "begin-non-last": "(begin {T} 0)",
    "if-test": "(if {T} 0 0)",
    "and-non-last": "(and {T} 0)",
}

VARIANTS = ["direct", "apply", "apply-list", "vector-closure", "rest-callee", "rest-callee-extra", "case-lambda-callee",
            "optional-callee", "named-let", "mutual2", "mutual3"]


def nest(path, hole):
    t = hole
    for d, name in reversed(list(enumerate(path, 1))):
        t = CONTEXTS[name].replace("{d}", str(d)).replace("{T}", t)
    return t


def points_for(path, big):
    if any(p in SMALL_N for p in path):
        return (10, 100, 1000)
    return big


def loop_program(path, variant, points, control=None, skel="else"):
    """-> Scheme expression (a let () body) evaluating to (result (samples...)).
    skel: which arm of the loop's own exit test holds the contexts ("else": (if (>= i n) 'done <ctx>),
    "then": (if (< i n) <ctx> 'done)) -- so that a defect of one arm is not shared by every program"""
    n = points[-1] + 1
    return _skel(_loop_program(path, variant, points, control, n), skel)


def _skel(text, skel):
    if skel == "else":
        return text
    # rewrite the exit tests (if (>= i n) 'done X) -> (if (< i n) X 'done); X is balanced text up to the closing paren
    out = []
    pos = 0
    key = "(if (>= i n) 'done "
    while True:
        j = text.find(key, pos)
        if j < 0:
            out.append(text[pos:])
            break
        out.append(text[pos:j])
        k = j + len(key)
        depth = 0
        m = k
        while True:
            ch = text[m]
            if ch == "(":
                depth += 1
            elif ch == ")":
                if depth == 0:
                    break
                depth -= 1
            m += 1
        out.append("(if (< i n) " + text[k:m].strip() + " 'done)")
        pos = m + 1
    return "".join(out)


def _loop_program(path, variant, points, control, n):
    note = ("(define (note i) (if (or %s) (set! samples (cons (stack-top) samples))))"
            % " ".join("(= i %d)" % p for p in points))

    def body(call):
        t = nest(path, call)
        if control:
            t = CONTROLS[control].replace("{T}", t)
        return t
    if variant == "direct":
        defs = "(define (f0 i n) (note i) (if (>= i n) 'done %s))" % body("(f0 (+ i 1) n)")
        start = "(f0 0 %d)" % n
    elif variant == "apply":
        defs = "(define (f0 i n) (note i) (if (>= i n) 'done %s))" % body("(apply f0 (+ i 1) (list n))")
        start = "(f0 0 %d)" % n
    elif variant == "apply-list":
        defs = "(define (f0 i n) (note i) (if (>= i n) 'done %s))" % body("(apply f0 (list (+ i 1) n))")
        start = "(f0 0 %d)" % n
    elif variant == "vector-closure":
        defs = ("(define vec (vector #f #f)) (define (f0 i n) (note i) (if (>= i n) 'done %s)) (vector-set! vec 1 f0)"
                % body("((vector-ref vec 1) (+ i 1) n)"))
        start = "(f0 0 %d)" % n
    elif variant == "rest-callee":
        defs = ("(define (f0 i . r) (note i) (let ((n (car r))) (if (>= i n) 'done %s)))" % body("(f0 (+ i 1) n)"))
        start = "(f0 0 %d)" % n
    elif variant == "rest-callee-extra":
        defs = ("(define (f0 i . r) (note i) (let ((n (car r))) (if (>= i n) 'done %s)))" % body("(f0 (+ i 1) n 'x i)"))
        start = "(f0 0 %d)" % n
    elif variant == "case-lambda-callee":
        defs = ("(define f0 (case-lambda ((i) (f0 i %d)) ((i n) (note i) (if (>= i n) 'done %s)) ((i n . r) (f0 i n))))"
                % (n, body("(f0 (+ i 1) n)")))
        start = "(f0 0)"
    elif variant == "optional-callee":
        # every iteration goes through the short clause, which supplies the default by a tail call
        defs = ("(define f0 (case-lambda ((i) (f0 i %d)) ((i n) (note i) (if (>= i n) 'done %s))))"
                % (n, body("(f0 (+ i 1))")))
        start = "(f0 0)"
    elif variant == "named-let":
        defs = ""
        start = "(let ((n %d)) (let loop ((i 0)) (note i) (if (>= i n) 'done %s)))" % (n, body("(loop (+ i 1))"))
    elif variant == "do-loop":                   # iteration by `do` itself; has no hole for contexts
        defs = ""
        start = "(let ((n %d)) (do ((i 0 (+ i 1))) ((>= i n) 'done) (note i)))" % n
    elif variant == "mutual2":
        defs = ("(define (f0 i n) (note i) (if (>= i n) 'done %s)) (define (f1 i n) (note i) (if (>= i n) 'done %s))"
                % (body("(f1 (+ i 1) n)"), body("(f0 (+ i 1) n)")))
        start = "(f0 0 %d)" % n
    elif variant == "mutual3":
        defs = ("(define (f0 i n) (note i) (if (>= i n) 'done %s)) (define (f1 i n) (note i) (if (>= i n) 'done %s)) "
                "(define (f2 i n) (note i) (if (>= i n) 'done %s))"
                % (body("(f1 (+ i 1) n)"), body("(f2 (+ i 1) n)"), body("(f0 (+ i 1) n)")))
        start = "(f0 0 %d)" % n
    else:
        raise ValueError(variant)
    return ("(let () (define samples '()) %s %s (let ((r %s)) (list r (reverse samples))))" % (note, defs, start))


# ---- deep recursion shapes: (sh n b) recurses n deep in a non-tail position and calls (b) at the bottom
SHAPES = {
    "plus": "(define (sh-plus n b) (if (= n 0) (b) (+ 1 (sh-plus (- n 1) b))))",
    "let": "(define (sh-let n b) (if (= n 0) (b) (let ((r (sh-let (- n 1) b))) (+ r 1))))",
    "mutual": "(define (sh-mutual n b) (if (= n 0) (b) (+ 1 (sh-mutual* (- n 1) b)))) "
              "(define (sh-mutual* n b) (if (= n 0) (b) (+ 1 (sh-mutual (- n 1) b))))",
    "apply": "(define (sh-apply n b) (if (= n 0) (b) (+ 1 (apply sh-apply (list (- n 1) b)))))",
    "rest": "(define (sh-rest n . r) (if (= n 0) ((car r)) (+ 1 (sh-rest (- n 1) (car r) n))))",
    "wind": "(define (sh-wind n b) (if (= n 0) (b) (+ 1 (dynamic-wind (lambda () #f) (lambda () (sh-wind (- n 1) b)) (lambda () #f)))))",
    "param": "(define sh-p (make-parameter 0)) (define (sh-param n b) (if (= n 0) (b) (+ 1 (parameterize ((sh-p n)) (sh-param (- n 1) b)))))",
}
SLOW_SHAPES = {"wind": 20000, "param": 20000}      # cap on depth (deep wind lists are slow, not the subject here)
PROBE_DEF = ("(define (zero) 0) (define (probe) (let lp ((i 0) (acc 0)) (if (< i 1000) (lp (+ i 1) (+ acc i)) "
             "(list acc (sh-plus 500 zero) (string-length (make-string 10 #\\a)) (vector-ref (vector 1 2 3) 1)))))")
PROBE_EXPECT = "(499500 500 10 2)"


def header(probe_so):
    return ('(load "%s")\n' % probe_so) + "\n".join(SHAPES.values()) + "\n" + PROBE_DEF + "\n"


def _stderr_oos(detail):
    return bool(detail) and "out of stack" in (detail.get("stderr") or "")


def run_tail(rep, b, hdr, progs, env, known_culprits):
    """progs: list of dict(id, path, variant, points, control, form).  Returns dict id -> (prog, CaseResult or None)."""
    small = [p for p in progs if p["points"][-1] <= 100000]
    large = [p for p in progs if p["points"][-1] > 100000]       # 10^7 iterations: seconds each, own small files
    res, procs = C.run_batches(b, IMPORTS, hdr, [(p["id"], "(%%case %s %s)" % (p["id"], p["form"])) for p in small],
                               batch=25, env_extra=env, timeout=120, heap="64M/1G")
    if large:
        res2, procs2 = C.run_batches(b, IMPORTS, hdr, [(p["id"], "(%%case %s %s)" % (p["id"], p["form"])) for p in large],
                                     batch=2, env_extra=env, timeout=900, heap="64M/1G")
        res.update(res2)
        procs.extend(procs2)
    out = {}
    for p in progs:
        out[p["id"]] = (p, res.get(p["id"]))
    return out, procs


def judge_tail(rep, p, r, single_fail):
    """single_fail: set of single contexts that fail on their own (gives the `culprit` field)"""
    path = p["path"]
    culprits = sorted((set(path) | {"skeleton-" + p["skel"]}) & single_fail)
    sig = {"kind": "tail-loop", "ctx": ">".join(path) or "-", "call": p["variant"], "skel": p["skel"],
           "culprit": "+".join(culprits) if culprits else "composition"}
    wit = {"form": p["form"], "expected": "(done (s s s)) with equal stack-top samples at iterations %s" % (p["points"],)}
    if r is None or r.status == "missing":
        rep.inconc("no-output", p["id"])
        return None
    if r.status == "timeout":
        rep.inconc("timeout", {"ctx": path, "call": p["variant"]})      # wall clock never decides
        return None
    if r.status == "crash":
        wit["detail"] = r.detail
        rep.violation(dict(sig, mode="out-of-stack" if _stderr_oos(r.detail) else "crash"), wit)
        return False
    try:
        data = r.data()
    except Exception:
        data = None
    wit["got"] = r.text.strip()[:400]
    if not data or len(data) != 1:
        rep.violation(dict(sig, mode="unparsable-output"), wit)
        return False
    obs = data[0]
    if isinstance(obs, list) and len(obs) == 2 and obs[0] == Sym("err"):
        rep.violation(dict(sig, mode="error"), wit)
        return False
    if not (isinstance(obs, list) and len(obs) == 2 and isinstance(obs[1], list)):
        rep.violation(dict(sig, mode="unparsable-output"), wit)
        return False
    val, samples = obs
    if val != Sym("done") or len(samples) != len(p["points"]) or not all(isinstance(x, int) for x in samples):
        rep.violation(dict(sig, mode="wrong-result"), wit)
        return False
    if len(set(samples)) != 1:
        per = (samples[-1] - samples[0]) / float(p["points"][-1] - p["points"][0])
        wit["slots_per_iteration"] = per
        rep.violation(dict(sig, mode="stack-grows"), wit)
        return False
    return True


def tail_ok_quiet(r, npoints):
    """same decision as judge_tail without reporting (used to find the contexts that fail alone);
    a watchdog / missing output counts as "unknown" = not failing"""
    if r is None or r.status in ("timeout", "missing"):
        return True
    if r.status != "ok":
        return False
    try:
        obs = r.data()[0]
        return obs[0] == Sym("done") and len(obs[1]) == npoints and len(set(obs[1])) == 1
    except Exception:
        return False


def _heap_lines(rep, procs):
    for p in procs:
        for l in p.log_lines("HEAPCHECK-FAIL"):
            rep.violation({"kind": "heapcheck", "mode": l.split()[1] if len(l.split()) > 1 else "?"}, {"line": l})
        for d in p.log_kv("HEAPCHECK-SUMMARY"):
            rep.count("heap_checks", d.get("runs", 0))
            rep.count("heap_objects_checked", d.get("objects", 0))


def check(rep, tier, seed, variant="hooks"):
    rng = random.Random(seed * 7919 + 5)
    b = B.ensure(variant)
    rep.builds.add(variant)
    probe_so = b.native("probe")
    deeprec = b.native("deeprec")
    hdr = header(probe_so)
    env = {"CHIBI_VERIF_HEAPCHECK": 1}
    quick = tier == "quick"
    big = (10, 1000, 100000)
    names = list(CONTEXTS)

    # ------------------------------------------------------------------ parts A and B
    progs = []

    def add(path, var, points=None, control=None, tag="t", skel=None):
        pts = points or points_for(path, big)
        if control:
            pts = (10, 1000, 10000)
        pid = "%s%d" % (tag, len(progs))
        skel = skel or rng.choice(["then", "else"])
        progs.append({"id": pid, "path": tuple(path), "variant": var, "points": pts, "control": control, "skel": skel,
                      "form": loop_program(path, var, pts, control, skel)})
    for nme in names:                                   # every single context x every call variant
        for var in VARIANTS:
            if var == "direct":
                add([nme], var, skel="then")
                add([nme], var, skel="else")
            else:
                add([nme], var)
    add([], "do-loop", skel="else")
    for var in VARIANTS:                                 # the bare loops (no context): both skeletons
        add([], var, skel="then")
        add([], var, skel="else")
    for a, c in itertools.product(names, names):        # every ordered pair
        add([a, c], rng.choice(["direct", "direct", "mutual2", "apply", "rest-callee", "named-let"]))
    if not quick:
        triples = list(itertools.product(names, names, names))
        for t in triples:
            add(list(t), rng.choice(["direct", "direct", "mutual2", "mutual3", "vector-closure", "optional-callee"]))
        plain = [y for y in names if y not in SMALL_N]
        pool = [[x] for x in plain] + [list(x) for x in rng.sample(list(itertools.product(plain, repeat=2)), 40)]
        for pth in pool:
            add(pth, rng.choice(VARIANTS), points=(10, 1000, 100000, 10000000), tag="big")
    nctl = 0
    for cname in CONTROLS:
        for pth in ([], ["if-else"], ["let", "begin"]):
            add(pth, "direct", control=cname, tag="ctl")
            nctl += 1
    ntail = len(progs) - nctl
    results, procs = run_tail(rep, b, hdr, progs, env, None)
    single_fail = set()
    for pid, (p, r) in results.items():
        if p["control"] is None and p["variant"] == "direct" and not tail_ok_quiet(r, len(p["points"])):
            if len(p["path"]) == 0:
                single_fail.add("skeleton-" + p["skel"])
    for pid, (p, r) in results.items():
        if p["control"] is None and len(p["path"]) == 1 and p["variant"] == "direct" and not tail_ok_quiet(r, len(p["points"])):
            if "skeleton-" + p["skel"] not in single_fail:
                single_fail.add(p["path"][0])
    held = 0
    grow_seen = 0
    flat_seen = 0
    per_frame = []
    for p in progs:
        _, r = results[p["id"]]
        if p["control"] is None:
            rep.case(("tail", p["path"], p["variant"], p["skel"], p["points"][-1]))
            if judge_tail(rep, p, r, single_fail):
                held += 1
            continue
        # controls: growth must be visible; a control that dies is a failed non-tail recursion of depth 10^4
        rep.case(("control", p["control"], p["path"]))
        sig = {"kind": "deep-recursion", "shape": "control-" + p["control"], "depth": "<=1e5"}
        wit = {"form": p["form"], "expected": "a result and three increasing (stack-top) samples"}
        if r is None or r.status in ("missing", "timeout"):
            rep.inconc("control-no-output", p["id"])
            continue
        if r.status == "crash":
            wit["detail"] = r.detail
            rep.violation(dict(sig, mode="out-of-stack-below-maximum" if _stderr_oos(r.detail) else "crash"), wit)
            continue
        wit["got"] = r.text.strip()[:300]
        try:
            obs = r.data()[0]
            s3 = obs[1]
            if not (len(s3) == 3 and all(isinstance(x, int) for x in s3)):
                raise ValueError
        except Exception:
            rep.violation(dict(sig, mode="error"), wit)
            continue
        if s3[0] < s3[1] < s3[2]:
            grow_seen += 1
            per_frame.append((s3[2] - s3[1]) / float(p["points"][2] - p["points"][1]))
        else:
            flat_seen += 1
            rep.inconc("control-shows-no-growth", {"control": p["control"], "path": p["path"], "got": wit["got"]})
    if grow_seen == 0 and flat_seen > 0:
        raise B.HarnessError("C05: no non-tail control loop showed a growing (stack-top): the probe is blind")
    rep.extra["tail_loop_programs"] = ntail
    rep.extra["tail_loops_constant"] = held
    rep.extra["controls_growing"] = "%d of %d" % (grow_seen, nctl)
    rep.extra["control_slots_per_iteration"] = sorted(set(round(x, 2) for x in per_frame))
    rep.extra["contexts"] = len(names)
    rep.extra["call_variants"] = len(VARIANTS)
    rep.extra["max_iterations"] = max(p["points"][-1] for p in progs)
    rep.extra["single_contexts_failing_alone"] = sorted(single_fail)

    # ------------------------------------------------------------------ part C: measure, then recurse deeply
    meas = [("m-" + s, "(%%case m-%s (list (stack-max) (sh-%s 0 stack-top) (- (sh-%s 1000 stack-top) 1000)))" % (s, s, s))
            for s in SHAPES]
    mres, mp = C.run_file(b, IMPORTS, hdr, meas, env_extra=env, timeout=60, heap="64M/1G")
    procs.extend(mp)
    slots = {}
    smax = None
    for s in list(SHAPES):
        r = mres.get("m-" + s)
        if r is not None and r.status == "crash":
            # a 1000-deep recursion died: that is a refutation, not a measuring problem
            rep.case(("deep-value", s, "<=1e3"))
            rep.violation({"kind": "deep-recursion", "shape": s, "depth": "<=1e3",
                           "mode": "out-of-stack-below-maximum" if _stderr_oos(r.detail) else "crash"},
                          {"form": "(sh-%s 1000 stack-top)" % s, "define": SHAPES[s], "detail": r.detail})
            continue
        try:
            d = r.data()[0]
            smax = d[0]
            per = (d[2] - d[1]) / 1000.0
            if per <= 0:
                raise ValueError
            slots[s] = per
        except Exception:
            raise B.HarnessError("C05: cannot measure slots per frame for shape %s: %r" % (s, r.text if r else r))
    shapes_ok = [s for s in SHAPES if s in slots]
    if not shapes_ok:
        _heap_lines(rep, procs)
        return
    rep.extra["stack_max_slots"] = smax
    rep.extra["slots_per_frame"] = slots
    deep_cases = []
    plan = {}
    for s in shapes_ok:
        fit = int(smax / slots[s])                    # frames that fit below the maximum (ignoring the constant part)
        okd = int(fit * 0.9)
        over = int(fit * 1.1) + 1000
        cap = SLOW_SHAPES.get(s)
        depths = [d for d in (10, 100, 1000, 10000, 100000) if d < okd and (cap is None or d <= cap)]
        if cap is None:
            depths += [okd, rng.randrange(okd // 2, okd)]
        plan[s] = {"ok": depths, "over": None if cap else over}
        for d in depths:
            deep_cases.append(("d-%s-%d" % (s, d), s, d))
    dres, dp = C.run_batches(b, IMPORTS, hdr, [(cid, "(%%case %s (sh-%s %d zero))" % (cid, s, d)) for cid, s, d in deep_cases],
                             batch=6, env_extra=env, timeout=120, heap="64M/2G")
    procs.extend(dp)
    max_ok = 0
    for cid, s, d in deep_cases:
        r = dres.get(cid)
        cls = "<=1e3" if d <= 1000 else "<=1e5" if d <= 100000 else "near-max"
        rep.case(("deep-value", s, cls))
        sig = {"kind": "deep-recursion", "shape": s, "depth": cls}
        wit = {"form": "(sh-%s %d zero)" % (s, d), "define": SHAPES[s], "expected": d}
        if r is None or r.status == "missing":
            rep.inconc("no-output", cid)
        elif r.status == "timeout":
            rep.inconc("timeout", cid)
        elif r.status == "crash":
            wit["detail"] = r.detail
            rep.violation(dict(sig, mode="out-of-stack-below-maximum" if _stderr_oos(r.detail) else "crash"), wit)
        else:
            wit["got"] = r.text.strip()[:200]
            try:
                v = r.data()[0]
            except Exception:
                v = None
            if v == d and isinstance(v, int):
                max_ok = max(max_ok, d)
            else:
                rep.violation(dict(sig, mode="wrong-value"), wit)
    rep.extra["max_depth_returned_correctly"] = max_ok
    rep.extra["depth_plan"] = plan

    # ------------------------------------------------------------------ part D: command line, beyond the maximum
    def cli_one(item):
        s, d = item
        wd = R.scratch_dir("c05cli")
        path = os.path.join(wd, "oos.scm")
        with open(path, "w") as fh:
            fh.write(IMPORTS + "\n" + hdr + '(display "before ") (display (sh-%s 1000 zero)) (newline) (flush-output-port)\n'
                     '(display (sh-%s %d zero)) (newline)\n(display "after") (newline)\n' % (s, s, d))
        r = R.run(b, [path], env_extra=env, timeout=120, heap="64M/2G")
        return item, r
    cli_items = []
    for s in shapes_ok:
        if plan[s]["over"]:
            cli_items.append((s, plan[s]["over"]))
    if "plus" in plan:
        cli_items.append(("plus", 2000000))
        cli_items.append(("plus", 10000000))
    for (s, d), r in R.pmap(cli_one, cli_items):
        procs.append(r)
        rep.case(("oos-cli", s, "just-over" if d == plan[s]["over"] else "far-over"))
        sig = {"kind": "out-of-stack", "route": "command-line", "shape": s}
        wit = {"program": "(display (sh-%s %d zero))" % (s, d), "define": SHAPES[s], "how": r.describe(),
               "stdout": r.out[-300:], "stderr": r.err[-600:]}
        if r.timed_out:
            rep.inconc("timeout", wit)
        elif r.sig is not None:
            rep.violation(dict(sig, mode="signal"), wit)
        elif "before 1000" not in r.out:
            rep.violation(dict(sig, mode="no-output-before"), wit)
        elif "out of stack" not in r.err:
            rep.violation(dict(sig, mode="returned-a-value" if "after" in r.out else "no-out-of-stack-message"), wit)
        elif r.rc == 0 or "after" in r.out:
            rep.violation(dict(sig, mode="error-not-reported-by-exit-status"), wit)

    # ------------------------------------------------------------------ part E: embedded, same context afterwards
    def embed_items(rs):
        items = [("(import (scheme base) (srfi 18))", None)] + [("(begin %s)" % x, None) for x in SHAPES.values()] \
            + [("(begin %s)" % PROBE_DEF, None)]
        body = []
        shapes = [s for s in shapes_ok if plan[s]["over"]]
        if not shapes:
            return items
        for _ in range(4 if quick else 12):
            s = rs.choice(shapes)
            okd = rs.choice(plan[s]["ok"])
            body.append(("(sh-%s %d zero)" % (s, okd), ("value", str(okd), s, "ok")))
            over = rs.choice([plan[s]["over"], plan[s]["over"] * 2, 2000000])
            body.append(("(sh-%s %d zero)" % (s, over), ("oos", None, s, "over")))
            body.append(("(probe)", ("value", PROBE_EXPECT, s, "probe-after-oos")))
            if rs.random() < 0.5:
                body.append(("(let lp ((i 0)) (if (< i 300000) (lp (+ i 1)) i))", ("value", "300000", s, "tail-loop-after-oos")))
            if rs.random() < 0.5:
                body.append(("(sh-%s %d zero)" % (s, plan[s]["ok"][-2]), ("value", str(plan[s]["ok"][-2]), s, "regrow-after-oos")))
        s = rs.choice(shapes)
        body.append(("(thread-join! (thread-start! (make-thread (lambda () (sh-%s 1000 zero)))))" % s, ("value", "1000", s, "thread-ok")))
        body.append(("(thread-join! (thread-start! (make-thread (lambda () (sh-%s %d zero)))))" % (s, plan[s]["over"]),
                     ("oos", None, s, "thread-over")))
        body.append(("(probe)", ("value", PROBE_EXPECT, s, "probe-after-thread-oos")))
        body.append(("(thread-join! (thread-start! (make-thread (lambda () (probe)))))", ("value", PROBE_EXPECT, s, "thread-after-oos")))
        return items + body

    def embed_one(k):
        rs = random.Random(seed * 1000003 + k)
        items = embed_items(rs)
        wd = R.scratch_dir("c05emb")
        path = os.path.join(wd, "items.txt")
        with open(path, "w") as fh:
            for text, _ in items:
                fh.write(text.replace("\n", " ") + "\n")
        r = R.run(b, None, raw_cmd=[deeprec, path], env_extra=env, timeout=300)
        return items, r
    for items, r in R.pmap(embed_one, range(3 if quick else 10)):
        procs.append(r)
        got = {}
        for m in re.finditer(r"^R (\d+) (value|exception) (.*)$", r.out, re.M):
            got[int(m.group(1))] = (m.group(2), m.group(3))
        tops = {int(m.group(1)): int(m.group(2)) for m in re.finditer(r"^T (\d+) top=(-?\d+)", r.out, re.M)}
        for idx, (text, exp) in enumerate(items, 1):
            if exp is None:
                if idx in got and got[idx][0] == "exception":
                    raise B.HarnessError("C05 deeprec: set-up item failed: %s -> %s" % (text[:80], got[idx]))
                continue
            kind, val, s, what = exp
            rep.case(("embedded", what, s))
            sig = {"kind": "out-of-stack" if kind == "oos" else "after-out-of-stack", "route": "embedded", "shape": s, "step": what}
            wit = {"items": [t for t, _ in items[len(SHAPES) + 2:idx]], "expected": kind + (" " + val if val else ""),
                   "how": r.describe(), "stderr": r.err[-400:]}
            if idx not in got:
                if r.timed_out:
                    rep.inconc("timeout", text)
                else:
                    rep.violation(dict(sig, mode="signal" if r.sig is not None else "harness-died"), wit)
                break
            gk, gv = got[idx]
            wit["got"] = gk + " " + gv
            if kind == "oos":
                if gk != "exception":
                    rep.violation(dict(sig, mode="returned-a-value"), wit)
                elif not gv.startswith("oos=1"):
                    rep.violation(dict(sig, mode="other-exception"), wit)
            else:
                if gk != "value" or gv.strip() != val:
                    rep.violation(dict(sig, mode="wrong-result"), wit)
            if tops.get(idx) != tops.get(0):
                rep.violation(dict(sig, mode="stack-top-not-restored"), dict(wit, top_before=tops.get(0), top_after=tops.get(idx)))

    # ------------------------------------------------------------------ part F: green thread inside a program
    fcases = []
    for i, s in enumerate([s for s in shapes_ok if plan[s]["over"]]):
        over = plan[s]["over"]
        fcases.append(("f%d" % i, s,
                       "(%%case f%d (let* ((a (thread-join! (thread-start! (make-thread (lambda () (sh-%s 1000 zero)))))) "
                       "(b (call/cc (lambda (k) (with-exception-handler (lambda (e) (k (list 'raised (and (error-object? e) "
                       "(error-object-message e))))) (lambda () (thread-join! (thread-start! (make-thread (lambda () "
                       "(sh-%s %d zero)))))))))) (c (probe)) (d (sh-%s %d zero))) (list a b c d)))"
                       % (i, s, s, over, s, plan[s]["ok"][-2])))
    fres, fp = C.run_batches(b, IMPORTS, hdr, [(cid, form) for cid, s, form in fcases], batch=2, env_extra=env,
                             timeout=120, heap="64M/2G")
    procs.extend(fp)
    for cid, s, form in fcases:
        r = fres.get(cid)
        rep.case(("oos-thread", s))
        sig = {"kind": "out-of-stack", "route": "green-thread", "shape": s}
        wit = {"form": form, "expected": '(1000 (raised "out of stack space") %s %d)' % (PROBE_EXPECT, plan[s]["ok"][-2])}
        if r is None or r.status == "missing":
            rep.inconc("no-output", cid)
        elif r.status == "timeout":
            rep.inconc("timeout", cid)
        elif r.status == "crash":
            wit["detail"] = r.detail
            rep.violation(dict(sig, mode="process-ended"), wit)
        else:
            wit["got"] = r.text.strip()[:300]
            try:
                v = r.data()[0]
                ok = (v[0] == 1000 and isinstance(v[1], list) and v[1][0] == Sym("raised") and "out of stack" in str(v[1][1])
                      and v[2] == [499500, 500, 10, 2] and v[3] == plan[s]["ok"][-2])
            except Exception:
                ok = False
            if not ok:
                rep.violation(dict(sig, mode="wrong-result"), wit)

    # ------------------------------------------------------------------ heap invariants, samples
    _heap_lines(rep, procs)
    for p in progs[:2] + [q for q in progs if len(q["path"]) == 2][:3] + [q for q in progs if q["control"]][:2]:
        _, r = results[p["id"]]
        rep.sample({"contexts": p["path"], "call": p["variant"], "skeleton": p["skel"], "control": p["control"], "form": p["form"],
                    "observed": r.text.strip()[:200] if r is not None else None})
    rep.extra["processes"] = len(procs)
    rep.rule = ("tail loops: one case = one loop program = (composition of R7RS 3.5 tail contexts, call variant), "
                "(stack-top) sampled at iterations %s (non-trivial by construction: the loop runs 10^5 iterations "
                "through the context); distinct = (context path, call variant, last sample point); controls = the same "
                "loops with the call moved to a non-tail position; deep recursion: (shape, depth class) with depths up "
                "to 90 %% of the measured capacity; out-of-stack: (route in {command line, embedded C API, green "
                "thread}, shape, step)" % (big,))
    rep.assumptions = ["(stack-top) of native/probe.c returns the evaluation-stack depth the VM published before the foreign call",
                       "constant space is decided on that depth, not on time or memory",
                       "chibi hands out-of-stack to the embedding caller (it is not delivered to Scheme handlers); "
                       "in-language observation therefore uses the process exit, a C harness and thread-join!",
                       "bodies of parameterize / dynamic-wind / guard are not tail contexts in chibi and are not claimed"]


def replay(path):
    """./check C05 --replay FILE: re-run the witnesses of a replay file on the current tree; exit 1 if any still fails"""
    import json
    with open(path) as fh:
        d = json.load(fh)
    b = B.ensure("hooks")
    hdr = header(b.native("probe"))
    env = {"CHIBI_VERIF_HEAPCHECK": 1}
    sig = d.get("signature", {})
    bad = 0
    for i, w in enumerate(d.get("witnesses", [])):
        form = w.get("form")
        if sig.get("kind") == "tail-loop" and form:
            r1, _p = C.run_file(b, IMPORTS, hdr, [("rp", "(%%case rp %s)" % form)], env_extra=env, timeout=300, heap="64M/1G")
            r = r1.get("rp")
            ok = False
            try:
                obs = r.data()[0]
                ok = r.status == "ok" and obs[0] == Sym("done") and len(set(obs[1])) == 1
            except Exception:
                ok = False
            print("witness %d: %s: observed %s (%s)" % (i, "constant stack now" if ok else "STILL FAILS",
                                                         r.text.strip()[:200] if r is not None else None, r.status if r is not None else "-"))
        elif sig.get("kind") == "deep-recursion" and form and str(sig.get("shape", "")).startswith("control-"):
            r1, _p = C.run_file(b, IMPORTS, hdr, [("rp", "(%%case rp %s)" % form)], env_extra=env, timeout=300, heap="64M/1G")
            r = r1.get("rp")
            try:
                s3 = r.data()[0][1]
                ok = r.status == "ok" and s3[0] < s3[1] < s3[2]
            except Exception:
                ok = False
            print("witness %d: %s: observed %s" % (i, "runs now" if ok else "STILL FAILS", r.text.strip()[:200] if r is not None else None))
        elif sig.get("kind") == "deep-recursion" and form:
            r1, _p = C.run_file(b, IMPORTS, hdr, [("rp", "(%%case rp %s)" % form)], env_extra=env, timeout=300, heap="64M/2G")
            r = r1.get("rp")
            ok = r is not None and r.status == "ok" and r.text.strip() == str(w.get("expected"))
            print("witness %d: %s: observed %s" % (i, "right value now" if ok else "STILL FAILS", r.text.strip()[:200] if r is not None else None))
        else:
            print("witness %d: %s" % (i, json.dumps(w)[:1500]))
            print("  (out-of-stack witnesses are re-run by `./check C05 quick`; the witness lists the program / item sequence)")
            ok = False
        if not ok:
            bad += 1
    if bad:
        print("VIOLATION property=C05 replay=%s" % path)
    return 1 if bad else 0
