"""C14 -- library imports expose exactly the requested bindings and nothing else (DESIGN.md section 3, C14).

Oracle: set algebra in Python.  A generated *graph* is <= 6 libraries `(vg l1)` ... `(vg l5)`, `(vg cnt)` written as
.sld files into a scratch directory.  Every definition evaluates to a unique token (`l2:a`), so "denotes the
exporting library's own binding" is observable.  For every generated import-set group the embedding harness
native/envprobe.c builds `(environment '<set> ...)` once and then evaluates, as separate C-level evaluations with no
Scheme handler installed (DESIGN 2.4), `(eval 'n env)` and `(eval '(n) env)` for EVERY name n in the union of the names
in play; the model says for each name whether it is bound and what the two probes must yield.  The same groups are
also checked through a program file with a top-level `(import ...)` and through `-e "(import ...)"` of the real
command line.
"""
import os
import random
import re
import shutil

from .. import build as B
from .. import cases as C
from .. import run as R
from .. import sexpr
from ..sexpr import Sym

POOL = ["a", "b", "c", "d", "f", "g", "k", "x", "y", "z", "p-a", "p-b", "p-x", "q-a", "q-y"]
PREFIXES = ["p-", "q-"]
CALLABLE = ("proc", "mac", "mac-proc", "mac-mac", "mac-state", "mac-imp", "proc-call", "next")
MACROS = ("mac", "mac-proc", "mac-mac", "mac-state", "mac-imp")
PROCS = ("proc", "proc-call", "next")


class Def:
    """One definition of a library.  kind:
       var        (define n 'tok)
       state      (define n 0)                      private counter of the library, incremented by mac-state macros
       proc       (define (n . x) (cons 'tok x))    helper procedure
       mac        (define-syntax n (syntax-rules () ((_ x ...) (list 'tok x ...))))   helper macro
       mac-proc   macro whose template calls the helper procedure `aux` of the same library
       mac-mac    macro whose template uses the helper macro `aux` of the same library
       mac-state  macro whose template increments and reads the private state `aux`
       mac-imp    macro whose template reads the variable the library imported under the local name `aux`
       proc-call  procedure that calls / expands the callable the library imported under the local name `aux`
       next       the counter library's next!"""
    __slots__ = ("lib", "name", "kind", "tok", "aux", "auxbind")

    def __init__(self, lib, name, kind, aux=None, auxbind=None):
        self.lib, self.name, self.kind, self.aux, self.auxbind = lib, name, kind, aux, auxbind
        self.tok = "%s:%s" % (lib, name)


class Lib:
    def __init__(self, name):
        self.name = name
        self.imports = []        # import-set trees
        self.env = {}            # imported local name -> bind
        self.defs = []           # Def, in definition order
        self.exports = []        # (internal, external)
        self.export_map = {}     # external -> (bind, touched)
        self.style = {}


class Graph:
    def __init__(self):
        self.libs = {}           # name -> Lib
        self.order = []
        self.defs = {}           # (lib, name) -> Def
        self.names = set()


# ----------------------------------------------------------------------------------------------------------------
# import-set algebra (the model)

def apply_op(m, op, arg):
    """m: dict name -> (bind, touched).  Returns the new dict or None when the modifier is not valid here.
    `touched` = the identifier was renamed somewhere below (renaming export, rename, prefix, drop-prefix)."""
    if op == "only":
        if not arg or any(n not in m for n in arg) or len(set(arg)) != len(arg):
            return None
        return {n: m[n] for n in arg}
    if op == "except":
        if any(n not in m for n in arg) or len(set(arg)) != len(arg):
            return None
        return {n: v for n, v in m.items() if n not in arg}
    if op == "rename":
        d = dict(arg)
        if not arg or len(d) != len(arg) or any(a not in m for a in d):
            return None
        out = {}
        for n, (bind, t) in m.items():
            nn = d.get(n, n)
            if nn in out:
                return None                      # two identifiers under one name: not generated
            out[nn] = (bind, True if n in d else t)
        return out
    if op == "prefix":
        return {arg + n: (bind, True) for n, (bind, t) in m.items()}
    if op == "drop-prefix":
        if not m or any(not (n.startswith(arg) and len(n) > len(arg)) for n in m):
            return None                          # only the unambiguous inverse of `prefix` is generated
        return {n[len(arg):]: (bind, True) for n, (bind, t) in m.items()}
    raise ValueError(op)


def eval_set(g, t, collect=None, onlyinfo=None):
    if t[0] == "lib":
        m = dict(g.libs[t[1]].export_map)
    else:
        inner = eval_set(g, t[1], collect, onlyinfo)
        if onlyinfo is not None and t[0] == "only":
            for n in t[2]:
                if inner[n][1]:
                    onlyinfo.add(n)
        m = apply_op(inner, t[0], t[2])
        assert m is not None, t
    if collect is not None:
        collect.update(m)
    return m


def set_text(t):
    if t[0] == "lib":
        return "(vg %s)" % t[1]
    if t[0] in ("only", "except"):
        return "(%s %s%s)" % (t[0], set_text(t[1]), "".join(" " + n for n in t[2]))
    if t[0] == "rename":
        return "(rename %s%s)" % (set_text(t[1]), "".join(" (%s %s)" % p for p in t[2]))
    return "(%s %s %s)" % (t[0], set_text(t[1]), t[2])


def chain(t):
    return "lib" if t[0] == "lib" else "%s(%s)" % (t[0], chain(t[1]))


def ops_of(ts):
    """Coarse, seed-stable description of import sets for violation signatures: the modifier kinds used."""
    ks = set()
    for t in ts:
        while t[0] != "lib":
            ks.add(t[0])
            t = t[1]
    return "+".join(sorted(ks)) or "none"


def base_lib(t):
    return t[1] if t[0] == "lib" else base_lib(t[1])


def depth(t):
    return 0 if t[0] == "lib" else 1 + depth(t[1])


def merge(into, m):
    """Merge a set into a group; False when two different bindings would share a name."""
    for n, (bind, t) in m.items():
        if n in into and into[n][0] != bind:
            return False
    into.update(m)
    return True


def rename_targets(rng, m):
    c = list(POOL) + list(m)
    c += [p + n for p in PREFIXES for n in rng.sample(POOL, 3)]
    return c


def gen_set(rng, g, src, d, avoid_only_touched=False):
    t = ("lib", src)
    m = dict(g.libs[src].export_map)
    last = None
    for _ in range(d):
        for attempt in range(8):
            names = sorted(m)
            r = rng.random()
            op = arg = None
            if last == "prefix" and r < 0.25:
                op, arg = "drop-prefix", t[2]
            elif r < 0.25 and names:
                pre = [n for n in names if n.startswith("p-")]
                if pre and rng.random() < 0.3:
                    arg = pre
                else:
                    arg = rng.sample(names, rng.randint(1, len(names)))
                if avoid_only_touched and any(m[n][1] for n in arg):
                    arg = [n for n in arg if not m[n][1]]
                op = "only"
            elif r < 0.45 and names:
                op, arg = "except", rng.sample(names, rng.randint(1, len(names)))
                if rng.random() < 0.7 and len(arg) > 1:
                    arg = arg[:max(1, len(arg) // 2)]
            elif r < 0.70 and names:
                k = rng.randint(1, min(3, len(names)))
                froms = rng.sample(names, k)
                tg = rename_targets(rng, m)
                arg = [(a, rng.choice(tg)) for a in froms]
                arg = [(a, b_) for a, b_ in arg if a != b_]
                op = "rename"
            elif r < 0.88:
                op, arg = "prefix", rng.choice(PREFIXES)
            else:
                for p in PREFIXES:
                    if names and all(n.startswith(p) and len(n) > len(p) for n in names):
                        op, arg = "drop-prefix", p
            if op is None:
                continue
            m2 = apply_op(m, op, arg)
            if m2 is None:
                continue
            t, m, last = (op, t, arg), m2, op
            break
    return t


# ----------------------------------------------------------------------------------------------------------------
# library graphs

def gen_graph(rng):
    g = Graph()
    if rng.random() < 0.85:
        cnt = Lib("cnt")
        d = Def("cnt", "next!", "next")
        cnt.defs.append(d)
        g.defs[("cnt", "next!")] = d
        cnt.exports = [("next!", "next!")]
        cnt.export_map = {"next!": (("cnt", "next!"), False)}
        g.libs["cnt"] = cnt
        g.order.append("cnt")
    nl = rng.randint(2, 5)
    for i in range(1, nl + 1):
        lib = Lib("l%d" % i)
        imported = {}
        cands = list(g.order)
        k = min(len(cands), rng.choice([0, 1, 1, 2, 2, 3]))
        if i == nl and k == 0 and cands:
            k = 1
        for src in rng.sample(cands, k):
            for attempt in range(5):
                t = gen_set(rng, g, src, rng.choice([0, 0, 1, 1, 2, 3]), avoid_only_touched=rng.random() < 0.97)
                m = eval_set(g, t)
                if merge(imported, m):
                    lib.imports.append(t)
                    break
        lib.env = {n: b for n, (b, t) in imported.items()}
        free = [n for n in POOL if n not in imported]
        rng.shuffle(free)

        def new(kind, aux=None, auxbind=None):
            if not free:
                return None
            d = Def(lib.name, free.pop(), kind, aux, auxbind)
            lib.defs.append(d)
            g.defs[(lib.name, d.name)] = d
            return d

        def helper(kind):
            have = [d for d in lib.defs if d.kind == kind]
            if have and rng.random() < 0.5:
                return rng.choice(have)
            return new(kind)

        imp_vars = sorted(n for n, b in lib.env.items() if g.defs[b].kind == "var")
        imp_calls = sorted(n for n, b in lib.env.items() if g.defs[b].kind in CALLABLE)
        for _ in range(rng.randint(2, 5)):
            r = rng.random()
            if r < 0.30:
                new("var")
            elif r < 0.45:
                h = helper("proc")
                if h:
                    new("mac-proc", h.name)
            elif r < 0.57:
                h = helper("mac")
                if h:
                    new("mac-mac", h.name)
            elif r < 0.70:
                h = helper("state")
                if h:
                    new("mac-state", h.name)
            elif r < 0.82 and imp_vars:
                n = rng.choice(imp_vars)
                new("mac-imp", n, lib.env[n])
            elif imp_calls:
                n = rng.choice(imp_calls)
                new("proc-call", n, lib.env[n])
            else:
                new("var")
        if not lib.defs:
            new("var")
        # exports
        cand = []
        for d in lib.defs:
            p = 0.25 if d.kind in ("proc", "mac", "state") else 0.75
            if rng.random() < p:
                cand.append(d.name)
        for n in sorted(lib.env):
            if rng.random() < 0.3:
                cand.append(n)
        if not cand:
            cand.append(lib.defs[0].name)
        used = set()
        internal_names = [d.name for d in lib.defs] + sorted(lib.env)
        for n in cand:
            ext = n
            if rng.random() < 0.35:
                ext = rng.choice(POOL + internal_names)
            if ext in used:
                ext = n
            if ext in used:
                continue
            used.add(ext)
            lib.exports.append((n, ext))
            if rng.random() < 0.08:
                alias = rng.choice(POOL)
                if alias not in used:
                    used.add(alias)
                    lib.exports.append((n, alias))
        for n, ext in lib.exports:
            bind = lib.env[n] if n in lib.env else (lib.name, n)
            lib.export_map[ext] = (bind, n != ext)
        lib.style = {"export_first": rng.random() < 0.5, "include": rng.random() < 0.2, "split_export": rng.random() < 0.3}
        g.libs[lib.name] = lib
        g.order.append(lib.name)
    return g


def def_text(d):
    q = "'" + d.tok
    if d.kind == "var":
        return "(define %s %s)" % (d.name, q)
    if d.kind == "state":
        return "(define %s 0)" % d.name
    if d.kind == "proc":
        return "(define (%s . x) (cons %s x))" % (d.name, q)
    if d.kind == "mac":
        return "(define-syntax %s (syntax-rules () ((_ x ...) (list %s x ...))))" % (d.name, q)
    if d.kind in ("mac-proc", "mac-mac"):
        return "(define-syntax %s (syntax-rules () ((_) (%s %s))))" % (d.name, d.aux, q)
    if d.kind == "mac-state":
        return ("(define-syntax %s (syntax-rules () ((_) (begin (set! %s (+ %s 1)) (list %s %s)))))"
                % (d.name, d.aux, d.aux, q, d.aux))
    if d.kind == "mac-imp":
        return "(define-syntax %s (syntax-rules () ((_) (list %s %s))))" % (d.name, q, d.aux)
    if d.kind == "proc-call":
        return "(define (%s) (list %s (%s)))" % (d.name, q, d.aux)
    raise ValueError(d.kind)


def lib_files(g, lib):
    """-> {relative path: text}"""
    if lib.name == "cnt":
        return {"vg/cnt.sld": '(define-library (vg cnt)\n  (export next!)\n  (import (scheme base))\n  (begin\n'
                              '    (write-string "@load cnt\\n")\n    (define count 0)\n'
                              '    (define (next!) (set! count (+ count 1)) count)))\n'}
    ex = []
    for n, e in lib.exports:
        ex.append(n if n == e else "(rename %s %s)" % (n, e))
    if lib.style["split_export"] and len(ex) > 1:
        h = len(ex) // 2
        exports = "  (export %s)\n  (export %s)\n" % (" ".join(ex[:h]), " ".join(ex[h:]))
    else:
        exports = "  (export %s)\n" % " ".join(ex)
    imports = "  (import (scheme base)%s)\n" % "".join(" " + set_text(t) for t in lib.imports)
    # helpers are defined after their users half of the time (macro templates may refer forward)
    body = ['(write-string "@load %s\\n")' % lib.name] + [def_text(d) for d in lib.defs]
    files = {}
    if lib.style["include"]:
        files["vg/%s-body.scm" % lib.name] = "\n".join(body) + "\n"
        btext = '  (include "%s-body.scm")' % lib.name
    else:
        btext = "  (begin\n    %s)" % "\n    ".join(body)
    decl = (exports + imports) if lib.style["export_first"] else (imports + exports)
    files["vg/%s.sld" % lib.name] = "(define-library (vg %s)\n%s%s)\n" % (lib.name, decl, btext)
    return files


def closure(g, sets):
    """Libraries that must have been loaded once the sets are imported."""
    seen = set()
    todo = [base_lib(t) for t in sets]
    while todo:
        n = todo.pop()
        if n in seen:
            continue
        seen.add(n)
        todo += [base_lib(t) for t in g.libs[n].imports]
    return seen


def only_touched_names(g, sets):
    """Names selected by an `only` whose identifier was renamed below it, over the sets and every import
    declaration of the libraries they pull in (root-cause field of finding C14-only-renamed)."""
    info = set()
    for t in sets:
        eval_set(g, t, None, info)
    for n in closure(g, sets):
        for t in g.libs[n].imports:
            eval_set(g, t, None, info)
    return info


def gen_group(rng, g):
    """1-3 import sets that may be imported together."""
    group = []
    merged = {}
    for _ in range(rng.choice([1, 1, 1, 2, 2, 3])):
        for attempt in range(4):
            t = gen_set(rng, g, rng.choice(g.order), rng.choice([0, 1, 1, 2, 2, 3, 3, 4, 4]))
            m = eval_set(g, t)
            if merge(merged, m):
                group.append(t)
                break
    if not group:
        group = [("lib", g.order[-1])]
    return group


def group_map(g, group, collect=None):
    merged = {}
    for t in group:
        ok = merge(merged, eval_set(g, t, collect))
        assert ok
    return merged


def universe(rng, g, groups):
    names = set()
    for lib in g.libs.values():
        names.update(d.name for d in lib.defs)
        names.update(lib.env)
        names.update(e for _, e in lib.exports)
        for t in lib.imports:
            eval_set(g, t, names)
    for grp in groups:
        group_map(g, grp, names)
    extra = set()
    for n in names:
        for p in PREFIXES:
            extra.add(p + n)
            if n.startswith(p) and len(n) > len(p):
                extra.add(n[len(p):])
    extra -= names
    extra = sorted(extra)
    rng.shuffle(extra)
    return sorted(names) + sorted(extra[:12]) + ["zz-never"]


# ----------------------------------------------------------------------------------------------------------------
# expected observations

class State:
    def __init__(self):
        self.c = {}
        self.loose = False

    def bump(self, key):
        self.c[key] = self.c.get(key, 0) + 1
        return self.c[key]


def expect_call(g, bind, st):
    d = g.defs[bind]
    k = d.kind
    if k in ("proc", "mac"):
        return [Sym(d.tok)]
    if k in ("mac-proc", "mac-mac"):
        return [Sym(g.defs[(d.lib, d.aux)].tok), Sym(d.tok)]
    if k == "mac-state":
        return [Sym(d.tok), st.bump((d.lib, d.aux))]
    if k == "mac-imp":
        return [Sym(d.tok), Sym(g.defs[d.auxbind].tok)]
    if k == "proc-call":
        inner = expect_call(g, d.auxbind, st)
        return [Sym(d.tok), inner]
    if k == "next":
        return st.bump("cnt")
    raise ValueError(k)


def same(exp, obs, loose):
    if isinstance(exp, list):
        return isinstance(obs, list) and len(exp) == len(obs) and all(same(a, b_, loose) for a, b_ in zip(exp, obs))
    if isinstance(exp, bool) or isinstance(obs, bool):
        return exp is obs
    if isinstance(exp, int):
        return isinstance(obs, int) and (loose or exp == obs)
    return isinstance(obs, Sym) and str(exp) == str(obs)


_EXC = re.compile(r'^\(exc (\S+) ("(?:[^"\\]|\\.)*") ("(?:[^"\\]|\\.)*")\)\s*$', re.S)


def classify(text, name):
    """text of one probe -> ('unbound',) | ('value', v) | ('procedure',) | ('error', msg) | ('garbled', text)"""
    lines = [l for l in text.split("\n") if l.strip() and not l.startswith("@load ")]
    if len(lines) != 1:
        return ("garbled", text[:200])
    l = lines[0]
    if l.startswith("(ok #<procedure"):
        return ("procedure",)
    if l.startswith("(ok "):
        try:
            v = sexpr.parse(l)
        except Exception:
            return ("garbled", l[:200])
        if len(v) != 2:
            return ("garbled", l[:200])
        return ("value", v[1])
    m = _EXC.match(l)
    if m:
        msg = sexpr.parse(m.group(2))
        irr = sexpr.parse(m.group(3))
        if str(msg) == "undefined variable" and str(irr) == "(%s)" % name:
            return ("unbound",)
        return ("error", str(msg), str(irr))
    return ("garbled", l[:200])


def tokens(v):
    """The definition tokens (symbols) of an observed / expected value, in order."""
    if isinstance(v, Sym):
        return [str(v)]
    if isinstance(v, list):
        return [t for y in v for t in tokens(y)]
    return []


def token_relation(g, group, v):
    """What an unexpectedly visible value is, relative to the import group (stable signature field)."""
    toks = tokens(v)
    bylib = {d.tok: d for d in g.defs.values()}
    if not toks or toks[0] not in bylib:
        return "unknown-value"
    d = bylib[toks[0]]
    bases = {base_lib(t) for t in group}
    exported = any((d.lib, d.name) == b for lb in bases for b, _ in g.libs[lb].export_map.values())
    if exported:
        return "binding-exported-by-imported-library"
    if d.lib in bases:
        return "private-binding-of-imported-library"
    return "binding-of-other-library"


def judge_probe(g, group, merged, name, oa, ob, st):
    """-> None or (mode, detail dict)"""
    if oa[0] == "garbled" or ob[0] == "garbled":
        return ("garbled-output", {"got": [oa, ob]})
    if name not in merged:
        if oa[0] == "unbound" and ob[0] == "unbound":
            return None
        st.loose = True
        got = oa if oa[0] != "unbound" else ob
        rel = token_relation(g, group, got[1]) if got[0] == "value" else got[0]
        return ("extra-binding", {"what": rel})
    bind = merged[name][0]
    d = g.defs[bind]
    k = d.kind
    if oa[0] == "unbound" or ob[0] == "unbound":
        return ("missing-binding", {})          # (no call happened: the model's counters stay as they are)
    if k == "var":
        ok = oa[0] == "value" and same(Sym(d.tok), oa[1], False) and ob[0] == "error"
    elif k == "state":
        ok = oa[0] == "value" and same(st.c.get((d.lib, d.name), 0), oa[1], st.loose) and ob[0] == "error"
    else:
        exp = expect_call(g, bind, st)
        okb = ob[0] == "value" and same(exp, ob[1], st.loose)
        if k in PROCS:
            ok = okb and oa[0] == "procedure"
        else:
            ok = okb and oa[0] == "error"
    if ok:
        return None
    st.loose = True
    got = oa if k in ("var", "state") else ob
    if got[0] == "value":
        toks = tokens(got[1])
        if k == "var":
            exp_toks = [d.tok]
        elif k == "state":
            exp_toks = []
        else:
            exp_toks = tokens(expect_call(g, bind, State()))     # (a scratch state: the real one is not disturbed)
        if toks != exp_toks:
            return ("wrong-binding", {"what": "value-of-another-definition"})
        return ("wrong-state", {"what": "counter-value"})
    return ("wrong-kind", {"what": "%s/%s" % (oa[0], ob[0])})


# ----------------------------------------------------------------------------------------------------------------
# running

IMPORT0 = "(import (scheme base) (scheme eval))"


def write_graph(g, d):
    os.makedirs(os.path.join(d, "vg"), exist_ok=True)
    for name in g.order:
        for rel, text in lib_files(g, g.libs[name]).items():
            with open(os.path.join(d, rel), "w") as fh:
                fh.write(text)


def graph_text(g):
    out = []
    for name in g.order:
        for rel, text in sorted(lib_files(g, g.libs[name]).items()):
            out.append(";; %s\n%s" % (rel, text))
    return "\n".join(out)


def group_text(group):
    return " ".join(set_text(t) for t in group)


def env_failure_sig(g, group, msg, irr):
    """Signature fields for an import that raised.  `culprit` names the root cause when the model can see one:
    an `only` that selects an identifier renamed below it (by the first irritant, the rejected name), or a library
    of the closure whose own import declaration does so and therefore failed to load earlier."""
    culprit = "none"
    m = re.match(r"\(?\s*\(?([^\s()]+)", irr or "")
    first = m.group(1) if m else None
    if msg == "importing unknown binding":
        if first in only_touched_names(g, group):
            culprit = "only-selects-renamed-id"
    elif msg == "module attempted to reference itself while loading":
        for n in closure(g, group):
            info = set()
            for t in g.libs[n].imports:
                eval_set(g, t, None, info)
            if info:
                culprit = "only-selects-renamed-id"
    return {"message": msg, "culprit": culprit}


def load_counts(text):
    c = {}
    for l in text.split("\n"):
        if l.startswith("@load "):
            n = l[6:].strip()
            c[n] = c.get(n, 0) + 1
    return c


def run_graph(job):
    """One graph: envprobe over all groups, then program-file and -e runs for a few groups.
    Returns a dict with cases / violations / inconclusives (plain data; the caller feeds the Report)."""
    b, exe, gi, seed, ngroups, nprog = job
    rng = random.Random(seed)
    g = gen_graph(rng)
    groups = [gen_group(rng, g) for _ in range(ngroups)]
    names = universe(rng, g, groups)
    out = {"cases": [], "viol": [], "inconc": [], "counts": {}, "sample": None, "log": []}

    def count(k, n=1):
        out["counts"][k] = out["counts"].get(k, 0) + n

    d = R.scratch_dir("c14g")
    try:
        write_graph(g, d)
        gtxt = graph_text(g)
        req = os.path.join(d, "req.txt")
        with open(req, "w") as fh:
            fh.write("i0\t%s\n" % IMPORT0)
            for ei, grp in enumerate(groups):
                fh.write("E%d\t(define E%d (environment %s))\n" % (ei, ei, " ".join("'" + set_text(t) for t in grp)))
                for ni, n in enumerate(names):
                    fh.write("E%d.%d.A\t(eval '%s E%d)\n" % (ei, ni, n, ei))
                    fh.write("E%d.%d.B\t(eval '(%s) E%d)\n" % (ei, ni, n, ei))
        r = R.run(b, None, raw_cmd=[exe, "-A", d, req], env_extra={"CHIBI_VERIF_HEAPCHECK": 1}, timeout=120, cwd=b.src)
        out["log"] = [l for l in r.log if l.startswith("HEAPCHECK")]
        parts, saw_end, trailing = C.split_output(r.out)
        res = dict(parts)
        if r.timed_out:
            out["inconc"].append(("timeout", "graph %d" % gi))
            return out
        if not saw_end or r.rc != 0:
            out["viol"].append(({"mode": "harness-process-died", "how": r.describe()},
                                {"graph": gtxt, "stderr": r.err[-1500:], "last": parts[-1][0] if parts else None,
                                 "sanitizer": r.sanitizer_report()}))
            return out
        i0 = res.get("i0", "")
        if "(ok" not in i0:
            raise B.HarnessError("envprobe could not import (scheme base) (scheme eval): %s %s" % (i0, r.err[-500:]))
        st = State()
        loaded_expected = set()
        built = []
        for ei, grp in enumerate(groups):
            merged = group_map(g, grp)
            chains = "+".join(sorted(chain(t) for t in grp))
            etext = res.get("E%d" % ei, "")
            ecls = classify(etext, "")
            wit0 = {"graph": gtxt, "environment": "(environment %s)" % " ".join("'" + set_text(t) for t in grp)}
            count("import_groups")
            if ecls[0] != "value":
                sig = {"mode": "environment-raised", "ops": ops_of(grp)}
                if ecls[0] == "error":
                    sig.update(env_failure_sig(g, grp, ecls[1], ecls[2]))
                    wit0["irritants"] = ecls[2]
                wit0["observed"] = etext.strip()[:400]
                out["viol"].append((sig, wit0))
                out["cases"].append(("env", chains, "raised"))
                count("environments_raised")
                continue
            loaded_expected |= closure(g, grp)
            built.append(ei)
            count("environments_built")
            for ni, n in enumerate(names):
                ta = res.get("E%d.%d.A" % (ei, ni))
                tb = res.get("E%d.%d.B" % (ei, ni))
                if ta is None or tb is None:
                    out["inconc"].append(("no-output", "E%d.%d" % (ei, ni)))
                    continue
                oa, ob = classify(ta, n), classify(tb, n)
                kind = g.defs[merged[n][0]].kind if n in merged else "unbound"
                if n in merged:
                    respo = [t for t in grp if n in eval_set(g, t)]
                    ch = chain(respo[0]) if respo else chains
                    ops = ops_of(respo[:1] or grp)
                    status = "renamed" if merged[n][1] else "plain"
                else:
                    ch = chains
                    ops = ops_of(grp)
                    status = "absent"
                out["cases"].append((ch, kind, status))
                count("name_probes")
                v = judge_probe(g, grp, merged, n, oa, ob, st)
                if v:
                    mode, det = v
                    sig = {"mode": mode, "ops": ops, "kind": kind}
                    sig.update(det)
                    w = dict(wit0)
                    w.update({"name": n, "expected": "unbound" if n not in merged else
                              "bound to %s (%s)" % (g.defs[merged[n][0]].tok, kind),
                              "probe_name": ta.strip()[:300], "probe_call": tb.strip()[:300]})
                    out["viol"].append((sig, w))
            if out["sample"] is None and len(merged) > 1 and depth(grp[0]) >= 2:
                out["sample"] = {"environment": wit0["environment"], "bound_names_expected": sorted(merged),
                                 "names_probed": len(names), "graph": gtxt[:1500]}
        lc = load_counts(r.out)
        for lib in g.order:
            c = lc.get(lib, 0)
            out["cases"].append(("load-once", "envprobe", min(c, 2)))
            count("load_marker_checks")
            if c > 1 or (c == 0 and lib in loaded_expected):
                out["viol"].append(({"mode": "load-marker-count", "count": min(c, 3), "via": "environment"},
                                    {"graph": gtxt, "library": lib, "count": c,
                                     "groups": [group_text(x) for x in groups]}))
        # ---- program file / -e runs (the real command line) ----
        # (groups whose environment already raised are not repeated through the command line: the import would
        # raise the same way and the command line then spends ~2 s searching all modules for advice)
        for pi in range(nprog):
            if not built:
                break
            grp = groups[built[rng.randrange(len(built))]]
            merged = group_map(g, grp)
            how = "program" if pi % 2 == 0 else "dash-e"
            raising = (gi % 20 == 0 and how == "program") or (gi % 20 == 10 and how == "dash-e")
            run_program(b, d, g, gtxt, grp, merged, names, how, raising, rng, out, count)
    finally:
        shutil.rmtree(d, ignore_errors=True)
    return out


def parse_error(err):
    """-> (message, irritant text) of the first ERROR report on stderr (both report layouts of chibi)."""
    lines = err.split("\n")
    for i, l in enumerate(lines):
        m = re.match(r"ERROR(?: on line \d+ of file [^:]*)?: (.*)$", l)
        if m:
            rest = m.group(1).strip()
            if ": " in rest:
                msg, irr = rest.split(": ", 1)
                return msg, irr
            irr = []
            for l2 in lines[i + 1:]:
                if l2.startswith("    "):
                    irr.append(l2.strip())
                else:
                    break
            return rest.rstrip(":"), " ".join(irr)
    return err.strip()[:80], ""


def run_program(b, d, g, gtxt, grp, merged, names, how, raising, rng, out, count):
    """The same import group through the real command line: a program file whose first forms are `(import ...)`
    (environment = import + cond-expand only) or `-e "(import ...)"` in the REPL environment.
    Every model-bound name is printed.  Unbound names: the program file wraps references to ALL model-unbound names in a
    never-called procedure and reads chibi's `reference to undefined variable` warnings (non-raising cross-check);
    when `raising`, the run additionally ends with a reference to one unbound name and must die with `undefined
    variable` (costs ~2 s: the command line then searches every module for an exporter)."""
    chains = "+".join(sorted(chain(t) for t in grp))
    st = State()
    bound = sorted(merged)
    rng.shuffle(bound)
    unb = [n for n in names if n not in merged]
    probe_unbound = rng.choice(unb)
    shadow = [n for n in unb if n != probe_unbound and rng.random() < 0.15][:3] if how == "program" else []
    listed = [n for n in unb if n not in shadow]
    exp_lines = []
    forms = []
    for n in bound:
        dd = g.defs[merged[n][0]]
        if dd.kind == "var":
            forms.append(n)
            exp_lines.append(Sym(dd.tok))
        elif dd.kind == "state":
            forms.append(n)
            exp_lines.append(st.c.get((dd.lib, dd.name), 0))
        else:
            forms.append("(%s)" % n)
            exp_lines.append(expect_call(g, merged[n][0], st))
    imp = "(import %s)" % group_text(grp)
    if how == "program":
        path = os.path.join(d, "prog-%d.scm" % len(out["cases"]))
        with open(path, "w") as fh:
            fh.write("(import (only (scheme base) quote newline define list) (only (scheme write) write))\n%s\n" % imp)
            for s_ in shadow:
                # the importer's own definitions under names the libraries use privately
                fh.write("(define %s 'user:%s)\n" % (s_, s_))
            fh.write("(write '%start) (newline)\n")
            fh.write("(define (%%unb) (list %s))\n" % " ".join(listed))
            for f in forms:
                fh.write("(write %s) (newline)\n" % f)
            for s_ in shadow:
                fh.write("(write %s) (newline)\n" % s_)
            fh.write("(write '%done) (newline)\n")
            if raising:
                fh.write("(write %s) (newline)\n(write '%%after) (newline)\n" % probe_unbound)
        args = ["-A", d, path]
        exp_all = [Sym("%start")] + exp_lines + [Sym("user:" + s_) for s_ in shadow] + [Sym("%done")]
        text = open(path).read()
    else:
        args = ["-A", d, "-e", imp, "-p", "'%start"]
        for f in forms:
            args += ["-p", f]
        args += ["-p", "'%done"]
        if raising:
            args += ["-p", probe_unbound, "-p", "'%after"]
        exp_all = [Sym("%start")] + exp_lines + [Sym("%done")]
        text = " ".join(args[2:])
    r = R.run(b, args, env_extra={"CHIBI_VERIF_HEAPCHECK": 1}, timeout=60)
    out["log"] += [l for l in r.log if l.startswith("HEAPCHECK")]
    count("program_runs" if how == "program" else "dash_e_runs")
    if raising:
        count("command_line_runs_ending_in_undefined_variable")
    out["cases"].append((how, chains, len(shadow) > 0, raising))
    wit = {"graph": gtxt, "how": how, "program": text, "stdout": r.out[-1500:], "stderr": r.err[-1200:], "exit": r.describe()}
    if r.timed_out:
        out["inconc"].append(("timeout", how))
        return
    if r.crashed:
        out["viol"].append(({"mode": "crash", "via": how, "how": r.describe()}, wit))
        return
    lines = [l for l in r.out.split("\n") if l.strip()]
    loads = [l for l in lines if l.startswith("@load ")]
    vals = [l for l in lines if not l.startswith("@load ")]
    parsed = []
    for l in vals:
        try:
            parsed.append(sexpr.parse(l))
        except Exception:
            parsed.append(Sym(l))              # e.g. #<procedure ...>: compared as an opaque token
    if not parsed or parsed[0] != Sym("%start"):
        # the import itself failed
        msg, irr = parse_error(r.err)
        sig = {"mode": "environment-raised", "ops": ops_of(grp), "via": how}
        sig.update(env_failure_sig(g, grp, msg, irr))
        out["viol"].append((sig, wit))
        return
    wit["expected_lines"] = [sexpr.to_scm(x) if not isinstance(x, list) else repr(x) for x in exp_all]
    if Sym("%after") in parsed:
        out["viol"].append(({"mode": "extra-binding", "via": how, "ops": ops_of(grp), "kind": "unbound", "what": "no-error"}, wit))
        return
    if len(parsed) != len(exp_all) or not all(same(e, o, False) for e, o in zip(exp_all, parsed)):
        # which line differs first
        idx = next((i for i, (e, o) in enumerate(zip(exp_all, parsed)) if not same(e, o, False)), min(len(parsed), len(exp_all)))
        kind = "end"
        if 1 <= idx <= len(bound):
            kind = g.defs[merged[bound[idx - 1]][0]].kind
        elif idx > len(bound):
            kind = "importer-definition" if idx <= len(bound) + len(shadow) else "end"
        mode = "missing-binding" if "undefined variable" in r.err and len(parsed) < len(exp_all) else "wrong-binding"
        out["viol"].append(({"mode": mode, "via": how, "ops": ops_of(grp), "kind": kind}, wit))
        return
    if raising:
        msg, irr = parse_error(r.err)
        if r.rc == 0 or msg != "undefined variable" or irr.strip() != probe_unbound:
            out["viol"].append(({"mode": "extra-binding", "via": how, "ops": ops_of(grp), "kind": "unbound",
                                 "what": "no-undefined-variable-error"}, wit))
            return
    elif r.rc != 0:
        msg, irr = parse_error(r.err)
        out["viol"].append(({"mode": "unexpected-error", "via": how, "ops": ops_of(grp), "message": msg}, wit))
        return
    if how == "program" and not raising:        # (a run that dies never reaches the end-of-load warnings)
        warned = set(re.findall(r"WARNING: reference to undefined variable: (\S+)", r.err))
        want = set(listed)
        count("unbound_names_cross_checked_by_warning", len(listed))
        if warned != want:
            extra = sorted(want - warned)       # no warning: chibi has a binding the model does not
            missing = sorted(warned - want)
            wit["no_warning_for"] = extra
            wit["unexpected_warning_for"] = missing
            out["viol"].append(({"mode": "extra-binding" if extra else "missing-binding", "via": "program-warnings",
                                 "ops": ops_of(grp), "kind": "unbound"}, wit))
            return
    need = closure(g, grp)
    lc = {}
    for l in loads:
        lc[l[6:].strip()] = lc.get(l[6:].strip(), 0) + 1
    for lib in g.order:
        c = lc.get(lib, 0)
        if c > 1 or (c == 0 and lib in need):
            out["viol"].append(({"mode": "load-marker-count", "count": min(c, 3), "via": how}, dict(wit, library=lib)))


def check(rep, tier, seed, variant="hooks", ngraphs=None, ngroups=None):
    b = B.ensure(variant)
    rep.builds.add(variant)
    exe = b.native("envprobe")
    ngraphs = ngraphs or (100 if tier == "quick" else 2000)
    ngroups = ngroups or 18
    jobs = [(b, exe, gi, seed * 1000003 + gi * 7 + 14, ngroups, 2) for gi in range(ngraphs)]
    heapfail = 0
    for o in R.pmap(run_graph, jobs):
        for c in o["cases"]:
            rep.case(c)
        for sig, wit in o["viol"]:
            rep.violation(sig, wit)
        for reason, det in o["inconc"]:
            rep.inconc(reason, det)
        for k, n in o["counts"].items():
            rep.count(k, n)
        if o["sample"]:
            rep.sample(o["sample"], limit=4)
        for l in o["log"]:
            if l.startswith("HEAPCHECK-FAIL"):
                rep.violation({"mode": "heapcheck", "what": l.split()[1]}, {"line": l})
            elif l.startswith("HEAPCHECK-SUMMARY"):
                for tok in l.split()[1:]:
                    if tok.startswith("runs="):
                        rep.count("heap_checks", int(tok[5:]))
    rep.extra["graphs"] = ngraphs
    rep.rule = ("seeded generator of library graphs (2-5 libraries + a shared counter library; random export lists with "
                "(rename a b) and alias exports, names reused across libraries, DAG imports with their own modifiers, "
                "re-exports, syntax-rules macros reaching private procedures / macros / mutable state / imported bindings) "
                "and of valid import-set groups (only/except/rename/prefix/drop-prefix, depth <= 4, 1-3 sets per "
                "environment); one evaluation = one (environment, name) pair probed as `n` and `(n)` through C-level "
                "eval, or one program-file / -e run; distinct = (modifier chain of the responsible set, kind of the "
                "expected binding or 'unbound', plain/renamed/absent)")
    rep.assumptions = ["the Python set algebra implements R7RS 5.2/5.6 import-set semantics; drop-prefix (chibi extension) "
                       "is generated only as the exact inverse of prefix (every name carries the prefix)",
                       "an unbound variable is recognised by the exception message 'undefined variable' with the probed name as irritant",
                       "tokens 'lib:name' are unique per definition, so a value identifies its defining library",
                       "mutation of imported bindings is never generated"]
